//! Evidence files, replay artefacts, known findings and exit codes.

use serde_json::{json, Map, Value};
use std::path::PathBuf;
use std::time::Instant;

#[derive(Clone, Copy, Debug, PartialEq, Eq)]
pub enum Tier {
    Quick,
    Thorough,
}

impl Tier {
    pub fn as_str(&self) -> &'static str {
        match self {
            Tier::Quick => "quick",
            Tier::Thorough => "thorough",
        }
    }
    pub fn pick<T>(&self, q: T, t: T) -> T {
        match self {
            Tier::Quick => q,
            Tier::Thorough => t,
        }
    }
}

pub fn root() -> PathBuf {
    PathBuf::from(std::env::var("VERIF_ROOT").unwrap_or_else(|_| "/verif".to_string()))
}

pub struct Check {
    pub id: String,
    pub tier: Tier,
    pub seed: u64,
    pub level: &'static str,
    pub t0: Instant,
    pub coverage: Map<String, Value>,
    pub assumptions: Vec<String>,
    pub findings: Vec<Finding>,
    pub machinery: Vec<String>,
    pub samples: Vec<Value>,
    pub threads: usize,
}

#[derive(Clone, Debug)]
pub struct Finding {
    /// `<class>` part; the full signature is `<property>/<class>`
    pub class: String,
    pub message: String,
    /// everything needed to re-run this one case: {"engine":..., "params":..., "choices":..., "log":...}
    pub replay: Value,
}

impl Check {
    pub fn new(id: &str, tier: Tier, level: &'static str) -> Self {
        let seed = std::env::var("VERIF_SEED")
            .ok()
            .and_then(|s| s.parse::<u64>().ok())
            .unwrap_or(0);
        let threads = std::env::var("VERIF_THREADS")
            .ok()
            .and_then(|s| s.parse::<usize>().ok())
            .unwrap_or_else(|| {
                std::thread::available_parallelism()
                    .map(|n| n.get())
                    .unwrap_or(4)
                    .min(16)
            });
        Check {
            id: id.to_string(),
            tier,
            seed,
            level,
            t0: Instant::now(),
            coverage: Map::new(),
            assumptions: Vec::new(),
            findings: Vec::new(),
            machinery: Vec::new(),
            samples: Vec::new(),
            threads,
        }
    }

    pub fn cov(&mut self, k: &str, v: impl Into<Value>) {
        self.coverage.insert(k.to_string(), v.into());
    }

    pub fn cov_add(&mut self, k: &str, n: u64) {
        let cur = self.coverage.get(k).and_then(|v| v.as_u64()).unwrap_or(0);
        self.coverage.insert(k.to_string(), json!(cur + n));
    }

    pub fn assume(&mut self, s: &str) {
        self.assumptions.push(s.to_string());
    }

    pub fn sample(&mut self, v: Value) {
        if self.samples.len() < 6 {
            self.samples.push(v);
        }
    }

    pub fn finding(&mut self, class: impl Into<String>, message: impl Into<String>, replay: Value) {
        let class = class.into();
        if self.findings.iter().any(|f| f.class == class) {
            return;
        }
        self.findings.push(Finding {
            class,
            message: message.into(),
            replay,
        });
    }

    pub fn machinery_error(&mut self, s: impl Into<String>) {
        self.machinery.push(s.into());
    }

    /// Writes the evidence file, prints KNOWN-FINDING / VIOLATION lines and
    /// returns the process exit code.
    pub fn conclude(mut self) -> i32 {
        let root = root();
        let known = load_known(&self.id);
        let mut unlisted: Vec<(Finding, String)> = Vec::new();
        let mut known_hit: Vec<(String, String)> = Vec::new();
        let findings = std::mem::take(&mut self.findings);
        for f in findings {
            let sig = format!("{}/{}", self.id, f.class);
            if let Some(what) = known.iter().find(|(s, _)| *s == sig).map(|(_, w)| w.clone()) {
                known_hit.push((sig, what));
            } else {
                unlisted.push((f, sig));
            }
        }
        let wall = self.t0.elapsed().as_secs_f64();
        if !self.coverage.contains_key("samples") {
            let s = if self.samples.is_empty() {
                vec![json!("(no sample recorded)")]
            } else {
                self.samples.clone()
            };
            self.coverage.insert("samples".into(), Value::Array(s));
        }
        self.coverage.insert(
            "known_findings_reproduced".into(),
            json!(known_hit.iter().map(|(s, _)| s.clone()).collect::<Vec<_>>()),
        );
        if !self.machinery.is_empty() {
            self.coverage
                .insert("machinery_errors".into(), json!(self.machinery.clone()));
        }
        let ev = json!({
            "property_id": self.id,
            "tier": self.tier.as_str(),
            "seed": self.seed,
            "level": self.level,
            "coverage": Value::Object(self.coverage.clone()),
            "assumptions": self.assumptions,
            "wall_s": (wall * 1000.0).round() / 1000.0,
            "violations": unlisted.len(),
        });
        let evdir = root.join("evidence");
        let _ = std::fs::create_dir_all(&evdir);
        let evpath = evdir.join(format!("{}.json", self.id));
        if let Err(e) = std::fs::write(&evpath, serde_json::to_string_pretty(&ev).unwrap() + "\n") {
            eprintln!("MACHINERY: cannot write evidence {}: {}", evpath.display(), e);
            return 2;
        }
        for (sig, what) in &known_hit {
            println!("KNOWN-FINDING: property={} {} [{}]", self.id, what, sig);
        }
        if !self.machinery.is_empty() {
            for m in self.machinery.iter().take(8) {
                eprintln!("MACHINERY: {}", m);
            }
            if self.machinery.len() > 8 {
                eprintln!("MACHINERY: ... and {} more of the same kind (all of them are in the evidence file)", self.machinery.len() - 8);
            }
            println!(
                "{}: machinery failure ({} error(s)); no verdict",
                self.id,
                self.machinery.len()
            );
            return 2;
        }
        if unlisted.is_empty() {
            println!(
                "{}: held on everything explored ({} tier, {:.1}s){}",
                self.id,
                self.tier.as_str(),
                wall,
                if known_hit.is_empty() {
                    String::new()
                } else {
                    format!("; {} known finding(s) reproduced", known_hit.len())
                }
            );
            return 0;
        }
        let rdir = root.join("replays");
        let _ = std::fs::create_dir_all(&rdir);
        for (f, sig) in &unlisted {
            let fname = format!("{}.json", sanitize(sig));
            let path = rdir.join(&fname);
            let body = json!({
                "property": self.id,
                "signature": sig,
                "message": f.message,
                "replay": f.replay,
            });
            let _ = std::fs::write(&path, serde_json::to_string_pretty(&body).unwrap() + "\n");
            println!("VIOLATION property={} replay={}", self.id, path.display());
            println!("  signature: {}", sig);
            println!("  {}", f.message.lines().next().unwrap_or(""));
        }
        1
    }
}

pub fn sanitize(s: &str) -> String {
    let mut out: String = s
        .chars()
        .map(|c| if c.is_ascii_alphanumeric() || c == '-' || c == '.' { c } else { '_' })
        .collect();
    if out.len() > 140 {
        let h = crate::refcodec::fnv(s.as_bytes());
        out.truncate(120);
        out.push_str(&format!("_{:08x}", h as u32));
    }
    out
}

/// (signature, what) of every `known` entry for this property.
pub fn load_known(id: &str) -> Vec<(String, String)> {
    let p = root().join("known_findings.json");
    let Ok(s) = std::fs::read_to_string(&p) else {
        return Vec::new();
    };
    let Ok(v) = serde_json::from_str::<Value>(&s) else {
        eprintln!("MACHINERY: known_findings.json is not valid JSON; ignoring it");
        return Vec::new();
    };
    let mut out = Vec::new();
    if let Some(arr) = v.get("known").and_then(|k| k.as_array()) {
        for e in arr {
            if e.get("property").and_then(|p| p.as_str()) == Some(id) {
                if let (Some(sig), Some(what)) = (
                    e.get("signature").and_then(|s| s.as_str()),
                    e.get("what").and_then(|s| s.as_str()),
                ) {
                    out.push((sig.to_string(), what.to_string()));
                }
            }
        }
    }
    out
}

pub fn parse_tier(args: &[String]) -> Tier {
    let mut tier = std::env::var("VERIF_TIER").unwrap_or_else(|_| "quick".into());
    let mut i = 0;
    while i < args.len() {
        if args[i] == "--tier" && i + 1 < args.len() {
            tier = args[i + 1].clone();
        }
        i += 1;
    }
    if tier == "thorough" {
        Tier::Thorough
    } else {
        Tier::Quick
    }
}

pub fn arg_value(args: &[String], name: &str) -> Option<String> {
    let mut i = 0;
    while i + 1 < args.len() {
        if args[i] == name {
            return Some(args[i + 1].clone());
        }
        i += 1;
    }
    None
}

/// Resident set size of this process in bytes (Linux).
pub fn rss_bytes() -> u64 {
    std::fs::read_to_string("/proc/self/statm")
        .ok()
        .and_then(|s| s.split_whitespace().nth(1).and_then(|x| x.parse::<u64>().ok()))
        .map(|pages| pages * 4096)
        .unwrap_or(0)
}

/// Memory cap for the engines (env VERIF_MAX_RSS_GB, default 20).
pub fn rss_cap_bytes() -> u64 {
    std::env::var("VERIF_MAX_RSS_GB").ok().and_then(|s| s.parse::<u64>().ok()).unwrap_or(20) << 30
}
