//! Deterministic single-threaded world for the real sockets: an executor whose
//! every scheduling decision is a choice point, in-memory byte ducts whose
//! every answer is a harness decision, and condition flags for scripted actors.
//!
//! All state is thread-local; library code never runs while the world cell is
//! borrowed (pipe operations borrow it only for their own short critical
//! section), so hooks called from inside library code may use it freely.

use crate::explore::{self, kind};
use futures::io::{AsyncRead, AsyncWrite};
use std::cell::{Cell, RefCell};
use std::collections::{BTreeMap, VecDeque};
use std::future::Future;
use std::io;
use std::panic::{catch_unwind, AssertUnwindSafe};
use std::pin::Pin;
use std::sync::Arc;
use std::task::{Context, Poll, Wake, Waker};

pub type TaskId = usize;
pub type DuctId = usize;

#[derive(Clone, Debug)]
pub enum Chunk {
    Data(Vec<u8>),
    Eof,
    Err(io::ErrorKind),
    /// not deliverable until the named condition is set
    Gate(String),
}

#[derive(Clone, Copy, Debug, PartialEq, Eq)]
pub enum WMode {
    /// accept everything
    Open,
    /// accept at most k bytes per write call
    Limit(usize),
    /// accept this many more bytes, then behave as Stalled
    Budget(usize),
    /// accept nothing: Pending, waker registered
    Stalled,
    /// fail every write with this error kind
    Fail(io::ErrorKind),
}

pub type Sink = Box<dyn FnMut(&[u8]) -> Vec<(DuctId, Chunk)>>;

struct Duct {
    name: String,
    // writer side (library writes)
    tap: Vec<u8>,
    tap_marks: Vec<(usize, u64)>,
    wmode: WMode,
    wscript: VecDeque<WMode>,
    wwaker: Option<Waker>,
    writer_dropped: Option<u64>,
    writer_closed: bool,
    /// bytes the library writes become chunks pending delivery on this same duct
    forward: bool,
    sink: Option<Sink>,
    // transit
    pending: VecDeque<Chunk>,
    // reader side (library reads)
    readable: VecDeque<u8>,
    eof: bool,
    rerr: Option<io::ErrorKind>,
    rwaker: Option<Waker>,
    reader_dropped: Option<u64>,
    read_calls: u64,
    write_errors: u64,
}

struct Task {
    name: String,
    app: bool,
    fut: Option<Pin<Box<dyn Future<Output = ()>>>>,
    done: bool,
    queued: bool,
    polls: u64,
}

#[derive(Clone, Debug)]
pub struct WorldCfg {
    /// environment events may land inside pipe reads (choice point)
    pub nested_env: bool,
    /// library yield points are choice points
    pub yields: bool,
    /// select! branch order is a choice point
    pub select: bool,
    /// default scheduling policy (what choice 0 means at a scheduling point):
    /// 0 = runnable tasks FIFO, environment events only when no task is runnable;
    /// 1 = environment events first, then tasks FIFO; 2 = runnable tasks LIFO, then environment events
    pub policy: u8,
    /// a pipe read that has data may instead yield cooperatively (wake the reader's waker and
    /// return Pending), as tokio's I/O resources do when the task budget is used up: choice point
    pub coop: bool,
}

impl Default for WorldCfg {
    fn default() -> Self {
        WorldCfg {
            nested_env: true,
            yields: true,
            select: true,
            policy: 0,
            coop: false,
        }
    }
}

struct World {
    cfg: WorldCfg,
    tasks: Vec<Task>,
    runq: VecDeque<TaskId>,
    ducts: Vec<Duct>,
    step: u64,
    log: Vec<String>,
    conds: BTreeMap<String, (bool, Vec<Waker>)>,
    panics: Vec<String>,
    livelocks: Vec<String>,
    current: Option<TaskId>,
    idle_waiters: Vec<(u64, Waker)>,
    idle_fired: std::collections::BTreeSet<u64>,
    idle_next: u64,
    coop_exhausted: bool,
    coop_yields_in_poll: u32,
    /// library yield points passed within the task poll in progress
    yield_points_in_poll: u32,
    yield_loop_seen: bool,
    coop_budget_events: u32,
}

thread_local! {
    static W: RefCell<Option<World>> = const { RefCell::new(None) };
    static WAKES: RefCell<Vec<(u64, TaskId)>> = const { RefCell::new(Vec::new()) };
    static EPOCH: Cell<u64> = const { Cell::new(0) };
    static LAST_PANIC: RefCell<Option<String>> = const { RefCell::new(None) };
    static AUTO_ID: Cell<u64> = const { Cell::new(0) };
    static CAPTURE_PANICS: Cell<bool> = const { Cell::new(false) };
}

fn with<R>(f: impl FnOnce(&mut World) -> R) -> R {
    W.with(|w| {
        let mut b = w.borrow_mut();
        f(b.as_mut().expect("no world on this thread"))
    })
}

fn try_with<R>(f: impl FnOnce(&mut World) -> R) -> Option<R> {
    W.try_with(|w| {
        let mut b = w.try_borrow_mut().ok()?;
        b.as_mut().map(f)
    })
    .ok()
    .flatten()
}

pub fn epoch() -> u64 {
    EPOCH.with(|e| e.get())
}

/// Installs the process-wide panic hook that records (instead of printing) panics
/// raised on threads that are capturing.
pub fn install_panic_hook() {
    static ONCE: std::sync::Once = std::sync::Once::new();
    ONCE.call_once(|| {
        let default = std::panic::take_hook();
        std::panic::set_hook(Box::new(move |info| {
            let capturing = CAPTURE_PANICS.try_with(|c| c.get()).unwrap_or(false);
            if capturing {
                let msg = if let Some(s) = info.payload().downcast_ref::<&str>() {
                    s.to_string()
                } else if let Some(s) = info.payload().downcast_ref::<String>() {
                    s.clone()
                } else {
                    "<non-string panic>".to_string()
                };
                let loc = info
                    .location()
                    .map(|l| {
                        let f = l.file();
                        // stable, machine-independent rendering of the location
                        let f = if let Some(i) = f.find("/registry/src/") {
                            let rest = &f[i + "/registry/src/".len()..];
                            rest.split_once('/').map(|x| x.1).unwrap_or(rest)
                        } else if let Some(i) = f.find("/library/") {
                            &f[i + 1..]
                        } else if let Some(r) = f.strip_prefix("/repo/") {
                            r
                        } else {
                            f
                        };
                        format!("{}:{}", f, l.line())
                    })
                    .unwrap_or_default();
                let _ = LAST_PANIC.try_with(|p| *p.borrow_mut() = Some(format!("{} @ {}", msg, loc)));
            } else {
                default(info);
            }
        }));
    });
}

pub fn capture_panics(on: bool) {
    CAPTURE_PANICS.with(|c| c.set(on));
}

pub fn take_last_panic() -> Option<String> {
    LAST_PANIC.with(|p| p.borrow_mut().take())
}

/// Runs `f` catching a panic; returns the panic description on panic.
pub fn guarded<R>(f: impl FnOnce() -> R) -> Result<R, String> {
    let prev = CAPTURE_PANICS.with(|c| c.replace(true));
    let r = catch_unwind(AssertUnwindSafe(f));
    CAPTURE_PANICS.with(|c| c.set(prev));
    match r {
        Ok(v) => Ok(v),
        Err(_) => Err(take_last_panic().unwrap_or_else(|| "panic".into())),
    }
}

/// Per-execution counter behind auto-assigned identities (reset with the world).
pub fn next_auto_id() -> u64 {
    AUTO_ID.with(|a| {
        let v = a.get();
        a.set(v + 1);
        v
    })
}

pub fn reset(cfg: WorldCfg) {
    teardown();
    AUTO_ID.with(|a| a.set(0));
    EPOCH.with(|e| e.set(e.get() + 1));
    WAKES.with(|w| w.borrow_mut().clear());
    W.with(|w| {
        *w.borrow_mut() = Some(World {
            cfg,
            tasks: Vec::new(),
            runq: VecDeque::new(),
            ducts: Vec::new(),
            step: 0,
            log: Vec::new(),
            conds: BTreeMap::new(),
            panics: Vec::new(),
            livelocks: Vec::new(),
            current: None,
            idle_waiters: Vec::new(),
            idle_fired: Default::default(),
            idle_next: 0,
            coop_exhausted: false,
            coop_yields_in_poll: 0,
            yield_points_in_poll: 0,
            yield_loop_seen: false,
            coop_budget_events: 0,
        })
    });
}

/// Drops everything the world owns. Library-spawned tasks go first (they may
/// hold table entries), application actors (which own the sockets) last.
pub fn teardown() {
    let old = W.with(|w| w.borrow_mut().take());
    let Some(mut world) = old else { return };
    explore::set_teardown(true);
    let prev = CAPTURE_PANICS.with(|c| c.replace(true));
    let mut futs: Vec<(bool, Pin<Box<dyn Future<Output = ()>>>)> = Vec::new();
    for t in world.tasks.iter_mut() {
        if let Some(f) = t.fut.take() {
            futs.push((t.app, f));
        }
    }
    // sinks may own captured state
    for d in world.ducts.iter_mut() {
        d.sink = None;
        d.rwaker = None;
        d.wwaker = None;
    }
    world.conds.clear();
    world.idle_waiters.clear();
    futs.sort_by_key(|(app, _)| *app);
    for (_, f) in futs {
        let _ = catch_unwind(AssertUnwindSafe(move || drop(f)));
    }
    drop(world);
    CAPTURE_PANICS.with(|c| c.set(prev));
    let _ = take_last_panic();
    WAKES.with(|w| w.borrow_mut().clear());
    explore::set_teardown(false);
}

// ---------------------------------------------------------------- ducts

pub fn new_duct(name: &str, forward: bool) -> DuctId {
    with(|w| {
        w.ducts.push(Duct {
            name: name.to_string(),
            tap: Vec::new(),
            tap_marks: Vec::new(),
            wmode: WMode::Open,
            wscript: VecDeque::new(),
            wwaker: None,
            writer_dropped: None,
            writer_closed: false,
            forward,
            sink: None,
            pending: VecDeque::new(),
            readable: VecDeque::new(),
            eof: false,
            rerr: None,
            rwaker: None,
            reader_dropped: None,
            read_calls: 0,
            write_errors: 0,
        });
        w.ducts.len() - 1
    })
}

pub fn push_chunk(d: DuctId, c: Chunk) {
    with(|w| w.ducts[d].pending.push_back(c));
}

pub fn push_data(d: DuctId, bytes: &[u8]) {
    if !bytes.is_empty() {
        push_chunk(d, Chunk::Data(bytes.to_vec()));
    }
}

/// Splits `bytes` at the given cut offsets (sorted, within range) into chunks.
pub fn push_cut(d: DuctId, bytes: &[u8], cuts: &[usize]) {
    let mut prev = 0;
    for &c in cuts {
        let c = c.min(bytes.len());
        if c > prev {
            push_data(d, &bytes[prev..c]);
            prev = c;
        }
    }
    if prev < bytes.len() {
        push_data(d, &bytes[prev..]);
    }
}

/// Delivers the next pending chunk of `d` right now (an actor acting as the
/// network). Returns false if nothing is pending.
/// A gate that no condition opens: what stands behind it is delivered by `force_deliver` only (or by the scheduler once
/// `release_manual_gates` has removed it).
pub const MANUAL_GATE: &str = "only-by-force_deliver";

/// How often a scenario's "deliver now" action delivered something / found nothing to deliver (reported in evidence so
/// that a vacuous action alphabet shows).
pub static FORCED_DELIVERIES: std::sync::atomic::AtomicU64 = std::sync::atomic::AtomicU64::new(0);
pub static FORCED_DELIVERIES_WITH_NOTHING_TO_DELIVER: std::sync::atomic::AtomicU64 = std::sync::atomic::AtomicU64::new(0);

pub fn release_manual_gates(d: DuctId) {
    with(|w| w.ducts[d].pending.retain(|c| !matches!(c, Chunk::Gate(g) if g == MANUAL_GATE)));
}

/// Delivers the next chunk of the duct now (an action of the scenario's actor, not a scheduler choice); a manual gate or
/// a gate whose condition holds in front of it is opened first. Returns whether something was delivered.
pub fn force_deliver(d: DuctId) -> bool {
    with(|w| loop {
        let open = match w.ducts[d].pending.front() {
            Some(Chunk::Gate(c)) => c == MANUAL_GATE || w.conds.get(c).map(|x| x.0).unwrap_or(false),
            _ => false,
        };
        if open {
            w.ducts[d].pending.pop_front();
        } else {
            break;
        }
    });
    let has = with(|w| matches!(w.ducts[d].pending.front(), Some(Chunk::Data(_)) | Some(Chunk::Eof) | Some(Chunk::Err(_))));
    (if has { &FORCED_DELIVERIES } else { &FORCED_DELIVERIES_WITH_NOTHING_TO_DELIVER }).fetch_add(1, std::sync::atomic::Ordering::Relaxed);
    if has {
        with(|w| {
            let s = w.step;
            w.log.push(format!("@{} forced Deliver({})", s, d));
        });
        apply_env(Ev::Deliver(d));
    }
    has
}

pub fn pending_chunks(d: DuctId) -> usize {
    with(|w| w.ducts[d].pending.len())
}

pub fn set_sink(d: DuctId, s: Sink) {
    with(|w| w.ducts[d].sink = Some(s));
}

pub fn script_wmodes(d: DuctId, modes: &[WMode]) {
    with(|w| w.ducts[d].wscript.extend(modes.iter().copied()));
}

pub fn set_wmode(d: DuctId, m: WMode) {
    let wk = with(|w| {
        w.ducts[d].wmode = m;
        match m {
            WMode::Stalled => None,
            _ => w.ducts[d].wwaker.take(),
        }
    });
    if let Some(wk) = wk {
        wk.wake();
    }
}

/// Pre-allocates the tap so that its growth does not show up in heap measurements.
pub fn reserve_tap(d: DuctId, n: usize) {
    with(|w| w.ducts[d].tap.reserve(n));
}

pub fn tap(d: DuctId) -> Vec<u8> {
    with(|w| w.ducts[d].tap.clone())
}

pub fn tap_len(d: DuctId) -> usize {
    with(|w| w.ducts[d].tap.len())
}

/// (tap length after the write, step of the write) for every library write
pub fn tap_marks(d: DuctId) -> Vec<(usize, u64)> {
    with(|w| w.ducts[d].tap_marks.clone())
}

pub fn reader_dropped(d: DuctId) -> Option<u64> {
    with(|w| w.ducts[d].reader_dropped)
}

pub fn writer_dropped(d: DuctId) -> Option<u64> {
    with(|w| w.ducts[d].writer_dropped)
}

pub fn writer_closed(d: DuctId) -> bool {
    with(|w| w.ducts[d].writer_closed)
}

pub fn unread(d: DuctId) -> usize {
    with(|w| {
        w.ducts[d].readable.len()
            + w.ducts[d]
                .pending
                .iter()
                .map(|c| match c {
                    Chunk::Data(v) => v.len(),
                    _ => 0,
                })
                .sum::<usize>()
    })
}

/// how many library writes on this duct were answered with an injected error
pub fn write_errors(d: DuctId) -> u64 {
    with(|w| w.ducts[d].write_errors)
}

pub fn read_calls(d: DuctId) -> u64 {
    with(|w| w.ducts[d].read_calls)
}

pub struct PipeReader {
    d: DuctId,
    epoch: u64,
}

pub struct PipeWriter {
    d: DuctId,
    epoch: u64,
}

pub fn lib_reader(d: DuctId) -> PipeReader {
    PipeReader { d, epoch: epoch() }
}

pub fn lib_writer(d: DuctId) -> PipeWriter {
    PipeWriter { d, epoch: epoch() }
}

impl AsyncRead for PipeReader {
    fn poll_read(self: Pin<&mut Self>, cx: &mut Context<'_>, buf: &mut [u8]) -> Poll<io::Result<usize>> {
        if self.epoch != epoch() {
            return Poll::Ready(Err(io::Error::new(io::ErrorKind::Other, "stale pipe")));
        }
        nested_env_point();
        let d = self.d;
        // Cooperative budget (tokio): once it runs out during a task poll, EVERY read of that poll wakes
        // the reader's waker and returns Pending, until the task has returned to the executor. The moment
        // it runs out is a choice point; code that keeps re-polling instead of returning is a livelock.
        let (coop_on, exhausted) = with(|w| (w.cfg.coop && w.current.is_some(), w.coop_exhausted));
        let now_exhausted = if coop_on && !exhausted && with(|w| w.coop_budget_events < 2) && explore::choose(kind::READ, 2) == 1 {
            with(|w| {
                w.coop_exhausted = true;
                w.coop_budget_events += 1;
                let s = w.step;
                w.log.push(format!("@{} cooperative budget exhausted (read of duct {})", s, d));
            });
            true
        } else {
            exhausted && coop_on
        };
        if now_exhausted {
            let spin = with(|w| {
                w.coop_yields_in_poll += 1;
                w.coop_yields_in_poll > 200
            });
            if spin {
                with(|w| {
                    w.coop_exhausted = false;
                    let name = w.current.map(|t| w.tasks[t].name.clone()).unwrap_or_default();
                    let s = w.step;
                    let m = format!("LIVELOCK in {}: within one poll a read yielded cooperatively (woke its waker, returned Pending) more than 200 times and the task still has not returned to the executor", name);
                    w.log.push(format!("@{} {}", s, m));
                    w.livelocks.push(m);
                });
            } else {
                cx.waker().wake_by_ref();
                return Poll::Pending;
            }
        }
        with(|w| {
            let duct = &mut w.ducts[d];
            duct.read_calls += 1;
            if !duct.readable.is_empty() {
                let n = buf.len().min(duct.readable.len());
                for (i, b) in duct.readable.drain(..n).enumerate() {
                    buf[i] = b;
                }
                return Poll::Ready(Ok(n));
            }
            if let Some(k) = duct.rerr.take() {
                duct.eof = true;
                return Poll::Ready(Err(io::Error::new(k, "injected read error")));
            }
            if duct.eof {
                return Poll::Ready(Ok(0));
            }
            duct.rwaker = Some(cx.waker().clone());
            Poll::Pending
        })
    }
}

impl Drop for PipeReader {
    fn drop(&mut self) {
        if EPOCH.try_with(|e| e.get()).ok() != Some(self.epoch) {
            return;
        }
        let d = self.d;
        try_with(|w| {
            let s = w.step;
            if let Some(duct) = w.ducts.get_mut(d) {
                duct.reader_dropped = Some(s);
            }
        });
    }
}

impl AsyncWrite for PipeWriter {
    fn poll_write(self: Pin<&mut Self>, cx: &mut Context<'_>, buf: &[u8]) -> Poll<io::Result<usize>> {
        if self.epoch != epoch() {
            return Poll::Ready(Err(io::Error::new(io::ErrorKind::Other, "stale pipe")));
        }
        if buf.is_empty() {
            return Poll::Ready(Ok(0));
        }
        let d = self.d;
        let r = with(|w| {
            let step = w.step;
            let duct = &mut w.ducts[d];
            let n = match duct.wmode {
                WMode::Open => buf.len(),
                WMode::Limit(k) => buf.len().min(k.max(1)),
                WMode::Budget(k) => {
                    if k == 0 {
                        duct.wmode = WMode::Stalled;
                        0
                    } else {
                        let n = buf.len().min(k);
                        duct.wmode = if k - n == 0 { WMode::Stalled } else { WMode::Budget(k - n) };
                        n
                    }
                }
                WMode::Stalled => 0,
                WMode::Fail(k) => {
                    duct.write_errors += 1;
                    return Poll::Ready(Err(io::Error::new(k, "injected write error")));
                }
            };
            if n == 0 {
                duct.wwaker = Some(cx.waker().clone());
                return Poll::Pending;
            }
            duct.tap.extend_from_slice(&buf[..n]);
            let l = duct.tap.len();
            duct.tap_marks.push((l, step));
            if duct.forward {
                duct.pending.push_back(Chunk::Data(buf[..n].to_vec()));
            }
            Poll::Ready(Ok(n))
        });
        if let Poll::Ready(Ok(_)) = r {
            // reactive raw peer on the far end
            let sink = with(|w| w.ducts[d].sink.take());
            if let Some(mut s) = sink {
                let t = with(|w| std::mem::take(&mut w.ducts[d].tap));
                let out = s(&t);
                with(|w| {
                    w.ducts[d].tap = t;
                    if w.ducts[d].sink.is_none() {
                        w.ducts[d].sink = Some(s);
                    }
                    for (dd, c) in out {
                        w.ducts[dd].pending.push_back(c);
                    }
                });
            }
        }
        r
    }

    fn poll_flush(self: Pin<&mut Self>, _cx: &mut Context<'_>) -> Poll<io::Result<()>> {
        Poll::Ready(Ok(()))
    }

    fn poll_close(self: Pin<&mut Self>, _cx: &mut Context<'_>) -> Poll<io::Result<()>> {
        let d = self.d;
        if self.epoch == epoch() {
            try_with(|w| w.ducts[d].writer_closed = true);
        }
        Poll::Ready(Ok(()))
    }
}

impl Drop for PipeWriter {
    fn drop(&mut self) {
        if EPOCH.try_with(|e| e.get()).ok() != Some(self.epoch) {
            return;
        }
        let d = self.d;
        let wk = try_with(|w| {
            let s = w.step;
            if let Some(duct) = w.ducts.get_mut(d) {
                duct.writer_dropped = Some(s);
                if duct.forward {
                    // the far end of a library-to-library connection sees end-of-stream
                    duct.pending.push_back(Chunk::Eof);
                }
            }
        });
        let _ = wk;
    }
}

// ---------------------------------------------------------------- events

#[derive(Clone, Copy, Debug)]
enum Ev {
    Run(TaskId, usize),
    Deliver(DuctId),
    Mode(DuctId),
}

fn env_menu(w: &mut World) -> Vec<Ev> {
    let mut m = Vec::new();
    for i in 0..w.ducts.len() {
        // open satisfied gates
        loop {
            let open = match w.ducts[i].pending.front() {
                Some(Chunk::Gate(c)) => w.conds.get(c).map(|x| x.0).unwrap_or(false),
                _ => false,
            };
            if open {
                w.ducts[i].pending.pop_front();
            } else {
                break;
            }
        }
        match w.ducts[i].pending.front() {
            Some(Chunk::Gate(_)) | None => {}
            Some(_) => {
                // nobody will ever read: do not keep the world alive for it
                if w.ducts[i].reader_dropped.is_none() || !w.ducts[i].forward {
                    m.push(Ev::Deliver(i));
                }
            }
        }
        if !w.ducts[i].wscript.is_empty() {
            m.push(Ev::Mode(i));
        }
    }
    m
}

fn apply_env(e: Ev) {
    let wk = with(|w| match e {
        Ev::Deliver(d) => {
            let duct = &mut w.ducts[d];
            match duct.pending.pop_front() {
                Some(Chunk::Data(v)) => duct.readable.extend(v),
                Some(Chunk::Eof) => duct.eof = true,
                Some(Chunk::Err(k)) => duct.rerr = Some(k),
                Some(Chunk::Gate(g)) => duct.pending.push_front(Chunk::Gate(g)),
                None => {}
            }
            duct.rwaker.take()
        }
        Ev::Mode(d) => {
            let duct = &mut w.ducts[d];
            if let Some(m) = duct.wscript.pop_front() {
                duct.wmode = m;
                if m != WMode::Stalled {
                    return duct.wwaker.take();
                }
            }
            None
        }
        Ev::Run(..) => None,
    });
    if let Some(wk) = wk {
        wk.wake();
    }
}

fn nested_env_point() {
    let menu = with(|w| {
        if !w.cfg.nested_env || w.current.is_none() {
            return Vec::new();
        }
        env_menu(w)
    });
    if menu.is_empty() {
        return;
    }
    let c = explore::choose(kind::NESTED, 1 + menu.len());
    if c > 0 {
        with(|w| {
            let s = w.step;
            w.log.push(format!("@{} nested {:?}", s, menu[c - 1]));
        });
        apply_env(menu[c - 1]);
    }
}

/// Hook body for library yield points: returns true if the task is preempted here.
pub fn yield_hook(name: &'static str) -> bool {
    // library code that passes a yield point over and over within ONE poll of its task loops without ever handing
    // control back (every pass would also add a choice point: the execution would eat memory until it is killed).
    // Once that is seen, every further yield point suspends the task (without being recorded as a choice), so that
    // the world runs into its step horizon quickly. (The hook must not panic: the library takes it out of its slot
    // while it runs.)
    let looping = try_with(|w| {
        if w.current.is_none() {
            return false;
        }
        if w.yield_loop_seen {
            return true;
        }
        w.yield_points_in_poll += 1;
        if w.yield_points_in_poll >= 100_000 {
            w.yield_loop_seen = true;
            w.livelocks.push(format!("yield-loop: within ONE poll of a task, library code passed its yield points 100000 times (last: {}): it loops without ever returning or suspending, blocking its executor thread", name));
            true
        } else {
            false
        }
    })
    .unwrap_or(false);
    if looping {
        return true;
    }
    let on = try_with(|w| w.cfg.yields && w.current.is_some()).unwrap_or(false);
    if !on {
        return false;
    }
    explore::choose(kind::YIELD, 2) == 1
}

/// Hook body for the select! shuffle seam: `n` → value in 0..n; choice 0 keeps
/// the written branch order.
pub fn select_hook(n: usize) -> usize {
    let on = try_with(|w| w.cfg.select && w.current.is_some()).unwrap_or(false);
    if !on {
        return n - 1;
    }
    let c = explore::choose(kind::SELECT, n);
    n - 1 - c
}

// ---------------------------------------------------------------- tasks

struct TaskWaker {
    id: TaskId,
    epoch: u64,
}

impl Wake for TaskWaker {
    fn wake(self: Arc<Self>) {
        self.wake_by_ref();
    }
    fn wake_by_ref(self: &Arc<Self>) {
        let _ = WAKES.try_with(|w| {
            if let Ok(mut w) = w.try_borrow_mut() {
                w.push((self.epoch, self.id));
            }
        });
    }
}

fn add_task(name: String, app: bool, fut: Pin<Box<dyn Future<Output = ()>>>) -> TaskId {
    with(|w| {
        let id = w.tasks.len();
        w.tasks.push(Task {
            name,
            app,
            fut: Some(fut),
            done: false,
            queued: true,
            polls: 0,
        });
        w.runq.push_back(id);
        id
    })
}

pub fn spawn_app(name: &str, fut: impl Future<Output = ()> + 'static) -> TaskId {
    add_task(name.to_string(), true, Box::pin(fut))
}

/// Sink for tasks the library spawns (installed through the repo's `wrap_spawned` hook).
pub fn spawn_lib(fut: Pin<Box<dyn Future<Output = ()> + Send + 'static>>) {
    let present = W.with(|w| w.try_borrow().map(|b| b.is_some()).unwrap_or(false));
    if !present {
        return;
    }
    let n = with(|w| w.tasks.iter().filter(|t| !t.app).count());
    add_task(format!("lib{}", n), false, fut);
}

pub fn task_done(id: TaskId) -> bool {
    with(|w| w.tasks[id].done)
}

pub fn lib_tasks_alive() -> usize {
    with(|w| w.tasks.iter().filter(|t| !t.app && !t.done).count())
}

pub fn tasks_alive(app: bool) -> Vec<String> {
    with(|w| {
        w.tasks
            .iter()
            .filter(|t| t.app == app && !t.done)
            .map(|t| t.name.clone())
            .collect()
    })
}

fn drain_wakes() {
    let wakes: Vec<(u64, TaskId)> = WAKES.with(|w| std::mem::take(&mut *w.borrow_mut()));
    let ep = epoch();
    with(|w| {
        for (e, id) in wakes {
            if e != ep || id >= w.tasks.len() {
                continue;
            }
            let t = &mut w.tasks[id];
            if !t.done && !t.queued {
                t.queued = true;
                w.runq.push_back(id);
            }
        }
    });
}

#[derive(Debug, Clone, Copy, PartialEq, Eq)]
pub enum RunEnd {
    Quiescent,
    Horizon,
}

pub fn step() -> u64 {
    with(|w| w.step)
}

/// Runs until no event is enabled (quiescence) or `horizon` steps were taken.
pub fn run(horizon: u64) -> RunEnd {
    loop {
        drain_wakes();
        let menu: Vec<Ev> = with(|w| {
            let mut tasks: Vec<Ev> = w.runq.iter().enumerate().map(|(pos, id)| Ev::Run(*id, pos)).collect();
            let env = env_menu(w);
            match w.cfg.policy {
                1 => {
                    let mut m = env;
                    m.extend(tasks);
                    m
                }
                2 => {
                    tasks.reverse();
                    tasks.extend(env);
                    tasks
                }
                _ => {
                    tasks.extend(env);
                    tasks
                }
            }
        });
        if menu.is_empty() {
            // actors waiting for "nothing else can happen" go next; if there are none the world is quiescent
            let ws = with(|w| {
                let ws = std::mem::take(&mut w.idle_waiters);
                for (t, _) in &ws {
                    w.idle_fired.insert(*t);
                }
                ws
            });
            if ws.is_empty() {
                return RunEnd::Quiescent;
            }
            if with(|w| w.step) >= horizon {
                return RunEnd::Horizon;
            }
            with(|w| w.step += 1);
            for (_, wk) in ws {
                wk.wake();
            }
            continue;
        }
        if with(|w| w.step) >= horizon {
            return RunEnd::Horizon;
        }
        let c = explore::choose(kind::SCHED, menu.len());
        with(|w| w.step += 1);
        match menu[c] {
            Ev::Run(id, pos) => poll_task(id, pos),
            e => {
                with(|w| {
                    let s = w.step;
                    if c != 0 || true {
                        w.log.push(format!("@{} env {:?}", s, e));
                    }
                });
                apply_env(e)
            }
        }
    }
}

fn poll_task(id: TaskId, pos: usize) {
    let fut = with(|w| {
        w.runq.remove(pos);
        let t = &mut w.tasks[id];
        t.queued = false;
        t.polls += 1;
        w.current = Some(id);
        // a fresh cooperative budget for every task poll
        w.coop_exhausted = false;
        w.coop_yields_in_poll = 0;
        w.yield_points_in_poll = 0;
        t.fut.take()
    });
    let Some(mut fut) = fut else {
        with(|w| w.current = None);
        return;
    };
    let waker = Waker::from(Arc::new(TaskWaker { id, epoch: epoch() }));
    let mut cx = Context::from_waker(&waker);
    let prev = CAPTURE_PANICS.with(|c| c.replace(true));
    let r = catch_unwind(AssertUnwindSafe(|| fut.as_mut().poll(&mut cx)));
    match r {
        Ok(Poll::Pending) => {
            with(|w| {
                w.tasks[id].fut = Some(fut);
                w.current = None;
            });
        }
        Ok(Poll::Ready(())) => {
            with(|w| {
                w.tasks[id].done = true;
            });
            // dropping the finished future is part of the execution (it may drop sockets)
            let r2 = catch_unwind(AssertUnwindSafe(move || drop(fut)));
            if r2.is_err() {
                let p = take_last_panic().unwrap_or_else(|| "panic".into());
                with(|w| {
                    let n = w.tasks[id].name.clone();
                    w.panics.push(format!("{}: (drop) {}", n, p));
                });
            }
            with(|w| w.current = None);
        }
        Err(_) => {
            let p = take_last_panic().unwrap_or_else(|| "panic".into());
            with(|w| {
                w.tasks[id].done = true;
                let n = w.tasks[id].name.clone();
                let s = w.step;
                w.log.push(format!("@{} PANIC in {}: {}", s, n, p));
                w.panics.push(format!("{}: {}", n, p));
            });
            let _ = catch_unwind(AssertUnwindSafe(move || drop(fut)));
            let _ = take_last_panic();
            with(|w| w.current = None);
        }
    }
    CAPTURE_PANICS.with(|c| c.set(prev));
}

pub fn panics() -> Vec<String> {
    with(|w| w.panics.clone())
}

/// tasks that kept re-polling a cooperatively yielding read instead of returning to the executor
pub fn livelocks() -> Vec<String> {
    with(|w| w.livelocks.clone())
}

// ---------------------------------------------------------------- actor helpers

pub fn log(s: impl Into<String>) {
    let s = s.into();
    try_with(|w| {
        let st = w.step;
        w.log.push(format!("@{} {}", st, s));
    });
}

pub fn log_snapshot() -> Vec<String> {
    try_with(|w| w.log.clone()).unwrap_or_default()
}

pub fn set_cond(name: &str) {
    let wakers = with(|w| {
        let e = w.conds.entry(name.to_string()).or_insert((false, Vec::new()));
        e.0 = true;
        std::mem::take(&mut e.1)
    });
    for wk in wakers {
        wk.wake();
    }
}

pub fn cond(name: &str) -> bool {
    with(|w| w.conds.get(name).map(|c| c.0).unwrap_or(false))
}

pub struct WaitCond(String);

impl Future for WaitCond {
    type Output = ();
    fn poll(self: Pin<&mut Self>, cx: &mut Context<'_>) -> Poll<()> {
        let name = self.0.clone();
        let ready = with(|w| {
            let e = w.conds.entry(name).or_insert((false, Vec::new()));
            if e.0 {
                true
            } else {
                e.1.push(cx.waker().clone());
                false
            }
        });
        if ready {
            Poll::Ready(())
        } else {
            Poll::Pending
        }
    }
}

pub fn wait_cond(name: &str) -> WaitCond {
    WaitCond(name.to_string())
}

/// Completes when nothing else in the world can make progress (no runnable task,
/// no deliverable environment event). Actors use it instead of polling.
pub struct Idle(Option<u64>);

impl Future for Idle {
    type Output = ();
    fn poll(mut self: Pin<&mut Self>, cx: &mut Context<'_>) -> Poll<()> {
        let tok = self.0;
        let r = with(|w| match tok {
            Some(t) => {
                if w.idle_fired.remove(&t) {
                    Ok(())
                } else {
                    // refresh the waker
                    for e in w.idle_waiters.iter_mut() {
                        if e.0 == t {
                            e.1 = cx.waker().clone();
                        }
                    }
                    Err(t)
                }
            }
            None => {
                let t = w.idle_next;
                w.idle_next += 1;
                w.idle_waiters.push((t, cx.waker().clone()));
                Err(t)
            }
        });
        match r {
            Ok(()) => Poll::Ready(()),
            Err(t) => {
                self.0 = Some(t);
                Poll::Pending
            }
        }
    }
}

impl Drop for Idle {
    fn drop(&mut self) {
        if let Some(t) = self.0 {
            try_with(|w| {
                w.idle_waiters.retain(|e| e.0 != t);
                w.idle_fired.remove(&t);
            });
        }
    }
}

pub fn idle() -> Idle {
    Idle(None)
}

/// A waker of its own for one future: wakes are forwarded to the waker of the task that polled it
/// last, but only while the future is alive. Once it has been dropped (abandoned or completed) a wake
/// through a clone that the library kept goes nowhere — exactly what happens when the next call on the
/// socket is made from another task. By the `Future` contract a library must wake the waker of the most
/// recent poll of the *current* call; relying on a waker left behind by an earlier call is a lost wake-up.
struct Gate {
    alive: std::sync::atomic::AtomicBool,
    woken: std::sync::atomic::AtomicBool,
    task: std::sync::Mutex<Option<Waker>>,
}

impl std::task::Wake for Gate {
    fn wake(self: Arc<Self>) {
        self.wake_by_ref();
    }
    fn wake_by_ref(self: &Arc<Self>) {
        if self.alive.load(std::sync::atomic::Ordering::SeqCst) {
            self.woken.store(true, std::sync::atomic::Ordering::SeqCst);
            let w = self.task.lock().unwrap().clone();
            if let Some(w) = w {
                w.wake();
            }
        }
    }
}

pub struct OwnWaker<F: Future> {
    fut: Pin<Box<F>>,
    gate: Arc<Gate>,
    /// poll the inner future only when it has not been polled yet or its own waker has fired since
    /// (what `FuturesUnordered`, `select_all` and similar combinators do): a future that only makes
    /// progress because its task happens to be polled for another reason has lost its wake-up
    strict: bool,
    polled: bool,
}

impl<F: Future> Future for OwnWaker<F> {
    type Output = F::Output;
    fn poll(mut self: Pin<&mut Self>, cx: &mut Context<'_>) -> Poll<F::Output> {
        *self.gate.task.lock().unwrap() = Some(cx.waker().clone());
        let fired = self.gate.woken.swap(false, std::sync::atomic::Ordering::SeqCst);
        if self.strict && self.polled && !fired {
            return Poll::Pending;
        }
        self.polled = true;
        let w = Waker::from(self.gate.clone());
        let mut cx2 = Context::from_waker(&w);
        self.fut.as_mut().poll(&mut cx2)
    }
}

impl<F: Future> Drop for OwnWaker<F> {
    fn drop(&mut self) {
        self.gate.alive.store(false, std::sync::atomic::Ordering::SeqCst);
        *self.gate.task.lock().unwrap() = None;
    }
}

fn new_gate() -> Arc<Gate> {
    Arc::new(Gate { alive: std::sync::atomic::AtomicBool::new(true), woken: std::sync::atomic::AtomicBool::new(false), task: std::sync::Mutex::new(None) })
}

/// Runs `fut` under a waker of its own (see [`Gate`]); every poll of the wrapper polls `fut`.
pub fn own_waker<F: Future>(fut: F) -> OwnWaker<F> {
    OwnWaker { fut: Box::pin(fut), gate: new_gate(), strict: false, polled: false }
}

/// Like [`own_waker`], but `fut` is polled only the first time and after its own waker has fired.
pub fn own_waker_strict<F: Future>(fut: F) -> OwnWaker<F> {
    OwnWaker { fut: Box::pin(fut), gate: new_gate(), strict: true, polled: false }
}

/// Drives `fut` until it completes or the world goes idle with it still pending
/// (then it is dropped and `None` returned). The future runs under a waker of its own.
pub async fn until_idle<F: Future>(fut: F) -> Option<F::Output> {
    let mut fut = Box::pin(own_waker_strict(fut));
    let mut idle = Box::pin(idle());
    // The idle signal is checked first and the future is NOT polled once more when
    // it fires: a spurious extra poll would paper over a lost wake-up.
    std::future::poll_fn(move |cx| {
        if idle.as_mut().poll(cx).is_ready() {
            return Poll::Ready(None);
        }
        if let Poll::Ready(v) = fut.as_mut().poll(cx) {
            return Poll::Ready(Some(v));
        }
        Poll::Pending
    })
    .await
}

pub struct YieldNow(bool);

impl Future for YieldNow {
    type Output = ();
    fn poll(mut self: Pin<&mut Self>, cx: &mut Context<'_>) -> Poll<()> {
        if self.0 {
            Poll::Ready(())
        } else {
            self.0 = true;
            cx.waker().wake_by_ref();
            Poll::Pending
        }
    }
}

pub fn yield_now() -> YieldNow {
    YieldNow(false)
}

/// Polls `fut` up to `k` times (yielding to the scheduler between polls); returns
/// `Some(output)` if it completed, else drops it and returns `None`. `k == 0`
/// drops the future without polling it.
pub async fn poll_k_then_drop<F: Future>(fut: F, k: usize) -> Option<F::Output> {
    let mut fut = Box::pin(own_waker(fut));
    for i in 0..k {
        let r = PollOnce(fut.as_mut()).await;
        if let Some(v) = r {
            return Some(v);
        }
        if i + 1 < k {
            yield_now().await;
        }
    }
    drop(fut);
    None
}

struct PollOnce<'a, F: Future>(Pin<&'a mut F>);

impl<'a, F: Future> Future for PollOnce<'a, F> {
    type Output = Option<F::Output>;
    fn poll(mut self: Pin<&mut Self>, cx: &mut Context<'_>) -> Poll<Self::Output> {
        match self.0.as_mut().poll(cx) {
            Poll::Ready(v) => Poll::Ready(Some(v)),
            Poll::Pending => Poll::Ready(None),
        }
    }
}

pub fn duct_name(d: DuctId) -> String {
    with(|w| w.ducts[d].name.clone())
}

pub fn hash_log(lines: &[String]) -> u64 {
    let mut h: u64 = 0xcbf29ce484222325;
    for l in lines {
        for b in l.as_bytes() {
            h ^= *b as u64;
            h = h.wrapping_mul(0x100000001b3);
        }
        h ^= 0xff;
        h = h.wrapping_mul(0x100000001b3);
    }
    h
}
