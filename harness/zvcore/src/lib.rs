pub mod evidence;
pub mod explore;
pub mod refcodec;
pub mod world;
