//! Independent reference implementation of ZMTP 3.0 framing (RFC 23), written
//! from the RFC text. Shares no code with the library under test.
//!
//! greeting   = signature version mechanism as-server filler            (64 octets)
//! signature  = %xFF 8OCTET %x7F
//! version    = major minor
//! mechanism  = 20 octets, NUL padded
//! as-server  = %x00 | %x01
//! filler     = 31 %x00
//! frame      = flags size body
//! flags      = bit0 MORE, bit1 LONG, bit2 COMMAND, bits 3-7 reserved (zero)
//! size       = 1 octet (short) | 8 octets network order (long)
//! command body = name-len(1) name  *( prop-name-len(1) prop-name value-len(4) value )

#[derive(Debug, Clone, PartialEq, Eq, Hash)]
pub enum RItem {
    Greeting {
        version: (u8, u8),
        mechanism: Vec<u8>,
        as_server: u8,
    },
    Command {
        name: Vec<u8>,
        props: Vec<(Vec<u8>, Vec<u8>)>,
        long: bool,
    },
    Message(Vec<Vec<u8>>),
}

pub fn encode_frame(out: &mut Vec<u8>, body: &[u8], more: bool, command: bool) {
    let mut flags = 0u8;
    if more {
        flags |= 1;
    }
    if command {
        flags |= 4;
    }
    if body.len() > 255 {
        flags |= 2;
        out.push(flags);
        out.extend_from_slice(&(body.len() as u64).to_be_bytes());
    } else {
        out.push(flags);
        out.push(body.len() as u8);
    }
    out.extend_from_slice(body);
}

pub fn encode_message(frames: &[Vec<u8>]) -> Vec<u8> {
    let mut out = Vec::new();
    for (i, f) in frames.iter().enumerate() {
        encode_frame(&mut out, f, i + 1 != frames.len(), false);
    }
    out
}

pub fn encode_greeting(version: (u8, u8), mechanism: &[u8], as_server: bool) -> Vec<u8> {
    let mut g = vec![0u8; 64];
    g[0] = 0xff;
    g[9] = 0x7f;
    g[10] = version.0;
    g[11] = version.1;
    let n = mechanism.len().min(20);
    g[12..12 + n].copy_from_slice(&mechanism[..n]);
    g[32] = as_server as u8;
    g
}

pub fn default_greeting() -> Vec<u8> {
    encode_greeting((3, 0), b"NULL", false)
}

pub fn command_body(name: &[u8], props: &[(Vec<u8>, Vec<u8>)]) -> Vec<u8> {
    let mut body = Vec::new();
    body.push(name.len() as u8);
    body.extend_from_slice(name);
    for (k, v) in props {
        body.push(k.len() as u8);
        body.extend_from_slice(k);
        body.extend_from_slice(&(v.len() as u32).to_be_bytes());
        body.extend_from_slice(v);
    }
    body
}

pub fn encode_command(name: &[u8], props: &[(Vec<u8>, Vec<u8>)]) -> Vec<u8> {
    let body = command_body(name, props);
    let mut out = Vec::new();
    encode_frame(&mut out, &body, false, true);
    out
}

pub fn encode_ready(socket_type: &str, identity: Option<&[u8]>) -> Vec<u8> {
    let mut props = vec![(b"Socket-Type".to_vec(), socket_type.as_bytes().to_vec())];
    if let Some(id) = identity {
        props.push((b"Identity".to_vec(), id.to_vec()));
    }
    encode_command(b"READY", &props)
}

thread_local! {
    static IDENTITY_MODE: std::cell::Cell<u8> = const { std::cell::Cell::new(0) };
}

/// 0 = peers announce the identity the scenario gives them; 1 = every peer that would announce one announces an
/// Identity property of length 0 instead (what libzmq peers without a routing id send); 2 = no Identity property.
/// For scenarios whose oracle does not depend on the peers' identities: every connection must still be kept apart.
pub fn set_identity_mode(m: u8) {
    IDENTITY_MODE.with(|c| c.set(m));
}

/// greeting + READY of a well-behaved peer
pub fn handshake(socket_type: &str, identity: Option<&[u8]>) -> Vec<u8> {
    let identity = match IDENTITY_MODE.with(|c| c.get()) {
        1 => identity.map(|_| &b""[..]),
        2 => None,
        _ => identity,
    };
    let mut v = default_greeting();
    v.extend(encode_ready(socket_type, identity));
    v
}

#[derive(Debug, Clone, Default)]
pub struct Decoded {
    /// complete items together with the stream offset just past each of them
    pub items: Vec<(RItem, usize)>,
    /// offset of the first byte that does not belong to a complete item
    pub consumed: usize,
    /// set when the stream is malformed at `consumed`
    pub error: Option<String>,
}

impl Decoded {
    pub fn messages(&self) -> Vec<Vec<Vec<u8>>> {
        self.items
            .iter()
            .filter_map(|(i, _)| match i {
                RItem::Message(m) => Some(m.clone()),
                _ => None,
            })
            .collect()
    }
    pub fn only_items(&self) -> Vec<RItem> {
        self.items.iter().map(|(i, _)| i.clone()).collect()
    }
    pub fn clean(&self, total: usize) -> bool {
        self.error.is_none() && self.consumed == total
    }
}

pub fn parse_command_body(body: &[u8]) -> Result<(Vec<u8>, Vec<(Vec<u8>, Vec<u8>)>), String> {
    if body.is_empty() {
        return Err("empty command body".into());
    }
    let nl = body[0] as usize;
    if 1 + nl > body.len() {
        return Err("command name beyond frame".into());
    }
    let name = body[1..1 + nl].to_vec();
    let mut p = 1 + nl;
    let mut props = Vec::new();
    while p < body.len() {
        let kl = body[p] as usize;
        p += 1;
        if p + kl > body.len() {
            return Err("property name beyond frame".into());
        }
        let k = body[p..p + kl].to_vec();
        p += kl;
        if p + 4 > body.len() {
            return Err("property value length beyond frame".into());
        }
        let vl = u32::from_be_bytes([body[p], body[p + 1], body[p + 2], body[p + 3]]) as usize;
        p += 4;
        if p + vl > body.len() {
            return Err("property value beyond frame".into());
        }
        props.push((k, body[p..p + vl].to_vec()));
        p += vl;
    }
    Ok((name, props))
}

/// Strict RFC-23 decode of a byte stream. `expect_greeting`: the stream starts
/// with a 64-octet greeting.
pub fn decode_stream(bytes: &[u8], expect_greeting: bool) -> Decoded {
    let mut d = Decoded::default();
    let mut p = 0usize;
    if expect_greeting {
        if bytes.len() < 64 {
            return d;
        }
        let g = &bytes[..64];
        if g[0] != 0xff || g[9] != 0x7f {
            d.error = Some("bad greeting signature".into());
            return d;
        }
        let mech_end = g[12..32].iter().position(|b| *b == 0).unwrap_or(20);
        if g[12 + mech_end..32].iter().any(|b| *b != 0) {
            d.error = Some("mechanism not NUL padded".into());
            return d;
        }
        if g[32] > 1 {
            d.error = Some("as-server not 0/1".into());
            return d;
        }
        if g[33..64].iter().any(|b| *b != 0) {
            d.error = Some("filler not zero".into());
            return d;
        }
        d.items.push((
            RItem::Greeting {
                version: (g[10], g[11]),
                mechanism: g[12..12 + mech_end].to_vec(),
                as_server: g[32],
            },
            64,
        ));
        p = 64;
        d.consumed = 64;
    }
    let mut cur: Vec<Vec<u8>> = Vec::new();
    loop {
        if p >= bytes.len() {
            break;
        }
        let flags = bytes[p];
        if flags & 0xf8 != 0 {
            d.error = Some(format!("reserved flag bits set: {:#04x}", flags));
            break;
        }
        let more = flags & 1 != 0;
        let long = flags & 2 != 0;
        let command = flags & 4 != 0;
        let (len, hdr) = if long {
            if p + 9 > bytes.len() {
                break;
            }
            let mut b = [0u8; 8];
            b.copy_from_slice(&bytes[p + 1..p + 9]);
            let l = u64::from_be_bytes(b);
            if l > (usize::MAX / 2) as u64 {
                d.error = Some("frame length with sign bit".into());
                break;
            }
            (l as usize, 9)
        } else {
            if p + 2 > bytes.len() {
                break;
            }
            (bytes[p + 1] as usize, 2)
        };
        if bytes.len() - p - hdr < len {
            break;
        }
        let body = &bytes[p + hdr..p + hdr + len];
        p += hdr + len;
        if command {
            if more {
                d.error = Some("command frame with MORE".into());
                break;
            }
            if !cur.is_empty() {
                d.error = Some("command inside multipart message".into());
                break;
            }
            match parse_command_body(body) {
                Ok((name, props)) => d.items.push((RItem::Command { name, props, long }, p)),
                Err(e) => {
                    d.error = Some(e);
                    break;
                }
            }
            d.consumed = p;
        } else {
            cur.push(body.to_vec());
            if !more {
                d.items.push((RItem::Message(std::mem::take(&mut cur)), p));
                d.consumed = p;
            }
        }
    }
    d
}

pub fn hex(b: &[u8]) -> String {
    let mut s = String::with_capacity(b.len() * 2);
    for x in b {
        s.push_str(&format!("{:02x}", x));
    }
    s
}

pub fn unhex(s: &str) -> Vec<u8> {
    let s = s.as_bytes();
    let mut out = Vec::with_capacity(s.len() / 2);
    let v = |c: u8| -> u8 {
        match c {
            b'0'..=b'9' => c - b'0',
            b'a'..=b'f' => c - b'a' + 10,
            b'A'..=b'F' => c - b'A' + 10,
            _ => 0,
        }
    };
    let mut i = 0;
    while i + 1 < s.len() {
        out.push(v(s[i]) << 4 | v(s[i + 1]));
        i += 2;
    }
    out
}

/// Short printable rendering of frames for logs: frames longer than 12 bytes are
/// abbreviated as `len:hash`.
pub fn show_frames(frames: &[Vec<u8>]) -> String {
    let mut s = String::from("[");
    for (i, f) in frames.iter().enumerate() {
        if i > 0 {
            s.push(',');
        }
        if f.len() <= 12 {
            s.push_str(&hex(f));
        } else {
            s.push_str(&format!("#{}:{:08x}", f.len(), fnv(f) as u32));
        }
    }
    s.push(']');
    s
}

pub fn fnv(b: &[u8]) -> u64 {
    let mut h: u64 = 0xcbf29ce484222325;
    for x in b {
        h ^= *x as u64;
        h = h.wrapping_mul(0x100000001b3);
    }
    h
}

/// Deterministic content pattern for a frame body (contents never influence
/// codec control flow; the seed permutes patterns, not coverage).
pub fn pattern(len: usize, tag: u64, seed: u64) -> Vec<u8> {
    let mut v = Vec::with_capacity(len);
    let mut x = tag
        .wrapping_mul(0x9E3779B97F4A7C15)
        .wrapping_add(seed.wrapping_mul(0xD1B54A32D192ED03))
        | 1;
    for _ in 0..len {
        x ^= x << 13;
        x ^= x >> 7;
        x ^= x << 17;
        v.push((x >> 24) as u8);
    }
    v
}
