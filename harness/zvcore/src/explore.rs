//! Stateless, deviation-bounded depth-first exploration of executions.
//!
//! An *execution* is one run of a scenario closure on the current thread. Every
//! source of nondeterminism inside it calls [`choose`]; choice 0 is the default
//! answer. The explorer first runs the all-defaults execution, then, for every
//! choice point met and every alternative, re-runs with that alternative,
//! charging one *deviation* per non-default choice, until every execution with
//! at most `bound` deviations has been run.
//!
//! Replaying a prefix that meets a different choice point than the one recorded
//! is a hard machinery error (captured nondeterminism), never a verdict.

use std::cell::RefCell;
use std::collections::{BTreeMap, HashSet, VecDeque};
use std::sync::atomic::{AtomicU64, AtomicUsize, Ordering};
use std::sync::{Arc, Condvar, Mutex};
use std::time::{Duration, Instant};

#[derive(Debug, Clone, Copy, PartialEq, Eq, Hash)]
pub struct ChoicePoint {
    pub kind: u8,
    pub n: u16,
    pub taken: u16,
}

pub mod kind {
    pub const SCHED: u8 = 1; // which enabled event runs next
    pub const YIELD: u8 = 2; // preempt at a library yield point?
    pub const SELECT: u8 = 3; // select! branch order
    pub const NESTED: u8 = 4; // environment event lands inside a pipe operation
    pub const READ: u8 = 5; // how much a read returns
    pub const OTHER: u8 = 9;
    pub fn name(k: u8) -> &'static str {
        match k {
            SCHED => "sched",
            YIELD => "yield",
            SELECT => "select",
            NESTED => "nested",
            READ => "read",
            _ => "other",
        }
    }
}

#[derive(Default)]
pub struct Chooser {
    prefix: Vec<ChoicePoint>,
    pub trace: Vec<ChoicePoint>,
    pub diverged: Option<String>,
}

thread_local! {
    static CHOOSER: RefCell<Chooser> = RefCell::new(Chooser::default());
}

pub fn begin(prefix: Vec<ChoicePoint>) {
    CHOOSER.with(|c| {
        let mut c = c.borrow_mut();
        c.prefix = prefix;
        c.trace.clear();
        c.diverged = None;
    });
}

pub fn end() -> (Vec<ChoicePoint>, Option<String>) {
    CHOOSER.with(|c| {
        let mut c = c.borrow_mut();
        (std::mem::take(&mut c.trace), c.diverged.take())
    })
}

pub fn trace_so_far() -> Vec<ChoicePoint> {
    CHOOSER.with(|c| c.borrow().trace.clone())
}

/// One choice point with `n` alternatives; returns the alternative taken.
pub fn choose(kind: u8, n: usize) -> usize {
    if n <= 1 {
        return 0;
    }
    CHOOSER.with(|c| {
        let mut c = c.borrow_mut();
        let idx = c.trace.len();
        if idx == 20_000_000 {
            // (memory guard: an execution of this engine has thousands of choice points, not tens of millions)
            drop(c);
            panic!("livelock: 20 million choice points in one execution");
        }
        let n16 = n.min(u16::MAX as usize) as u16;
        let taken = if idx < c.prefix.len() {
            let p = c.prefix[idx];
            if p.kind != kind || p.n != n16 {
                if c.diverged.is_none() {
                    c.diverged = Some(format!(
                        "choice point #{}: recorded ({},{}) but met ({},{})",
                        idx,
                        kind::name(p.kind),
                        p.n,
                        kind::name(kind),
                        n16
                    ));
                }
                0
            } else {
                p.taken
            }
        } else {
            0
        };
        c.trace.push(ChoicePoint {
            kind,
            n: n16,
            taken,
        });
        taken as usize
    })
}

// ---------------------------------------------------------------------------

#[derive(Debug, Clone, PartialEq, Eq)]
pub enum Outcome {
    /// scenario closure returned
    Done,
    /// the only thread was about to park on a synchronous lock held by a suspended task
    ThreadBlocked,
}

#[derive(Debug, Clone)]
pub struct Violation {
    /// narrow class used as known-finding signature (property-independent part)
    pub class: String,
    pub message: String,
}

#[derive(Debug, Clone, Default)]
pub struct Verdict {
    pub violations: Vec<Violation>,
    /// hash of the canonicalised observation log (distinct-outcome counting)
    pub outcome_hash: u64,
    /// the scenario hit its step horizon
    pub truncated: bool,
    /// human-readable observation log (kept only for samples / violations)
    pub log: Vec<String>,
    /// an outcome is "trivial" if nothing property-relevant happened in it
    pub trivial: bool,
}

impl Verdict {
    pub fn ok(outcome_hash: u64) -> Self {
        Verdict {
            outcome_hash,
            ..Default::default()
        }
    }
    pub fn violate(&mut self, class: impl Into<String>, message: impl Into<String>) {
        self.violations.push(Violation {
            class: class.into(),
            message: message.into(),
        });
    }
}

pub type Scenario = Arc<dyn Fn() -> Verdict + Send + Sync>;

#[derive(Clone)]
pub struct Job {
    pub name: String,
    /// JSON description of the scenario parameters (for replay files / samples)
    pub params: serde_json::Value,
    pub scenario: Scenario,
    pub bound: usize,
    pub max_execs: u64,
    /// choice list the first execution starts from (empty for exploration; the
    /// recorded choices when replaying a single execution)
    pub initial: Vec<ChoicePoint>,
    /// called when the execution ends thread-blocked (no verdict from the closure):
    /// gets the log-so-far and returns the verdict to record
    pub on_blocked: Arc<dyn Fn(Vec<String>) -> Verdict + Send + Sync>,
}

#[derive(Debug, Clone)]
pub struct ViolationRec {
    pub job: String,
    pub params: serde_json::Value,
    pub class: String,
    pub message: String,
    pub choices: Vec<ChoicePoint>,
    pub log: Vec<String>,
    pub deviations: usize,
}

#[derive(Default)]
pub struct JobResult {
    pub name: String,
    pub execs: u64,
    pub choice_points: u64,
    pub max_trace: usize,
    /// longest wall time of one execution (ms)
    pub max_exec_ms: u64,
    pub outcomes: HashSet<u64>,
    pub nontrivial_outcomes: HashSet<u64>,
    pub truncated: u64,
    pub blocked: u64,
    pub capped: bool,
    pub execs_by_devs: BTreeMap<usize, u64>,
    pub kinds: BTreeMap<u8, u64>,
    /// first violation of each class (fewest deviations first, since DFS by bound iteration)
    pub violations: BTreeMap<String, ViolationRec>,
    pub violation_count: u64,
    /// executions of this job that ended in a violation
    pub violating_execs: u64,
    /// the job was not explored any further after several violating executions (there is a verdict)
    pub stopped_after_violations: bool,
    /// the job was never started: enough other jobs had failed (there is a verdict)
    pub skipped: bool,
    pub machinery_errors: Vec<String>,
    pub sample: Option<(Vec<ChoicePoint>, Vec<String>)>,
    pub bound_completed: usize,
    pub memory_capped: bool,
}

struct Pending {
    parent: Arc<Vec<ChoicePoint>>,
    cut: usize,
    alt: u16,
    devs: usize,
}

impl Pending {
    fn prefix(&self) -> Vec<ChoicePoint> {
        let mut v: Vec<ChoicePoint> = self.parent[..self.cut.min(self.parent.len())].to_vec();
        if self.cut < self.parent.len() {
            let mut cp = self.parent[self.cut];
            cp.taken = self.alt;
            v.push(cp);
        }
        v
    }
}

struct JobState {
    counted_as_violating: bool,
    job: Job,
    /// one stack per deviation count: all executions with d deviations are run
    /// before any with d+1 (iterated bound), so the first violation found has
    /// the fewest deviations.
    stacks: Vec<Vec<Pending>>,
    res: JobResult,
    in_flight: usize,
    selfcheck_counter: u64,
    finalized: bool,
}

impl JobState {
    fn has_work(&self) -> bool {
        !self.res.capped && !self.res.stopped_after_violations && self.stacks.iter().any(|s| !s.is_empty())
    }

    fn new(job: Job) -> Self {
        let mut stacks: Vec<Vec<Pending>> = (0..=job.bound).map(|_| Vec::new()).collect();
        let init = Arc::new(job.initial.clone());
        stacks[0].push(Pending {
            cut: init.len(),
            parent: init,
            alt: 0,
            devs: 0,
        });
        let name = job.name.clone();
        JobState {
            counted_as_violating: false,
            job,
            stacks,
            res: JobResult {
                name,
                ..Default::default()
            },
            in_flight: 0,
            selfcheck_counter: 0,
            finalized: false,
        }
    }

    fn pop(&mut self) -> Option<Pending> {
        if self.res.capped || self.res.stopped_after_violations {
            return None;
        }
        for s in self.stacks.iter_mut() {
            if let Some(p) = s.pop() {
                return Some(p);
            }
        }
        None
    }

    fn absorb(
        &mut self,
        p: &Pending,
        trace: Vec<ChoicePoint>,
        diverged: Option<String>,
        verdict: Verdict,
        outcome: Outcome,
    ) {
        let r = &mut self.res;
        r.execs += 1;
        *r.execs_by_devs.entry(p.devs).or_insert(0) += 1;
        r.max_trace = r.max_trace.max(trace.len());
        if let Some(d) = diverged {
            if r.machinery_errors.len() < 5 {
                r.machinery_errors.push(format!(
                    "nondeterminism while replaying a prefix in job {}: {}",
                    self.job.name, d
                ));
            }
            return;
        }
        let plen = p.prefix().len();
        for cp in trace.iter().skip(plen) {
            r.choice_points += 1;
            *r.kinds.entry(cp.kind).or_insert(0) += 1;
        }
        r.outcomes.insert(verdict.outcome_hash);
        if !verdict.trivial {
            r.nontrivial_outcomes.insert(verdict.outcome_hash);
        }
        if verdict.truncated {
            r.truncated += 1;
        }
        if outcome == Outcome::ThreadBlocked {
            r.blocked += 1;
        }
        if r.sample.is_none() && !verdict.trivial {
            r.sample = Some((trace.clone(), verdict.log.clone()));
        }
        if verdict.violations.iter().any(|v| !is_known_class(&v.class)) {
            r.violating_execs += 1;
            // a failing execution may cost seconds (horizons, loop guards); a handful of them is a verdict
            if r.violating_execs >= 8 {
                r.stopped_after_violations = true;
            }
        }
        for v in &verdict.violations {
            r.violation_count += 1;
            if !r.violations.contains_key(&v.class) {
                r.violations.insert(
                    v.class.clone(),
                    ViolationRec {
                        job: self.job.name.clone(),
                        params: self.job.params.clone(),
                        class: v.class.clone(),
                        message: v.message.clone(),
                        choices: trace.clone(),
                        log: verdict.log.clone(),
                        deviations: p.devs,
                    },
                );
            }
        }
        // children
        if p.devs < self.job.bound {
            let parent = Arc::new(trace);
            for i in plen..parent.len() {
                let n = parent[i].n;
                for alt in 1..n {
                    self.stacks[p.devs + 1].push(Pending {
                        parent: parent.clone(),
                        cut: i,
                        alt,
                        devs: p.devs + 1,
                    });
                }
            }
        }
        if r.execs >= self.job.max_execs {
            r.capped = true;
        }
        if r.execs % 4096 == 0 && crate::evidence::rss_bytes() > crate::evidence::rss_cap_bytes() {
            // memory cap: stop this scenario, report it as capped (never silently)
            r.capped = true;
            r.memory_capped = true;
        }
    }
}

// ---------------------------------------------------------------------------
// Runner with disposable worker threads. Several workers may drive the same job.

struct Shared {
    queue: Mutex<VecDeque<Job>>,
    active_jobs: Mutex<Vec<Arc<Mutex<JobState>>>>,
    results: Mutex<Vec<JobResult>>,
    /// number of worker threads that got permanently blocked and must be replaced
    respawn: AtomicUsize,
    active: AtomicUsize,
    blocked_threads: AtomicUsize,
    cv: Condvar,
    cv_m: Mutex<()>,
    heartbeat: AtomicU64,
    thread_init: Arc<dyn Fn() + Send + Sync>,
    /// jobs that have recorded a violation; beyond a dozen, no new job is started
    violating_jobs: AtomicUsize,
    /// executions in progress, for the watchdog: (abandoned flag, job state, what is being run, since when)
    running: Mutex<Vec<Running>>,
}

struct Running {
    abandoned: Arc<std::sync::atomic::AtomicBool>,
    state: Arc<Mutex<JobState>>,
    pending: Pending,
    since: Instant,
}

/// An execution of the controlled executor takes milliseconds. One that has not returned after this
/// long is hung: library code blocks its thread (a lock outside the scc seam, e.g. a non-reentrant mutex
/// taken twice) or loops without ever reaching a choice point.
/// Once this many jobs have recorded a violation no further job is started (failing executions are slow: they wait
/// out horizons, loop guards and the watchdog; a dozen failing scenarios is a verdict).
const MAX_VIOLATING_JOBS: usize = 12;

/// Violation classes that are listed known findings of the check being run: they are reported as usual but do not
/// count towards the early stops (otherwise a known finding would silently shrink what is explored on the unchanged tree).
static KNOWN_CLASSES: Mutex<Vec<String>> = Mutex::new(Vec::new());

pub fn set_known_classes(v: Vec<String>) {
    *KNOWN_CLASSES.lock().unwrap() = v;
}

fn is_known_class(c: &str) -> bool {
    KNOWN_CLASSES.lock().unwrap().iter().any(|k| k == c)
}

const EXECUTION_DEADLINE: Duration = Duration::from_secs(90);

struct Current {
    shared: Arc<Shared>,
    state: Arc<Mutex<JobState>>,
    pending: Pending,
    log_fn: fn() -> Vec<String>,
    run_token: Arc<std::sync::atomic::AtomicBool>,
}

thread_local! {
    static CURRENT: RefCell<Option<Current>> = const { RefCell::new(None) };
    /// set while a scenario's teardown runs: a block there is not an observation
    static IN_TEARDOWN: std::cell::Cell<bool> = const { std::cell::Cell::new(false) };
    static STASH: RefCell<Option<Verdict>> = const { RefCell::new(None) };
}

pub fn set_teardown(v: bool) {
    IN_TEARDOWN.with(|t| t.set(v));
    if !v {
        STASH.with(|s| *s.borrow_mut() = None);
    }
}

/// Remembers the verdict of the execution in progress before the harness tears
/// its world down (see [`on_would_block`]).
pub fn stash_verdict(v: &Verdict) {
    STASH.with(|s| *s.borrow_mut() = Some(v.clone()));
}

fn maybe_finalize(shared: &Arc<Shared>, state: &Arc<Mutex<JobState>>) {
    let mut st = state.lock().unwrap();
    if st.finalized || st.in_flight > 0 || st.has_work() {
        return;
    }
    st.finalized = true;
    let mut res = std::mem::take(&mut st.res);
    res.bound_completed = st.job.bound;
    if res.capped {
        res.bound_completed = res.execs_by_devs.keys().max().copied().unwrap_or(0).saturating_sub(1);
    }
    shared.results.lock().unwrap().push(res);
}

/// Called (through the `saa` seam) right before the calling thread would park
/// on a synchronous lock. Under the single-threaded executor the owner of that
/// lock is a suspended task of the same thread, so the wait can never end.
/// Records the execution as thread-blocked, asks for a replacement worker and
/// parks this thread for good.
pub fn on_would_block() {
    let cur = CURRENT.with(|c| c.borrow_mut().take());
    let Some(cur) = cur else {
        // not inside an explorer-controlled execution (e.g. E4): let it park normally
        return;
    };
    {
        // this execution ends here: the watchdog must not account for it a second time
        let mut run = cur.shared.running.lock().unwrap();
        run.retain(|r| !Arc::ptr_eq(&r.abandoned, &cur.run_token));
        if cur.run_token.load(Ordering::SeqCst) {
            // the watchdog had already given it up
            drop(run);
            loop {
                std::thread::park();
            }
        }
    }
    let teardown = IN_TEARDOWN.with(|t| t.get());
    let (trace, diverged) = end();
    let stashed = STASH.with(|s| s.borrow_mut().take());
    let (verdict, outcome) = match (teardown, stashed) {
        // the scenario had already produced its verdict; the block happened while the
        // harness was dropping the world, which is not part of the observed execution
        (true, Some(v)) => (v, Outcome::Done),
        _ => {
            let log = (cur.log_fn)();
            let job_on_blocked = cur.state.lock().unwrap().job.on_blocked.clone();
            let mut verdict = job_on_blocked(log);
            verdict.outcome_hash ^= 0xB10C_B10C;
            (verdict, Outcome::ThreadBlocked)
        }
    };
    {
        let mut st = cur.state.lock().unwrap();
        st.in_flight -= 1;
        st.absorb(&cur.pending, trace, diverged, verdict, outcome);
        if !st.counted_as_violating && st.res.violations.keys().any(|c| !is_known_class(c)) {
            st.counted_as_violating = true;
            cur.shared.violating_jobs.fetch_add(1, Ordering::SeqCst);
        }
    }
    maybe_finalize(&cur.shared, &cur.state);
    cur.shared.heartbeat.fetch_add(1, Ordering::Relaxed);
    cur.shared.respawn.fetch_add(1, Ordering::SeqCst);
    cur.shared.blocked_threads.fetch_add(1, Ordering::SeqCst);
    cur.shared.active.fetch_sub(1, Ordering::SeqCst);
    {
        let _g = cur.shared.cv_m.lock().unwrap();
        cur.shared.cv.notify_all();
    }
    loop {
        std::thread::park();
    }
}

/// Runs up to `batch` executions of one job on the calling thread.
fn drive(shared: &Arc<Shared>, state: &Arc<Mutex<JobState>>, log_fn: fn() -> Vec<String>, batch: usize) {
    if std::env::var("VERIF_E3_LOG_STARTS").is_ok() {
        // (for runs in a child process that may die of an abort: lets the parent name the job that was running)
        eprintln!("START {} {}", std::thread::current().name().unwrap_or("?"), state.lock().unwrap().job.name);
    }
    for _ in 0..batch {
        let (p, scenario, selfcheck) = {
            let mut st = state.lock().unwrap();
            let Some(p) = st.pop() else { break };
            st.in_flight += 1;
            st.selfcheck_counter += 1;
            (p, st.job.scenario.clone(), st.selfcheck_counter % 256 == 1)
        };
        let prefix = p.prefix();
        let abandoned = Arc::new(std::sync::atomic::AtomicBool::new(false));
        CURRENT.with(|c| {
            *c.borrow_mut() = Some(Current {
                shared: shared.clone(),
                state: state.clone(),
                pending: Pending {
                    parent: p.parent.clone(),
                    cut: p.cut,
                    alt: p.alt,
                    devs: p.devs,
                },
                log_fn,
                run_token: abandoned.clone(),
            })
        });
        shared.running.lock().unwrap().push(Running {
            abandoned: abandoned.clone(),
            state: state.clone(),
            pending: Pending { parent: p.parent.clone(), cut: p.cut, alt: p.alt, devs: p.devs },
            since: Instant::now(),
        });
        begin(prefix.clone());
        let exec_t0 = Instant::now();
        let verdict = scenario();
        let (trace, diverged) = end();
        let exec_ms = exec_t0.elapsed().as_millis() as u64;
        {
            let mut run = shared.running.lock().unwrap();
            run.retain(|r| !Arc::ptr_eq(&r.abandoned, &abandoned));
        }
        if abandoned.load(Ordering::SeqCst) {
            // the watchdog gave this execution up (and has accounted for it and for this thread): it came back
            // after all, so it was slow, not hung - but its thread has been replaced; leave quietly
            CURRENT.with(|c| *c.borrow_mut() = None);
            loop {
                std::thread::park();
            }
        }
        shared.heartbeat.fetch_add(1, Ordering::Relaxed);
        // determinism self-check: 1 in 256 executions, and every violating one, is
        // re-run from its own choice list and must reproduce the same trace and outcome
        let mut extra_err = None;
        if diverged.is_none() && (selfcheck || !verdict.violations.is_empty()) {
            begin(trace.clone());
            let v2 = scenario();
            let (t2, d2) = end();
            if d2.is_some() || t2 != trace || v2.outcome_hash != verdict.outcome_hash {
                extra_err = Some(format!(
                    "replay of an execution did not reproduce it (diverged={:?}, trace equal={}, outcome equal={})",
                    d2,
                    t2 == trace,
                    v2.outcome_hash == verdict.outcome_hash
                ));
            }
        }
        CURRENT.with(|c| *c.borrow_mut() = None);
        let mut st = state.lock().unwrap();
        st.in_flight -= 1;
        st.res.max_exec_ms = st.res.max_exec_ms.max(exec_ms);
        if let Some(e) = extra_err {
            if st.res.machinery_errors.len() < 5 {
                let name = st.job.name.clone();
                st.res.machinery_errors.push(format!("job {}: {}", name, e));
            }
        }
        st.absorb(&p, trace, diverged, verdict, Outcome::Done);
        if !st.counted_as_violating && st.res.violations.keys().any(|c| !is_known_class(c)) {
            st.counted_as_violating = true;
            shared.violating_jobs.fetch_add(1, Ordering::SeqCst);
        }
    }
    maybe_finalize(shared, state);
}

fn worker(shared: Arc<Shared>, log_fn: fn() -> Vec<String>) {
    (shared.thread_init)();
    loop {
        // find a job with pending work, or start a new one
        let state = {
            let mut act = shared.active_jobs.lock().unwrap();
            act.retain(|s| !s.lock().unwrap().finalized);
            let mut found = None;
            for s in act.iter() {
                if s.lock().unwrap().has_work() {
                    found = Some(s.clone());
                    break;
                }
            }
            if found.is_none() {
                if shared.violating_jobs.load(Ordering::SeqCst) >= MAX_VIOLATING_JOBS {
                    // there is a verdict: the jobs not started yet are reported as skipped, not run
                    let mut q = shared.queue.lock().unwrap();
                    let mut res = shared.results.lock().unwrap();
                    while let Some(job) = q.pop_front() {
                        res.push(JobResult { name: job.name.clone(), skipped: true, ..Default::default() });
                    }
                } else if let Some(job) = shared.queue.lock().unwrap().pop_front() {
                    let s = Arc::new(Mutex::new(JobState::new(job)));
                    act.push(s.clone());
                    found = Some(s);
                }
            }
            match found {
                Some(s) => Ok(s),
                None => Err(act.is_empty()),
            }
        };
        match state {
            Ok(s) => drive(&shared, &s, log_fn, 16),
            Err(true) => break, // no active job, empty queue
            Err(false) => std::thread::sleep(Duration::from_micros(200)), // others still in flight
        }
    }
    shared.active.fetch_sub(1, Ordering::SeqCst);
    let _g = shared.cv_m.lock().unwrap();
    shared.cv.notify_all();
}

pub struct RunReport {
    pub results: Vec<JobResult>,
    pub blocked_threads: usize,
    pub hung: bool,
    pub wall: Duration,
}

/// Runs all jobs on `threads` worker threads. `thread_init` installs the
/// per-thread hooks; `log_fn` extracts the observation log of the execution in
/// progress on the calling thread (used when it ends thread-blocked).
pub fn run_jobs(
    jobs: Vec<Job>,
    threads: usize,
    thread_init: Arc<dyn Fn() + Send + Sync>,
    log_fn: fn() -> Vec<String>,
    hang_timeout: Duration,
) -> RunReport {
    let t0 = Instant::now();
    let shared = Arc::new(Shared {
        queue: Mutex::new(jobs.into_iter().collect()),
        active_jobs: Mutex::new(Vec::new()),
        results: Mutex::new(Vec::new()),
        respawn: AtomicUsize::new(0),
        active: AtomicUsize::new(0),
        blocked_threads: AtomicUsize::new(0),
        cv: Condvar::new(),
        cv_m: Mutex::new(()),
        heartbeat: AtomicU64::new(0),
        thread_init,
        running: Mutex::new(Vec::new()),
        violating_jobs: AtomicUsize::new(0),
    });
    let spawn = || {
        shared.active.fetch_add(1, Ordering::SeqCst);
        let sh = shared.clone();
        // VERIF_E3_STACK_KB: stack of the worker threads (C03 runs its socket-level part on the 2 MiB of a tokio worker)
        let stack = std::env::var("VERIF_E3_STACK_KB").ok().and_then(|s| s.parse::<usize>().ok()).map(|k| k << 10).unwrap_or(8 << 20);
        static WORKER_NO: AtomicUsize = AtomicUsize::new(0);
        std::thread::Builder::new()
            .name(format!("zv-w{}", WORKER_NO.fetch_add(1, Ordering::Relaxed)))
            .stack_size(stack)
            .spawn(move || worker(sh, log_fn))
            .expect("spawn worker");
    };
    for _ in 0..threads.max(1) {
        spawn();
    }
    let mut last_hb = 0u64;
    let mut last_change = Instant::now();
    let mut hung = false;
    loop {
        {
            let g = shared.cv_m.lock().unwrap();
            let _ = shared.cv.wait_timeout(g, Duration::from_millis(100)).unwrap();
        }
        let n = shared.respawn.swap(0, Ordering::SeqCst);
        for _ in 0..n {
            spawn();
        }
        if shared.active.load(Ordering::SeqCst) == 0 && shared.respawn.load(Ordering::SeqCst) == 0 {
            break;
        }
        // watchdog: give up executions that have been running for too long
        let overdue: Vec<Running> = {
            let mut run = shared.running.lock().unwrap();
            let mut out = Vec::new();
            let mut i = 0;
            while i < run.len() {
                if run[i].since.elapsed() > EXECUTION_DEADLINE {
                    out.push(run.remove(i));
                } else {
                    i += 1;
                }
            }
            out
        };
        for r in overdue {
            r.abandoned.store(true, Ordering::SeqCst);
            let mut verdict = Verdict::default();
            verdict.violate(
                "execution-hung",
                format!("the execution did not finish within {} s of wall time (an execution takes milliseconds): library code blocks its thread for ever outside the scc seam (e.g. a non-reentrant lock taken twice) or loops without yielding; replay = the recorded choices followed by default choices", EXECUTION_DEADLINE.as_secs()),
            );
            verdict.outcome_hash = 0x4a06_4a06;
            let prefix = r.pending.prefix();
            {
                let mut st = r.state.lock().unwrap();
                st.in_flight -= 1;
                st.absorb(&r.pending, prefix, None, verdict, Outcome::ThreadBlocked);
                if !st.counted_as_violating && st.res.violations.keys().any(|c| !is_known_class(c)) {
                    st.counted_as_violating = true;
                    shared.violating_jobs.fetch_add(1, Ordering::SeqCst);
                }
            }
            maybe_finalize(&shared, &r.state);
            shared.heartbeat.fetch_add(1, Ordering::Relaxed);
            shared.blocked_threads.fetch_add(1, Ordering::SeqCst);
            shared.active.fetch_sub(1, Ordering::SeqCst);
            spawn();
        }
        let hb = shared.heartbeat.load(Ordering::Relaxed);
        if hb != last_hb {
            last_hb = hb;
            last_change = Instant::now();
        } else if last_change.elapsed() > hang_timeout {
            hung = true;
            break;
        }
    }
    let results = std::mem::take(&mut *shared.results.lock().unwrap());
    RunReport {
        results,
        blocked_threads: shared.blocked_threads.load(Ordering::SeqCst),
        hung,
        wall: t0.elapsed(),
    }
}

/// Runs exactly one execution with the given choice list (replay without the explorer).
pub fn replay_one(scenario: &Scenario, choices: Vec<ChoicePoint>) -> (Verdict, Vec<ChoicePoint>, Option<String>) {
    begin(choices);
    let v = scenario();
    let (t, d) = end();
    (v, t, d)
}
