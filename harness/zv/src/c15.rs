//! C15 — proxy() forwards every message verbatim in both directions (E3).

use crate::e3::{self};
use serde_json::{json, Value};
use zeromq::prelude::*;
use zeromq::{DealerSocket, PushSocket, RouterSocket};
use zvcore::evidence::{Check, Tier};
use zvcore::explore::Verdict;
use zvcore::refcodec as rc;
use zvcore::world;

#[derive(Clone, Debug)]
struct Params {
    clients: usize,
    workers: usize,
    capture: bool,
    policy: u8,
    /// one connection accepts a few bytes and then nothing until a later environment event re-opens it:
    /// 0 none, 1 worker 0's connection, 2 client 0's connection, 3 the capture peer's connection
    backpressure: u8,
}

fn request(c: usize, j: usize) -> Vec<Vec<u8>> {
    // REQ-style: delimiter + payload of 1..3 frames incl. empty frames and frames at the 255/256 size boundary
    let tag = format!("c{}r{}", c, j).into_bytes();
    // (a payload that ENDS with an empty frame comes first: its last bytes on a connection are the header of a
    // zero-length frame, with nothing behind them to push a parked message out)
    match (c * 2 + j) % 4 {
        0 => vec![vec![], tag, vec![]],
        1 => vec![vec![], tag, vec![], rc::pattern(256, 3, 0)],
        2 => vec![vec![], vec![], tag, rc::pattern(255, 4, 0)],
        _ => vec![vec![], tag],
    }
}

fn scenario(pr: &Params) -> Verdict {
    world::reset(world::WorldCfg { nested_env: true, yields: true, select: true, policy: pr.policy, coop: false });
    let reqs_per_client = 2usize;
    let clients: Vec<e3::RawConn> = (0..pr.clients).map(|c| e3::raw_conn(&format!("C{}", c))).collect();
    let workers: Vec<e3::RawConn> = (0..pr.workers).map(|w| e3::raw_conn(&format!("W{}", w))).collect();
    let cap = e3::raw_conn("CAP");
    for (c, conn) in clients.iter().enumerate() {
        conn.send(&rc::handshake("REQ", Some(format!("C{}", c).as_bytes())));
        // requests wait until every worker is attached (the property is about forwarding, not about routing with no worker)
        conn.gate("workers-ready");
        for j in 0..reqs_per_client {
            conn.send(&rc::encode_message(&request(c, j)));
        }
    }
    for (w, conn) in workers.iter().enumerate() {
        conn.send(&rc::handshake("REP", Some(format!("W{}", w).as_bytes())));
        e3::make_echo_peer(*conn);
    }
    cap.send(&rc::handshake("PULL", Some(b"CAP")));
    // (the squeeze starts when the traffic does - see the setup task - and ends with a scripted environment event)
    let squeezed = match pr.backpressure {
        1 => Some(workers[0].from_lib),
        2 => Some(clients[0].from_lib),
        3 => Some(cap.from_lib),
        _ => None,
    };
    let frontend = RouterSocket::new();
    let backend = DealerSocket::new();
    let capture = PushSocket::new();
    let (fbe, bbe, cbe) = (frontend.backend(), backend.backend(), capture.backend());
    let (clients2, workers2, use_cap) = (clients.clone(), workers.clone(), pr.capture);
    let proxy_result = std::rc::Rc::new(std::cell::RefCell::new(None::<String>));
    let pr2 = proxy_result.clone();
    world::spawn_app("setup+proxy", async move {
        for w in &workers2 {
            let r = e3::attach_raw(bbe.clone(), *w).await;
            world::log(format!("attach(worker) -> {}", e3::ok_or_err(&r)));
        }
        if use_cap {
            let r = e3::attach_raw(cbe.clone(), cap).await;
            world::log(format!("attach(capture peer) -> {}", e3::ok_or_err(&r)));
        }
        for c in &clients2 {
            let r = e3::attach_raw(fbe.clone(), *c).await;
            world::log(format!("attach(client) -> {}", e3::ok_or_err(&r)));
        }
        if let Some(d) = squeezed {
            // every handshake is done; from here on that connection takes 7 more bytes and then nothing until the
            // environment re-opens it
            world::set_wmode(d, world::WMode::Budget(7));
            world::script_wmodes(d, &[world::WMode::Open]);
        }
        world::set_cond("workers-ready");
        let capbox: Option<Box<dyn zeromq::CaptureSocket>> = if use_cap { Some(Box::new(capture)) } else { drop(capture); None };
        let r = zeromq::proxy(frontend, backend, capbox).await;
        *pr2.borrow_mut() = Some(format!("{:?}", r.map_err(|e| e3::err_class(&e))));
    });
    let end = world::run(e3::HORIZON);
    let mut v = Verdict::default();
    v.truncated = end != world::RunEnd::Quiescent;
    let what = format!("proxy(ROUTER, DEALER, capture={}) with {} clients x {} requests and {} echo workers, policy {}{}", pr.capture, pr.clients, reqs_per_client, pr.workers, pr.policy, ["", ", worker 0's connection accepting 7 bytes and then nothing for a while", ", client 0's connection accepting 7 bytes and then nothing for a while", ", the capture peer's connection accepting 7 bytes and then nothing for a while"][pr.backpressure as usize % 4]);
    for p in world::panics() {
        v.violate("panic", format!("{}: {}", what, p));
    }
    if v.truncated {
        v.violate("spin", format!("{}: no quiescence", what));
    }
    if let Some(r) = proxy_result.borrow().as_ref() {
        v.violate("proxy-returned", format!("{}: proxy() returned {} although no connection failed", what, r));
    }
    // every request appears exactly once on some worker's wire as [client-id, "", payload...]
    let wtaps: Vec<Vec<Vec<Vec<u8>>>> = workers.iter().map(|w| w.tap_messages()).collect();
    let mut canon = Vec::new();
    for c in 0..pr.clients {
        let id = format!("C{}", c).into_bytes();
        let mut want_replies = Vec::new();
        for j in 0..reqs_per_client {
            let mut want = vec![id.clone()];
            want.extend(request(c, j));
            let count: usize = wtaps.iter().map(|t| t.iter().filter(|m| **m == want).count()).sum();
            if count != 1 {
                v.violate(
                    if count == 0 { "request-not-forwarded-verbatim" } else { "request-forwarded-more-than-once" },
                    format!("{}: request {} of client {} appears {} times on the workers' wires as {} (workers saw {:?})", what, j, c, count, rc::show_frames(&want), wtaps.iter().map(|t| t.iter().map(|m| rc::show_frames(m)).collect::<Vec<_>>()).collect::<Vec<_>>()),
                );
            }
            want_replies.push(request(c, j));
        }
        // per worker, a client's requests keep their order
        for t in &wtaps {
            let mine: Vec<usize> = t.iter().filter(|m| m.first() == Some(&id)).filter_map(|m| (0..reqs_per_client).find(|j| m[1..] == request(c, *j)[..])).collect();
            if mine.windows(2).any(|w| w[0] > w[1]) {
                v.violate("requests-reordered", format!("{}: client {}'s requests reached a worker out of order: {:?}", what, c, mine));
            }
        }
        // the client receives exactly the echoes of its own requests (as ["", payload...])
        let got = clients[c].tap_messages();
        let mut g = got.clone();
        g.sort();
        let mut w = want_replies.clone();
        w.sort();
        if g != w {
            let class = if got.iter().any(|m| !want_replies.contains(m)) { "client-got-foreign-or-modified-reply" } else if got.len() < want_replies.len() { "reply-not-forwarded" } else { "reply-forwarded-more-than-once" };
            v.violate(class, format!("{}: client {} received {:?}, expected the echoes {:?}", what, c, got.iter().map(|m| rc::show_frames(m)).collect::<Vec<_>>(), want_replies.iter().map(|m| rc::show_frames(m)).collect::<Vec<_>>()));
        }
        canon.push(format!("c{}:{:?}", c, got.iter().map(|m| m.last().cloned()).collect::<Vec<_>>()));
    }
    if pr.capture {
        // a copy of each forwarded message, both directions: 2 x requests
        let ct = cap.tap_messages();
        let total = pr.clients * reqs_per_client;
        let mut want_all: Vec<Vec<Vec<u8>>> = Vec::new();
        for c in 0..pr.clients {
            for j in 0..reqs_per_client {
                let mut m = vec![format!("C{}", c).into_bytes()];
                m.extend(request(c, j));
                want_all.push(m.clone());
                want_all.push(m);
            }
        }
        let mut g = ct.clone();
        g.sort();
        want_all.sort();
        if g != want_all {
            v.violate("capture-not-a-copy-of-each-forwarded-message", format!("{}: capture wire carries {} messages, expected {} (each request and each reply once, verbatim with envelope)", what, ct.len(), 2 * total));
        }
        canon.push(format!("cap:{}", ct.len()));
    }
    v.outcome_hash = rc::fnv(canon.join("|").as_bytes()) ^ rc::fnv(format!("{:?}", wtaps.iter().map(|t| t.len()).collect::<Vec<_>>()).as_bytes());
    e3::finish(v)
}

/// Long uninterrupted runs on one side: a pipelining client queues `n` requests before the proxy
/// polls that side (and the echo worker answers all of them at once), so that any batching /
/// burst logic inside the proxy loop is driven past its limits.
fn volume_scenario(n: usize, capture: bool, policy: u8) -> Verdict {
    world::reset(world::WorldCfg { nested_env: false, yields: false, select: true, policy, coop: false });
    let client = e3::raw_conn("C0");
    let worker = e3::raw_conn("W0");
    let cap = e3::raw_conn("CAP");
    client.send(&rc::handshake("DEALER", Some(b"C0")));
    worker.send(&rc::handshake("REP", Some(b"W0")));
    cap.send(&rc::handshake("PULL", Some(b"CAP")));
    client.gate("go");
    let mut all = Vec::new();
    for j in 0..n {
        all.extend(rc::encode_message(&[vec![], format!("r{:05}", j).into_bytes()]));
    }
    // one big chunk: everything is readable at once
    client.send(&all);
    e3::make_echo_peer(worker);
    for c in [client, worker, cap] {
        world::reserve_tap(c.from_lib, 64 * n + 4096);
    }
    let frontend = RouterSocket::new();
    let backend = DealerSocket::new();
    let capture_sock = PushSocket::new();
    let (fbe, bbe, cbe) = (frontend.backend(), backend.backend(), capture_sock.backend());
    let returned = std::rc::Rc::new(std::cell::RefCell::new(None::<String>));
    let ret2 = returned.clone();
    world::spawn_app("setup+proxy", async move {
        let _ = e3::attach_raw(bbe, worker).await;
        if capture {
            let _ = e3::attach_raw(cbe, cap).await;
        }
        let _ = e3::attach_raw(fbe, client).await;
        world::set_cond("go");
        // the requests pile up before the proxy starts polling
        world::idle().await;
        let capbox: Option<Box<dyn zeromq::CaptureSocket>> = if capture { Some(Box::new(capture_sock)) } else { drop(capture_sock); None };
        let r = zeromq::proxy(frontend, backend, capbox).await;
        *ret2.borrow_mut() = Some(format!("{:?}", r.map_err(|e| e3::err_class(&e))));
    });
    let end = world::run(e3::HORIZON * 40);
    let mut v = Verdict::default();
    v.truncated = end != world::RunEnd::Quiescent;
    let what = format!("proxy(ROUTER, DEALER, capture={}) with one client pipelining {} requests before the proxy polls, one echo worker, policy {}", capture, n, policy);
    for p in world::panics() {
        v.violate("panic", format!("{}: {}", what, p));
    }
    if v.truncated {
        v.violate("spin", format!("{}: no quiescence", what));
    }
    if let Some(r) = returned.borrow().as_ref() {
        v.violate("proxy-returned", format!("{}: proxy() returned {}", what, r));
    }
    let wt = worker.tap_messages();
    let ct = client.tap_messages();
    let want_w: Vec<Vec<Vec<u8>>> = (0..n).map(|j| vec![b"C0".to_vec(), vec![], format!("r{:05}", j).into_bytes()]).collect();
    let want_c: Vec<Vec<Vec<u8>>> = (0..n).map(|j| vec![vec![], format!("r{:05}", j).into_bytes()]).collect();
    let first_diff = |got: &Vec<Vec<Vec<u8>>>, want: &Vec<Vec<Vec<u8>>>| -> String {
        let i = got.iter().zip(want.iter()).position(|(a, b)| a != b).unwrap_or(got.len().min(want.len()));
        format!("{} of {} messages; first difference at #{}: got {}, expected {}", got.len(), want.len(), i, got.get(i).map(|m| rc::show_frames(m)).unwrap_or_else(|| "nothing".into()), want.get(i).map(|m| rc::show_frames(m)).unwrap_or_else(|| "nothing".into()))
    };
    if wt != want_w {
        v.violate("long-run/request-lost-duplicated-or-reordered", format!("{}: the worker's wire carries {}", what, first_diff(&wt, &want_w)));
    } else if ct != want_c {
        v.violate("long-run/reply-lost-duplicated-or-reordered", format!("{}: the client's wire carries {}", what, first_diff(&ct, &want_c)));
    }
    if capture && v.violations.is_empty() {
        let n_cap = cap.tap_messages().len();
        if n_cap != 2 * n {
            v.violate("long-run/capture-incomplete", format!("{}: the capture wire carries {} messages, expected {}", what, n_cap, 2 * n));
        }
    }
    v.outcome_hash = rc::fnv(format!("{}:{}", wt.len(), ct.len()).as_bytes());
    e3::finish(v)
}

/// Turnover while the proxy runs: client C0 makes one round trip, then a second connection announces the same identity
/// (kind 1: while the first is still open; kind 2: after the first has closed and the proxy has seen it; kind 3: the
/// same for the only worker's identity on the back side; kind 0: a new client under a new identity, as a control) and
/// sends two requests; a bystander client works before and after. Every request is forwarded exactly once, every
/// connection receives exactly the echoes of what it sent, proxy() keeps running.
fn turnover_scenario(kind: u8, capture: bool, policy: u8) -> Verdict {
    world::reset(world::WorldCfg { nested_env: true, yields: true, select: true, policy, coop: false });
    // (connection, identity, index used in the payload tags, how many requests, gate)
    let c0a = e3::raw_conn("C0a");
    let c1 = e3::raw_conn("C1");
    let c0b = e3::raw_conn("C0b");
    let w0a = e3::raw_conn("W0a");
    let w0b = e3::raw_conn("W0b");
    let cap = e3::raw_conn("CAP");
    c0a.send(&rc::handshake("REQ", Some(b"C0")));
    c0a.gate("round1");
    c0a.send(&rc::encode_message(&request(0, 0)));
    c1.send(&rc::handshake("REQ", Some(b"C1")));
    c1.gate("round1");
    c1.send(&rc::encode_message(&request(1, 0)));
    c1.gate("round2");
    c1.send(&rc::encode_message(&request(1, 1)));
    c0b.send(&rc::handshake("REQ", Some(if kind == 0 { &b"C2"[..] } else { &b"C0"[..] })));
    c0b.gate("round2");
    c0b.send(&rc::encode_message(&request(2, 0)));
    c0b.send(&rc::encode_message(&request(2, 1)));
    w0a.send(&rc::handshake("REP", Some(b"W0")));
    e3::make_echo_peer(w0a);
    w0b.send(&rc::handshake("REP", Some(b"W0")));
    e3::make_echo_peer(w0b);
    cap.send(&rc::handshake("PULL", Some(b"CAP")));
    let frontend = RouterSocket::new();
    let backend = DealerSocket::new();
    let capture_sock = PushSocket::new();
    let (fbe, bbe, cbe) = (frontend.backend(), backend.backend(), capture_sock.backend());
    let proxy_result = std::rc::Rc::new(std::cell::RefCell::new(None::<String>));
    let pr2 = proxy_result.clone();
    let (fbe2, bbe2) = (fbe.clone(), bbe.clone());
    world::spawn_app("setup+proxy", async move {
        let r = e3::attach_raw(bbe.clone(), w0a).await;
        world::log(format!("attach(worker) -> {}", e3::ok_or_err(&r)));
        if capture {
            let r = e3::attach_raw(cbe.clone(), cap).await;
            world::log(format!("attach(capture peer) -> {}", e3::ok_or_err(&r)));
        }
        for c in [c0a, c1] {
            let r = e3::attach_raw(fbe.clone(), c).await;
            world::log(format!("attach(client) -> {}", e3::ok_or_err(&r)));
        }
        world::set_cond("round1");
        world::set_cond("proxy-starts");
        let capbox: Option<Box<dyn zeromq::CaptureSocket>> = if capture { Some(Box::new(capture_sock)) } else { drop(capture_sock); None };
        let r = zeromq::proxy(frontend, backend, capbox).await;
        *pr2.borrow_mut() = Some(format!("{:?}", r.map_err(|e| e3::err_class(&e))));
    });
    world::spawn_app("director", async move {
        world::wait_cond("proxy-starts").await;
        // round 1 runs to completion
        world::idle().await;
        if kind == 2 {
            c0a.eof();
            world::idle().await;
        }
        if kind == 3 {
            let r = e3::attach_raw(bbe2, w0b).await;
            world::log(format!("attach(second connection of the worker's identity) -> {}", e3::ok_or_err(&r)));
        } else {
            let r = e3::attach_raw(fbe2, c0b).await;
            world::log(format!("attach(second connection) -> {}", e3::ok_or_err(&r)));
        }
        world::set_cond("round2");
    });
    let end = world::run(e3::HORIZON);
    let mut v = Verdict::default();
    v.truncated = end != world::RunEnd::Quiescent;
    let what = format!(
        "proxy(ROUTER, DEALER, capture={}) with one echo worker, a bystander client and client C0 making a round trip; then {}; policy {}",
        capture,
        ["a new client under a new identity connects and sends two requests", "a second connection announces C0's identity while the first is still open and sends two requests", "C0's connection closes, the proxy sees it, a new connection announces the same identity and sends two requests", "a second connection announces the worker's identity on the back side; the bystander goes on"][kind as usize % 4],
        policy
    );
    for p in world::panics() {
        v.violate("panic", format!("{}: {}", what, p));
    }
    if v.truncated {
        v.violate("spin", format!("{}: no quiescence", what));
    }
    if let Some(r) = proxy_result.borrow().as_ref() {
        v.violate("turnover/proxy-returned", format!("{}: proxy() returned {}", what, r));
    }
    let wires: Vec<Vec<Vec<Vec<u8>>>> = vec![w0a.tap_messages(), w0b.tap_messages()];
    let second_id: &[u8] = if kind == 0 { b"C2" } else { b"C0" };
    // (connection, identity, tag index, requests it sent)
    let mut senders: Vec<(e3::RawConn, &[u8], usize, usize)> = vec![(c0a, b"C0", 0, 1), (c1, b"C1", 1, 2)];
    if kind != 3 {
        senders.push((c0b, second_id, 2, 2));
    }
    let mut canon = Vec::new();
    for (conn, id, c, n) in &senders {
        let mut want_replies = Vec::new();
        for j in 0..*n {
            let mut want = vec![id.to_vec()];
            want.extend(request(*c, j));
            let count: usize = wires.iter().map(|t| t.iter().filter(|m| **m == want).count()).sum();
            if count != 1 {
                v.violate(
                    if count == 0 { "turnover/request-not-forwarded" } else { "turnover/request-forwarded-more-than-once" },
                    format!("{}: request {} of connection {} appears {} times on the worker wires as {}", what, j, c, count, rc::show_frames(&want)),
                );
            }
            want_replies.push(request(*c, j));
        }
        let got = conn.tap_messages();
        if got != want_replies {
            let class = if got.iter().any(|m| !want_replies.contains(m)) { "turnover/foreign-or-modified-reply" } else if got.len() < want_replies.len() { "turnover/reply-not-forwarded" } else { "turnover/reply-forwarded-more-than-once-or-out-of-order" };
            v.violate(class, format!("{}: connection {} received {:?}, expected the echoes {:?}", what, c, got.iter().map(|m| rc::show_frames(m)).collect::<Vec<_>>(), want_replies.iter().map(|m| rc::show_frames(m)).collect::<Vec<_>>()));
        }
        canon.push(format!("c{}:{}", c, got.len()));
    }
    if capture {
        let total: usize = senders.iter().map(|s| s.3).sum();
        let ct = cap.tap_messages();
        if ct.len() != 2 * total {
            v.violate("turnover/capture-incomplete", format!("{}: capture wire carries {} messages, expected {}", what, ct.len(), 2 * total));
        }
    }
    v.outcome_hash = rc::fnv(canon.join("|").as_bytes()) ^ rc::fnv(format!("{:?}", wires.iter().map(|t| t.len()).collect::<Vec<_>>()).as_bytes());
    e3::finish(v)
}

fn pj(p: &Params) -> Value {
    json!({"clients": p.clients, "workers": p.workers, "capture": p.capture, "policy": p.policy, "backpressure": p.backpressure})
}

fn pf(v: &Value) -> Option<Params> {
    Some(Params {
        clients: v["clients"].as_u64()? as usize,
        workers: v["workers"].as_u64()? as usize,
        capture: v["capture"].as_bool()?,
        policy: v["policy"].as_u64().unwrap_or(0) as u8,
        backpressure: v["backpressure"].as_u64().unwrap_or(0) as u8,
    })
}

pub fn run(tier: Tier, replay: Option<String>) -> i32 {
    world::install_panic_hook();
    let mut ck = Check::new("C15", tier, "model_checking");
    if let Some(path) = replay {
        let v: Value = serde_json::from_str(&std::fs::read_to_string(&path).expect("read")).expect("json");
        return crate::replay::replay_e3(&v, |p| {
            if p["scenario"] == "turnover" {
                let (k, c, pol) = (p["kind"].as_u64()? as u8, p["capture"].as_bool()?, p["policy"].as_u64()? as u8);
                return Some(std::sync::Arc::new(move || turnover_scenario(k, c, pol)) as zvcore::explore::Scenario);
            }
            if p["scenario"] == "volume" {
                let (n, c, pol) = (p["n"].as_u64()? as usize, p["capture"].as_bool()?, p["policy"].as_u64()? as u8);
                return Some(std::sync::Arc::new(move || volume_scenario(n, c, pol)) as zvcore::explore::Scenario);
            }
            let pr = pf(p)?;
            Some(std::sync::Arc::new(move || scenario(&pr)) as zvcore::explore::Scenario)
        });
    }
    let mut jobs = Vec::new();
    for clients in 1..=2usize {
        for workers in 1..=2usize {
            for capture in [false, true] {
                for policy in 0..3u8 {
                    let pr = Params { clients, workers, capture, policy, backpressure: 0 };
                    let pr2 = pr.clone();
                    let bound = if clients + workers >= 4 { tier.pick(2, 3) } else if clients + workers == 3 { tier.pick(2, 3) } else { tier.pick(3, 4) };
                    jobs.push(e3::job(format!("C15/{}c{}w/cap{}/policy{}", clients, workers, capture, policy), pj(&pr), bound, tier.pick(600_000, 10_000_000), move || scenario(&pr2)));
                    // the same under back-pressure on one connection (partial writes that complete only later)
                    for backpressure in 1..=3u8 {
                        if backpressure == 3 && !capture {
                            continue;
                        }
                        let pr = Params { clients, workers, capture, policy, backpressure };
                        let pr2 = pr.clone();
                        jobs.push(e3::job(format!("C15/{}c{}w/cap{}/policy{}/bp{}", clients, workers, capture, policy, backpressure), pj(&pr), tier.pick(1, 2), tier.pick(300_000, 3_000_000), move || scenario(&pr2)));
                    }
                }
            }
        }
    }
    // long uninterrupted runs on one side (not exhaustive in n: a scale family, default schedules + single deviations)
    for n in tier.pick(vec![130usize, 1100, 2100], vec![130, 300, 1100, 2100, 5000]) {
        for capture in [false, true] {
            for policy in 0..3u8 {
                jobs.push(e3::job(format!("C15/volume/{}/cap{}/policy{}", n, capture, policy), json!({"scenario":"volume","n":n,"capture":capture,"policy":policy}), if n <= 300 { 1 } else { 0 }, 2_000, move || volume_scenario(n, capture, policy)));
            }
        }
    }
    // peers come and go while the proxy runs (identities re-used on either side)
    for kind in 0..4u8 {
        for capture in [false, true] {
            for policy in 0..3u8 {
                jobs.push(e3::job(format!("C15/turnover/kind{}/cap{}/policy{}", kind, capture, policy), json!({"scenario":"turnover","kind":kind,"capture":capture,"policy":policy}), tier.pick(1, 2), tier.pick(200_000, 2_000_000), move || turnover_scenario(kind, capture, policy)));
            }
        }
    }
    e3::run_jobs_into(&mut ck, jobs, false);
    let ex = ck.coverage.get("e3_executions").and_then(|v| v.as_u64()).unwrap_or(0);
    ck.cov("states", ck.coverage.get("e3_distinct_outcomes").and_then(|v| v.as_u64()).unwrap_or(0).max(1));
    ck.cov("transitions", ex);
    ck.cov("traces_validated_against_impl", ex);
    ck.cov("exhaustive", ck.coverage.get("e3_scenarios_capped").and_then(|v| v.as_u64()) == Some(0));
    ck.cov("explanation", "the real proxy(RouterSocket, DealerSocket, capture) with capture in {none, PushSocket with a raw PULL peer}, 1-2 raw REQ-like clients (2 requests each, payloads of 1-3 frames incl. empty frames) and 1-2 raw REP-like echo workers, under every schedule within the deviation bound from 3 default policies INCLUDING both select! branch orders at every iteration (choice point through the vendored futures-util seam), yield points and deliveries landing inside pipe reads (both sides ready in the same poll). Oracle from the reference-decoded wires: every request appears exactly once on some worker's wire as [client-id, \"\", payload...], per client in order; every client's wire carries exactly the echoes of its own requests as [\"\", payload...]; the capture wire holds a copy of each forwarded message (both directions); proxy() does not return. Plus a scale family: one client pipelining 130 / 1100 / 2100 (thorough: up to 5000) requests before the proxy polls that side, one echo worker answering all at once — every request and reply forwarded exactly once, in order, capture complete (drives any batching logic in the proxy loop past typical limits such as 128, 1000, 2048). Plus a turnover family: while the proxy runs a second connection announces a client's identity (first connection still open / closed and seen) or the worker's identity, or a new client joins; every request forwarded exactly once, every connection gets exactly the echoes of what it sent, proxy() keeps running. states = distinct observed outcomes.");
    ck.assume("requests are released once all workers are attached (forwarding, not routing without workers, is the subject)");
    ck.conclude()
}
