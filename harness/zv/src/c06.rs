//! C06 — a waiting receiver is always woken, and no peer is starved (E2).

use crate::e2;
use zvcore::evidence::{Check, Tier};

/// Child process: a PULL socket whose recv loop is driven by `block_on` (the main future of a
/// multi-thread runtime, exactly what `#[tokio::main]` does) while a PUSH peer keeps the connection
/// saturated. tokio's I/O resources yield cooperatively (wake themselves, return Pending) once the
/// task budget is used up; outside a worker thread that wake is synchronous. Exit 0 = all messages
/// received, 3 = the main future never came back (watchdog on a plain OS thread).
pub fn child_coop(n: usize) -> i32 {
    use zeromq::prelude::*;
    let rt = tokio::runtime::Builder::new_multi_thread().worker_threads(2).enable_all().build().expect("rt");
    std::thread::spawn(|| {
        std::thread::sleep(std::time::Duration::from_secs(15));
        println!("WATCHDOG");
        std::process::exit(3);
    });
    let got = rt.block_on(async move {
        let mut pull = zeromq::PullSocket::new();
        let ep = pull.bind("tcp://127.0.0.1:0").await.expect("bind");
        tokio::spawn(async move {
            let mut push = zeromq::PushSocket::new();
            push.connect(&ep.to_string()).await.expect("connect");
            let payload = vec![7u8; 20_000];
            for _ in 0..n {
                if push.send(zeromq::ZmqMessage::from(payload.clone())).await.is_err() {
                    break;
                }
            }
            tokio::time::sleep(std::time::Duration::from_secs(30)).await;
        });
        // let data pile up so that every read finds some
        tokio::time::sleep(std::time::Duration::from_millis(300)).await;
        let mut got = 0usize;
        for _ in 0..n {
            if pull.recv().await.is_err() {
                break;
            }
            got += 1;
        }
        got
    });
    println!("{}", got);
    if got == n {
        0
    } else {
        4
    }
}

pub fn run(tier: Tier, replay: Option<String>) -> i32 {
    zvcore::world::install_panic_hook();
    let mut ck = Check::new("C06", tier, "model_checking");
    if let Some(path) = replay {
        let v: serde_json::Value = serde_json::from_str(&std::fs::read_to_string(&path).expect("read")).expect("json");
        if v["replay"]["engine"] == "E3" {
            return crate::c05::replay_socket(&v);
        }
        if v["replay"]["kind"] == "coop" {
            let n = v["replay"]["n"].as_u64().unwrap_or(600).to_string();
            let o = std::process::Command::new(std::env::current_exe().unwrap()).args(["c06-coop", &n]).output().expect("child");
            println!("replay: c06-coop exited with {:?} ({})", o.status.code(), String::from_utf8_lossy(&o.stdout).trim());
            return if o.status.code() == Some(0) { 0 } else { 1 };
        }
        return e2::replay_file(&v);
    }
    let thorough = tier == Tier::Thorough;
    let mut cfgs = e2::general_configs(thorough);
    cfgs.extend(e2::fairness_configs(thorough));
    e2::run_configs(&mut ck, cfgs, e2::is_c06_class);
    e2::scale_family(&mut ck, thorough, e2::is_c06_class);
    // socket level: the C05 scenarios, judged here only for "a complete message is left
    // undelivered at quiescence while a recv is pending" (a lost wake-up through the real
    // FramedRead / pipe waker chain shows up as exactly that)
    crate::e3::run_jobs_into(&mut ck, crate::c05::socket_jobs(tier), false);
    // real runtime: recv loop driven by block_on under sustained load (cooperative-yield path of real tokio I/O)
    let n = tier.pick(600usize, 3000usize);
    if let Ok(exe) = std::env::current_exe() {
        match std::process::Command::new(exe).args(["c06-coop", &n.to_string()]).output() {
            Ok(o) => {
                ck.cov("real_runtime_block_on_recv_loop_messages", n as u64);
                match o.status.code() {
                    Some(0) => {}
                    Some(3) => ck.finding(
                        "livelock/recv-driven-by-block_on-under-load",
                        format!("real tokio runtime: a PULL socket whose `loop {{ recv().await }}` is the main future of block_on, fed by a PUSH peer with {} back-to-back 20 kB messages, never handed control back to the executor (watchdog on an OS thread fired after 15 s; 100% CPU)", n),
                        serde_json::json!({"engine":"E4","kind":"coop","n":n}),
                    ),
                    other => ck.machinery_error(format!("c06-coop child exited with {:?}: {}", other, String::from_utf8_lossy(&o.stdout))),
                }
            }
            Err(e) => ck.machinery_error(format!("cannot run c06-coop child: {}", e)),
        }
    }
    ck.findings.retain(|f| f.replay["engine"] != "E3" || f.class == "undelivered-at-quiescence" || f.class == "spin");
    let st = ck.coverage.get("states").and_then(|v| v.as_u64()).unwrap_or(0);
    let tr = ck.coverage.get("transitions").and_then(|v| v.as_u64()).unwrap_or(0);
    let tr = tr + ck.coverage.get("e3_executions").and_then(|v| v.as_u64()).unwrap_or(0);
    ck.cov("traces_validated_against_impl", tr + ck.coverage.get("e2_liveness_drain_checks").and_then(|v| v.as_u64()).unwrap_or(0));
    ck.cov("exhaustive", ck.coverage.get("e2_all_fixpoints").and_then(|v| v.as_bool()).unwrap_or(false));
    ck.cov("explanation", format!("breadth-first search over event histories {{Insert i, Arrive i, Fire i (a registered stream waker runs), Close i, Remove i, Poll, PollX (a poll during which every polled stream yields cooperatively: wakes its own waker and returns Pending), Poll with 1 (thorough: 2) event(s) executed re-entrantly inside the checked-out stream's poll — before/after its body or right after the Pending re-insert}} of the REAL FairQueue with scripted streams; every transition replays the history on a fresh queue ({} states, {} transitions). On every state: no-lost-wake-up invariant (parked un-woken receiver + stored stream with an item or end-of-stream => a wake for it is pending; the receiver's waker is published) and a liveness oracle (fire all due wakes, poll whenever woken, until nothing changes: every stored stream must be drained). Fairness configurations (busy stream pre-loaded with 2(n-1)+3 items) bound the number of deliveries to other streams while a stream is ready by 2(n-1); the maximum observed is reported per configuration. Additionally one run on the REAL tokio runtime: a PULL recv loop driven by block_on under sustained load (tokio's cooperative-yield path) must receive everything.", st, tr));
    ck.assume("tickets are only ever compared, so states that differ only in absolute ticket values are merged (rank normalisation)");
    ck.assume("parking_lot::Mutex, BinaryHeap, HashMap are trusted; memory orderings are not explored");
    ck.conclude()
}
