//! C06 — a waiting receiver is always woken, and no peer is starved (E2).

use crate::e2;
use zvcore::evidence::{Check, Tier};

pub fn run(tier: Tier, replay: Option<String>) -> i32 {
    zvcore::world::install_panic_hook();
    let mut ck = Check::new("C06", tier, "model_checking");
    if let Some(path) = replay {
        let v: serde_json::Value = serde_json::from_str(&std::fs::read_to_string(&path).expect("read")).expect("json");
        if v["replay"]["engine"] == "E3" {
            return crate::c05::replay_socket(&v);
        }
        return e2::replay_file(&v);
    }
    let thorough = tier == Tier::Thorough;
    let mut cfgs = e2::general_configs(thorough);
    cfgs.extend(e2::fairness_configs(thorough));
    e2::run_configs(&mut ck, cfgs, e2::is_c06_class);
    // socket level: the C05 scenarios, judged here only for "a complete message is left
    // undelivered at quiescence while a recv is pending" (a lost wake-up through the real
    // FramedRead / pipe waker chain shows up as exactly that)
    crate::e3::run_jobs_into(&mut ck, crate::c05::socket_jobs(tier), false);
    ck.findings.retain(|f| f.replay["engine"] != "E3" || f.class == "undelivered-at-quiescence" || f.class == "spin");
    let st = ck.coverage.get("states").and_then(|v| v.as_u64()).unwrap_or(0);
    let tr = ck.coverage.get("transitions").and_then(|v| v.as_u64()).unwrap_or(0);
    let tr = tr + ck.coverage.get("e3_executions").and_then(|v| v.as_u64()).unwrap_or(0);
    ck.cov("traces_validated_against_impl", tr + ck.coverage.get("e2_liveness_drain_checks").and_then(|v| v.as_u64()).unwrap_or(0));
    ck.cov("exhaustive", ck.coverage.get("e2_all_fixpoints").and_then(|v| v.as_bool()).unwrap_or(false));
    ck.cov("explanation", format!("breadth-first search over event histories {{Insert i, Arrive i, Fire i (a registered stream waker runs), Close i, Remove i, Poll, Poll with 1 (thorough: 2) event(s) executed re-entrantly inside the checked-out stream's poll — before/after its body or right after the Pending re-insert}} of the REAL FairQueue with scripted streams; every transition replays the history on a fresh queue ({} states, {} transitions). On every state: no-lost-wake-up invariant (parked un-woken receiver + stored stream with an item or end-of-stream => a wake for it is pending; the receiver's waker is published) and a liveness oracle (fire all due wakes, poll whenever woken, until nothing changes: every stored stream must be drained). Fairness configurations (busy stream pre-loaded with 2(n-1)+3 items) bound the number of deliveries to other streams while a stream is ready by 2(n-1); the maximum observed is reported per configuration.", st, tr));
    ck.assume("tickets are only ever compared, so states that differ only in absolute ticket values are merged (rank normalisation)");
    ck.assume("parking_lot::Mutex, BinaryHeap, HashMap are trusted; memory orderings are not explored");
    ck.conclude()
}
