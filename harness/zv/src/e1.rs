//! Engine E1: the real frame codec and the real framed reader, driven directly.

use bytes::BytesMut;
use futures::io::AsyncRead;
use futures::task::noop_waker;
use std::io;
use std::pin::Pin;
use std::sync::{Arc, Mutex};
use std::task::{Context, Poll};
use zeromq::__verif::{Codec, FramedReadProbe, Item};
use zvcore::refcodec::{self as rc, RItem};

/// A reader over a fixed byte stream of which the harness decides how much is
/// available at any time.
#[derive(Default)]
pub struct Script {
    pub data: Vec<u8>,
    pub avail: usize,
    pub pos: usize,
    pub eof: bool,
    pub reads: u64,
}

#[derive(Clone)]
pub struct ScriptReader(pub Arc<Mutex<Script>>);

impl AsyncRead for ScriptReader {
    fn poll_read(self: Pin<&mut Self>, _cx: &mut Context<'_>, buf: &mut [u8]) -> Poll<io::Result<usize>> {
        let mut s = self.0.lock().unwrap();
        s.reads += 1;
        if s.pos < s.avail {
            let n = (s.avail - s.pos).min(buf.len());
            let p = s.pos;
            buf[..n].copy_from_slice(&s.data[p..p + n]);
            s.pos += n;
            return Poll::Ready(Ok(n));
        }
        if s.eof {
            return Poll::Ready(Ok(0));
        }
        Poll::Pending
    }
}

pub struct Reader {
    pub script: Arc<Mutex<Script>>,
    pub probe: FramedReadProbe,
    pub ended: bool,
}

impl Reader {
    pub fn new(data: Vec<u8>) -> Self {
        let script = Arc::new(Mutex::new(Script {
            data,
            ..Default::default()
        }));
        let probe = FramedReadProbe::new(ScriptReader(script.clone()));
        Reader {
            script,
            probe,
            ended: false,
        }
    }

    /// Makes the stream available up to offset `upto` and polls the reader until
    /// it is Pending (or ended); returns what it yielded.
    pub fn feed_to(&mut self, upto: usize, out: &mut Vec<Result<Item, String>>) {
        {
            let mut s = self.script.lock().unwrap();
            s.avail = upto.min(s.data.len());
        }
        self.drain(out);
    }

    pub fn set_eof(&mut self, out: &mut Vec<Result<Item, String>>) {
        self.script.lock().unwrap().eof = true;
        self.drain(out);
    }

    pub fn drain(&mut self, out: &mut Vec<Result<Item, String>>) {
        if self.ended {
            return;
        }
        let w = noop_waker();
        let mut cx = Context::from_waker(&w);
        let mut errors = 0;
        loop {
            match self.probe.poll_next(&mut cx) {
                Poll::Ready(Some(r)) => {
                    if r.is_err() {
                        errors += 1;
                    }
                    out.push(r);
                    // a reader that keeps producing errors without consuming is cut off:
                    // sockets drop the connection on the first error anyway
                    if errors >= 1 {
                        self.ended = true;
                        break;
                    }
                }
                Poll::Ready(None) => {
                    self.ended = true;
                    break;
                }
                Poll::Pending => break,
            }
        }
    }

    pub fn sigma(&self) -> (String, Vec<u8>) {
        (self.probe.decoder_debug(), self.probe.buffer_bytes())
    }
}

pub fn item_to_ref(i: &Item) -> RItem {
    match i {
        Item::Greeting {
            version,
            mechanism,
            as_server,
        } => RItem::Greeting {
            version: *version,
            mechanism: mechanism.as_bytes().to_vec(),
            as_server: *as_server as u8,
        },
        Item::Command { name, properties } => RItem::Command {
            name: name.as_bytes().to_vec(),
            props: properties
                .iter()
                .map(|(k, v)| (k.as_bytes().to_vec(), v.clone()))
                .collect(),
            long: false,
        },
        Item::Message(f) => RItem::Message(f.clone()),
    }
}

/// Normalises a reference item for comparison with the library's mirror (property
/// order and the LONG flag are not observable through the mirror).
pub fn norm(i: &RItem) -> RItem {
    match i {
        RItem::Command { name, props, .. } => {
            let mut p = props.clone();
            p.sort();
            RItem::Command {
                name: name.clone(),
                props: p,
                long: false,
            }
        }
        other => other.clone(),
    }
}

/// A codec that has already consumed a valid greeting (so that it is in its
/// frame-header state, as on every established connection).
pub fn codec_after_greeting() -> Result<Codec, (String, String)> {
    let mut c = Codec::new();
    let mut b = BytesMut::from(&rc::default_greeting()[..]);
    match zvcore::world::guarded(|| c.decode(&mut b)) {
        Ok(Ok(Some(Item::Greeting { .. }))) => Ok(c),
        Ok(other) => Err(("greeting/lib-decode-of-the-standard-greeting".into(), format!("the library does not decode the standard 64-byte ZMTP 3.0 / NULL greeting: {:?}", other))),
        Err(p) => Err(("panic/decode-greeting".into(), format!("decoding the standard 64-byte greeting panicked: {}", p))),
    }
}

pub fn msg(frames: &[Vec<u8>]) -> zeromq::ZmqMessage {
    let v: Vec<bytes::Bytes> = frames.iter().map(|f| bytes::Bytes::from(f.clone())).collect();
    zeromq::ZmqMessage::try_from(v).expect("non-empty message")
}

pub fn frames_of(m: &zeromq::ZmqMessage) -> Vec<Vec<u8>> {
    m.iter().map(|f| f.to_vec()).collect()
}
