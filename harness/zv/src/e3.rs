//! Engine E3 glue: installs the hooks on explorer threads, wraps the nine real
//! socket types behind one enum, and provides raw-peer connection helpers.

use serde_json::json;
use std::sync::Arc;
use std::time::Duration;
use zeromq::prelude::*;
use zeromq::util::PeerIdentity;
use zeromq::{
    DealerSocket, PubSocket, PullSocket, PushSocket, RepSocket, ReqSocket, RouterSocket, SocketOptions, SubSocket,
    XPubSocket, ZmqError, ZmqMessage, ZmqResult,
};
use zvcore::evidence::Check;
use zvcore::explore::{self, Job, RunReport, Verdict};
use zvcore::refcodec as rc;
use zvcore::world::{self, Chunk, DuctId, PipeReader, PipeWriter};

pub const HORIZON: u64 = 20_000;

fn would_block() {
    explore::on_would_block();
}

/// Per-thread initialisation of every seam.
pub fn thread_init() {
    world::install_panic_hook();
    zeromq::__verif::set_spawn_sink(Some(Box::new(world::spawn_lib)));
    zeromq::__verif::set_yield_hook(Some(Box::new(world::yield_hook)));
    futures_util::__verif_set_gen_index_hook(Some(Box::new(world::select_hook)));
    saa::verif_set_would_block_hook(Some(would_block));
    scc::verif_hash::set_key(Some(0));
    // auto-assigned peer identities (UUIDv4) come from a per-execution counter
    uuid::__verif_set_u128_source(Some(Box::new(|| {
        let n = zvcore::world::next_auto_id();
        // spread the counter over all 16 bytes; the value only needs to be unique and reproducible
        let x = (n as u128 + 1).wrapping_mul(0x9E37_79B9_7F4A_7C15_F39C_C060_5CED_C835);
        x ^ (x >> 61)
    })));
    // library `spawn` needs a tokio context; the runtime is only entered, never driven. Its time driver is enabled
    // so that library code may CREATE timers (sleep, timeout) without panicking - but nobody turns that driver: under
    // this executor a library timer never fires (the executor has no clock; see DESIGN.md 0.5, round 5)
    let rt = tokio::runtime::Builder::new_current_thread()
        .enable_time()
        .build()
        .expect("tokio runtime");
    let rt: &'static tokio::runtime::Runtime = Box::leak(Box::new(rt));
    std::mem::forget(rt.enter());
}

pub fn set_hash_key(k: u64) {
    scc::verif_hash::set_key(Some(k));
}

#[derive(Clone, Copy, Debug, PartialEq, Eq, Hash, PartialOrd, Ord)]
pub enum Ty {
    Pub,
    Sub,
    Req,
    Rep,
    Dealer,
    Router,
    Pull,
    Push,
    XPub,
}

pub const ALL_TYPES: [Ty; 9] = [
    Ty::Pub,
    Ty::Sub,
    Ty::Req,
    Ty::Rep,
    Ty::Dealer,
    Ty::Router,
    Ty::Pull,
    Ty::Push,
    Ty::XPub,
];

impl Ty {
    pub fn name(&self) -> &'static str {
        match self {
            Ty::Pub => "PUB",
            Ty::Sub => "SUB",
            Ty::Req => "REQ",
            Ty::Rep => "REP",
            Ty::Dealer => "DEALER",
            Ty::Router => "ROUTER",
            Ty::Pull => "PULL",
            Ty::Push => "PUSH",
            Ty::XPub => "XPUB",
        }
    }
    pub fn from_name(s: &str) -> Option<Ty> {
        ALL_TYPES.iter().copied().find(|t| t.name() == s)
    }
    /// every Socket-Type a peer may legally announce to this type (RFC 28-30), the usual one first
    pub fn peer_types(&self) -> &'static [&'static str] {
        match self {
            Ty::Pub => &["SUB", "XSUB"],
            Ty::Sub => &["PUB", "XPUB"],
            Ty::Req => &["REP", "ROUTER"],
            Ty::Rep => &["REQ", "DEALER"],
            Ty::Dealer => &["ROUTER", "REP", "DEALER"],
            Ty::Router => &["DEALER", "REQ", "ROUTER"],
            Ty::Pull => &["PUSH"],
            Ty::Push => &["PULL"],
            Ty::XPub => &["SUB", "XSUB"],
        }
    }
    /// the Socket-Type the raw peers of the scenario in progress announce: the usual one, or - when the job's
    /// parameters say `"peer_variant": n` - the n-th legal one
    pub fn peer_type(&self) -> &'static str {
        let all = self.peer_types();
        all[PEER_VARIANT.with(|v| v.get()) % all.len()]
    }
    pub fn can_recv(&self) -> bool {
        !matches!(self, Ty::Pub | Ty::Push)
    }
    pub fn can_send(&self) -> bool {
        !matches!(self, Ty::Sub | Ty::Pull)
    }
}

pub enum AnySocket {
    Pub(PubSocket),
    Sub(SubSocket),
    Req(ReqSocket),
    Rep(RepSocket),
    Dealer(DealerSocket),
    Router(RouterSocket),
    Pull(PullSocket),
    Push(PushSocket),
    XPub(XPubSocket),
}

thread_local! {
    static PEER_VARIANT: std::cell::Cell<usize> = const { std::cell::Cell::new(0) };
}

/// Wraps a scenario so that its raw peers announce the `variant`-th legal Socket-Type.
pub fn with_peer_variant(variant: usize, scenario: explore::Scenario) -> explore::Scenario {
    if variant == 0 {
        return scenario;
    }
    Arc::new(move || {
        PEER_VARIANT.with(|v| v.set(variant));
        let r = scenario();
        PEER_VARIANT.with(|v| v.set(0));
        r
    })
}

thread_local! {
    /// monitor receivers of the sockets of the execution in progress (kept alive so that every event the
    /// library emits goes through its real emit path; released by `finish`)
    static MONITORS: std::cell::RefCell<Vec<futures::channel::mpsc::Receiver<zeromq::SocketEvent>>> = const { std::cell::RefCell::new(Vec::new()) };
}

impl AnySocket {
    /// Every socket of an E3 scenario has a monitor installed: the event paths (Accepted, AcceptFailed,
    /// Disconnected, ...) are part of what the explored code does.
    pub fn new(ty: Ty, identity: Option<&[u8]>) -> AnySocket {
        let mut s = Self::new_unmonitored(ty, identity);
        let rx = s.monitor();
        MONITORS.with(|m| m.borrow_mut().push(rx));
        s
    }

    pub fn new_unmonitored(ty: Ty, identity: Option<&[u8]>) -> AnySocket {
        let mut o = SocketOptions::default();
        if let Some(id) = identity {
            o.peer_identity(PeerIdentity::try_from(id.to_vec()).expect("identity"));
        }
        match ty {
            Ty::Pub => AnySocket::Pub(PubSocket::with_options(o)),
            Ty::Sub => AnySocket::Sub(SubSocket::with_options(o)),
            Ty::Req => AnySocket::Req(ReqSocket::with_options(o)),
            Ty::Rep => AnySocket::Rep(RepSocket::with_options(o)),
            Ty::Dealer => AnySocket::Dealer(DealerSocket::with_options(o)),
            Ty::Router => AnySocket::Router(RouterSocket::with_options(o)),
            Ty::Pull => AnySocket::Pull(PullSocket::with_options(o)),
            Ty::Push => AnySocket::Push(PushSocket::with_options(o)),
            Ty::XPub => AnySocket::XPub(XPubSocket::with_options(o)),
        }
    }

    pub fn backend(&self) -> Arc<dyn zeromq::MultiPeerBackend> {
        match self {
            AnySocket::Pub(s) => s.backend(),
            AnySocket::Sub(s) => s.backend(),
            AnySocket::Req(s) => s.backend(),
            AnySocket::Rep(s) => s.backend(),
            AnySocket::Dealer(s) => s.backend(),
            AnySocket::Router(s) => s.backend(),
            AnySocket::Pull(s) => s.backend(),
            AnySocket::Push(s) => s.backend(),
            AnySocket::XPub(s) => s.backend(),
        }
    }

    pub async fn recv(&mut self) -> ZmqResult<ZmqMessage> {
        match self {
            AnySocket::Sub(s) => s.recv().await,
            AnySocket::Req(s) => s.recv().await,
            AnySocket::Rep(s) => s.recv().await,
            AnySocket::Dealer(s) => s.recv().await,
            AnySocket::Router(s) => s.recv().await,
            AnySocket::Pull(s) => s.recv().await,
            AnySocket::XPub(s) => s.recv().await,
            AnySocket::Pub(_) | AnySocket::Push(_) => Err(ZmqError::Other("socket type cannot recv")),
        }
    }

    pub async fn send(&mut self, m: ZmqMessage) -> ZmqResult<()> {
        match self {
            AnySocket::Pub(s) => s.send(m).await,
            AnySocket::Req(s) => s.send(m).await,
            AnySocket::Rep(s) => s.send(m).await,
            AnySocket::Dealer(s) => s.send(m).await,
            AnySocket::Router(s) => s.send(m).await,
            AnySocket::Push(s) => s.send(m).await,
            AnySocket::XPub(s) => s.send(m).await,
            AnySocket::Sub(_) | AnySocket::Pull(_) => Err(ZmqError::Other("socket type cannot send")),
        }
    }
}

/// A connection between the library and a raw (harness) peer.
#[derive(Clone, Copy, Debug)]
pub struct RawConn {
    /// raw peer -> library
    pub to_lib: DuctId,
    /// library -> raw peer (wire tap)
    pub from_lib: DuctId,
}

pub fn raw_conn(name: &str) -> RawConn {
    RawConn {
        to_lib: world::new_duct(&format!("{}>lib", name), false),
        from_lib: world::new_duct(&format!("lib>{}", name), false),
    }
}

impl RawConn {
    pub fn halves(&self) -> (PipeReader, PipeWriter) {
        (world::lib_reader(self.to_lib), world::lib_writer(self.from_lib))
    }
    pub fn send(&self, bytes: &[u8]) {
        world::push_data(self.to_lib, bytes);
    }
    pub fn send_cut(&self, bytes: &[u8], cuts: &[usize]) {
        world::push_cut(self.to_lib, bytes, cuts);
    }
    pub fn eof(&self) {
        world::push_chunk(self.to_lib, Chunk::Eof);
    }
    pub fn gate(&self, cond: &str) {
        world::push_chunk(self.to_lib, Chunk::Gate(cond.to_string()));
    }
    pub fn tap(&self) -> Vec<u8> {
        world::tap(self.from_lib)
    }
    /// Reference decode of everything the library wrote (greeting first).
    pub fn tap_decoded(&self) -> rc::Decoded {
        let t = self.tap();
        rc::decode_stream(&t, true)
    }
    /// complete application messages the library wrote on this connection
    pub fn tap_messages(&self) -> Vec<Vec<Vec<u8>>> {
        self.tap_decoded().messages()
    }
    pub fn released(&self) -> bool {
        world::reader_dropped(self.to_lib).is_some() && world::writer_dropped(self.from_lib).is_some()
    }
}

/// One end of a library-to-library connection.
pub struct LibEnd {
    pub rd: DuctId,
    pub wr: DuctId,
}

impl LibEnd {
    pub fn halves(&self) -> (PipeReader, PipeWriter) {
        (world::lib_reader(self.rd), world::lib_writer(self.wr))
    }
}

pub fn lib_conn(name: &str) -> (LibEnd, LibEnd) {
    let ab = world::new_duct(&format!("{}:a>b", name), true);
    let ba = world::new_duct(&format!("{}:b>a", name), true);
    (LibEnd { rd: ba, wr: ab }, LibEnd { rd: ab, wr: ba })
}

pub async fn attach_raw(sock_backend: Arc<dyn zeromq::MultiPeerBackend>, c: RawConn) -> ZmqResult<PeerIdentity> {
    let (r, w) = c.halves();
    zeromq::__verif::attach(sock_backend, r, w).await
}

pub fn show_result(r: &ZmqResult<ZmqMessage>) -> String {
    match r {
        Ok(m) => format!("Ok{}", rc::show_frames(&crate::e1::frames_of(m))),
        Err(e) => format!("Err({})", err_class(e)),
    }
}

pub fn err_class(e: &ZmqError) -> String {
    match e {
        ZmqError::ReturnToSender { reason, message } => {
            format!("ReturnToSender[{}]{}", reason, rc::show_frames(&crate::e1::frames_of(message)))
        }
        ZmqError::Codec(c) => format!("Codec:{}", c),
        ZmqError::Network(n) => format!("Network:{:?}", n.kind()),
        other => format!("{}", other),
    }
}

/// Runs E3 jobs and folds the results into the check's coverage and findings.
pub fn run_jobs_into(ck: &mut Check, jobs: Vec<Job>, blocked_is_violation: bool) -> RunReport {
    let n_jobs = jobs.len();
    // listed known findings of this check do not count towards the explorer's early stops
    explore::set_known_classes(zvcore::evidence::load_known(&ck.id).into_iter().filter_map(|(sig, _)| sig.split_once('/').map(|(_, c)| c.to_string())).collect());
    let rep = explore::run_jobs(
        jobs,
        ck.threads,
        Arc::new(thread_init),
        world::log_snapshot,
        Duration::from_secs(120),
    );
    if rep.hung {
        ck.machinery_error("explorer made no progress for 120 s (hang inside an execution)");
    }
    if rep.results.len() != n_jobs && !rep.hung {
        ck.machinery_error(format!("{} jobs submitted but {} results", n_jobs, rep.results.len()));
    }
    let mut execs = 0u64;
    let mut cps = 0u64;
    let mut outcomes = std::collections::HashSet::new();
    let mut nontrivial = std::collections::HashSet::new();
    let mut truncated = 0u64;
    let mut blocked = 0u64;
    let mut capped = 0u64;
    let mut skipped = 0u64;
    let mut stopped = 0u64;
    let mut max_trace = 0usize;
    let mut max_exec_ms = 0u64;
    let mut by_devs: std::collections::BTreeMap<usize, u64> = Default::default();
    let mut kinds: std::collections::BTreeMap<u8, u64> = Default::default();
    let mut min_bound = usize::MAX;
    let mut max_bound = 0usize;
    let mut by_bound: std::collections::BTreeMap<usize, u64> = Default::default();
    for r in &rep.results {
        execs += r.execs;
        cps += r.choice_points;
        truncated += r.truncated;
        blocked += r.blocked;
        if r.capped {
            capped += 1;
        }
        if r.skipped {
            skipped += 1;
            continue;
        }
        if r.stopped_after_violations {
            stopped += 1;
        }
        min_bound = min_bound.min(r.bound_completed);
        max_bound = max_bound.max(r.bound_completed);
        *by_bound.entry(r.bound_completed).or_insert(0) += 1;
        max_trace = max_trace.max(r.max_trace);
        max_exec_ms = max_exec_ms.max(r.max_exec_ms);
        for (k, v) in &r.execs_by_devs {
            *by_devs.entry(*k).or_insert(0) += v;
        }
        for (k, v) in &r.kinds {
            *kinds.entry(*k).or_insert(0) += v;
        }
        // outcome hashes are scoped by job so that equal logs of different scenarios stay distinct
        let jh = rc::fnv(r.name.as_bytes());
        for o in &r.outcomes {
            outcomes.insert(o ^ jh);
        }
        for o in &r.nontrivial_outcomes {
            nontrivial.insert(o ^ jh);
        }
        for e in &r.machinery_errors {
            ck.machinery_error(e.clone());
        }
        for (class, v) in &r.violations {
            ck.finding(
                class.clone(),
                format!("{} [scenario {} after {} deviation(s)]", v.message, v.job, v.deviations),
                json!({
                    "engine": "E3",
                    "job": v.job,
                    "params": v.params,
                    "choices": v.choices.iter().map(|c| json!([c.kind, c.n, c.taken])).collect::<Vec<_>>(),
                    "deviations": v.deviations,
                    "log": v.log,
                }),
            );
        }
        if let Some((tr, log)) = &r.sample {
            if ck.samples.len() < 3 {
                ck.sample(json!({
                    "scenario": r.name,
                    "choices_taken": tr.iter().map(|c| c.taken).collect::<Vec<_>>(),
                    "observation_log": log.iter().take(40).collect::<Vec<_>>(),
                }));
            }
        }
    }
    let _ = blocked_is_violation;
    ck.cov_add("e3_scenarios", n_jobs as u64);
    ck.cov_add("e3_executions", execs);
    ck.cov_add("e3_choice_points", cps);
    ck.cov_add("e3_truncated_at_horizon", truncated);
    ck.cov_add("e3_thread_blocked_executions", blocked);
    ck.cov_add("e3_scenarios_capped", capped);
    ck.cov_add("e3_scenarios_not_run_after_a_dozen_failing_ones", skipped);
    ck.cov_add("e3_scenarios_stopped_after_8_failing_executions", stopped);
    ck.cov_add("e3_distinct_outcomes", outcomes.len() as u64);
    ck.cov_add("e3_distinct_nontrivial_outcomes", nontrivial.len() as u64);
    ck.cov("e3_max_choice_points_in_one_execution", max_trace as u64);
    let prev = ck.coverage.get("e3_longest_execution_ms").and_then(|v| v.as_u64()).unwrap_or(0);
    ck.cov("e3_longest_execution_ms", prev.max(max_exec_ms));
    ck.cov("e3_execution_deadline_s", 90u64);
    ck.cov(
        "e3_executions_by_deviations",
        json!(by_devs.iter().map(|(k, v)| (k.to_string(), *v)).collect::<std::collections::BTreeMap<_, _>>()),
    );
    ck.cov(
        "e3_choice_points_by_kind",
        json!(kinds
            .iter()
            .map(|(k, v)| (explore::kind::name(*k).to_string(), *v))
            .collect::<std::collections::BTreeMap<_, _>>()),
    );
    if min_bound != usize::MAX {
        ck.cov("e3_deviation_bound_completed", min_bound as u64);
        ck.cov("e3_deviation_bound_completed_max", max_bound as u64);
        ck.cov(
            "e3_scenarios_by_completed_deviation_bound",
            json!(by_bound.iter().map(|(k, v)| (k.to_string(), *v)).collect::<std::collections::BTreeMap<_, _>>()),
        );
    }
    rep
}

/// Standard closing of a scenario: stash the verdict, tear the world down.
pub fn finish(mut v: Verdict) -> Verdict {
    for l in world::livelocks() {
        if l.starts_with("yield-loop:") {
            v.violate("livelock/loop-without-suspension", l);
        } else {
            v.violate("livelock/cooperative-yield", l);
        }
    }
    v.log = world::log_snapshot();
    for p in world::panics() {
        // a panic in library code is always recorded in the log; whether it is a
        // violation of the property at hand is the scenario's decision
        if !v.log.iter().any(|l| l.contains(&p)) {
            v.log.push(format!("PANIC {}", p));
        }
    }
    explore::stash_verdict(&v);
    world::teardown();
    MONITORS.with(|m| m.borrow_mut().clear());
    v
}

/// Wraps a scenario so that its raw peers announce an empty identity (1) or none (2) instead of the ones the scenario
/// gives them (job parameter `"peers_anon"`).
pub fn with_anon_peers(mode: u8, scenario: explore::Scenario) -> explore::Scenario {
    if mode == 0 {
        return scenario;
    }
    Arc::new(move || {
        rc::set_identity_mode(mode);
        let r = scenario();
        rc::set_identity_mode(0);
        r
    })
}

/// A copy of `j` whose peers announce an empty identity / none. Only for scenarios whose oracle does not look at
/// the peers' identities.
pub fn anon_copy(j: &Job, mode: u8) -> Job {
    let mut params = j.params.clone();
    params["peers_anon"] = serde_json::json!(mode);
    Job { name: format!("{}/peers-anon{}", j.name, mode), params, scenario: with_anon_peers(mode, j.scenario.clone()), bound: j.bound, max_execs: j.max_execs, initial: j.initial.clone(), on_blocked: j.on_blocked.clone() }
}

pub fn job(
    name: String,
    params: serde_json::Value,
    bound: usize,
    max_execs: u64,
    scenario: impl Fn() -> Verdict + Send + Sync + 'static,
) -> Job {
    let variant = params["peer_variant"].as_u64().unwrap_or(0) as usize;
    let anon_mode = params["peers_anon"].as_u64().unwrap_or(0) as u8;
    Job {
        name,
        params,
        scenario: with_anon_peers(anon_mode, with_peer_variant(variant, Arc::new(scenario))),
        bound,
        max_execs,
        initial: Vec::new(),
        on_blocked: Arc::new(|log: Vec<String>| {
            // default: an execution in which library code blocks its (only) executor thread for ever - a
            // synchronous wait for a lock that a suspended task, or the caller itself, holds - is a
            // violation of whatever the scenario was checking: the operation never returns and nothing
            // else on that socket makes progress (C17 overrides this with a narrower class)
            let mut v = Verdict::default();
            let last = log.iter().rev().take(3).rev().cloned().collect::<Vec<_>>().join(" | ");
            v.violate(
                "thread-blocked-forever",
                format!("library code blocked the executor thread for ever (synchronous wait for a lock held by a suspended task or by the caller itself); last observations: {}", last),
            );
            v.outcome_hash = 0x0b10c;
            v.log = log;
            v
        }),
    }
}

/// Makes the raw peer on `c` an echo peer: every complete message the library
/// writes to it is sent back verbatim (REP-like behaviour towards REQ/DEALER).
pub fn make_echo_peer(c: RawConn) {
    let to_lib = c.to_lib;
    let mut answered = 0usize;
    world::set_sink(
        c.from_lib,
        Box::new(move |tap: &[u8]| {
            let msgs = rc::decode_stream(tap, true).messages();
            let mut out = Vec::new();
            while answered < msgs.len() {
                out.push((to_lib, Chunk::Data(rc::encode_message(&msgs[answered]))));
                answered += 1;
            }
            out
        }),
    );
}

pub fn ok_or_err<T>(r: &ZmqResult<T>) -> String {
    match r {
        Ok(_) => "Ok".to_string(),
        Err(e) => format!("Err({})", err_class(e)),
    }
}

/// Canonical form of the observation log for outcome hashing: step stamps and
/// environment bookkeeping lines removed.
pub fn canon_log() -> Vec<String> {
    world::log_snapshot()
        .iter()
        .filter(|l| !l.contains(" env ") && !l.contains(" nested "))
        .map(|l| l.splitn(2, ' ').nth(1).unwrap_or("").to_string())
        .collect()
}

macro_rules! each_socket {
    ($self:expr, $s:ident => $body:expr) => {
        match $self {
            AnySocket::Pub($s) => $body,
            AnySocket::Sub($s) => $body,
            AnySocket::Req($s) => $body,
            AnySocket::Rep($s) => $body,
            AnySocket::Dealer($s) => $body,
            AnySocket::Router($s) => $body,
            AnySocket::Pull($s) => $body,
            AnySocket::Push($s) => $body,
            AnySocket::XPub($s) => $body,
        }
    };
}

impl AnySocket {
    pub async fn bind(&mut self, ep: &str) -> ZmqResult<zeromq::Endpoint> {
        each_socket!(self, s => s.bind(ep).await)
    }
    pub async fn connect(&mut self, ep: &str) -> ZmqResult<()> {
        each_socket!(self, s => s.connect(ep).await)
    }
    pub async fn unbind(&mut self, ep: zeromq::Endpoint) -> ZmqResult<()> {
        each_socket!(self, s => s.unbind(ep).await)
    }
    pub async fn close(self) -> Vec<ZmqError> {
        each_socket!(self, s => s.close().await)
    }
    pub fn bound(&mut self) -> Vec<zeromq::Endpoint> {
        each_socket!(self, s => s.binds().keys().cloned().collect())
    }
    pub fn monitor(&mut self) -> futures::channel::mpsc::Receiver<zeromq::SocketEvent> {
        each_socket!(self, s => s.monitor())
    }
    pub async fn subscribe_all(&mut self) {
        if let AnySocket::Sub(s) = self {
            let _ = s.subscribe("").await;
        }
    }
}
