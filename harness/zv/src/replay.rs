//! Replays one recorded E3 execution (a choice list) without the explorer.

use serde_json::Value;
use zvcore::explore::{ChoicePoint, Scenario};

pub fn choices_of(v: &Value) -> Vec<ChoicePoint> {
    v.as_array()
        .map(|a| {
            a.iter()
                .map(|c| ChoicePoint {
                    kind: c[0].as_u64().unwrap_or(0) as u8,
                    n: c[1].as_u64().unwrap_or(0) as u16,
                    taken: c[2].as_u64().unwrap_or(0) as u16,
                })
                .collect()
        })
        .unwrap_or_default()
}

/// `build` maps the recorded scenario parameters back to the scenario closure.
pub fn replay_e3(file: &Value, build: impl Fn(&Value) -> Option<Scenario>) -> i32 {
    let r = &file["replay"];
    let Some(scn) = build(&r["params"]) else {
        eprintln!("MACHINERY: cannot rebuild scenario from params {}", r["params"]);
        return 2;
    };
    let choices = choices_of(&r["choices"]);
    let mut job = crate::e3::job(
        r["job"].as_str().unwrap_or("replay").to_string(),
        r["params"].clone(),
        0,
        4,
        || Default::default(),
    );
    job.scenario = crate::e3::with_anon_peers(r["params"]["peers_anon"].as_u64().unwrap_or(0) as u8, crate::e3::with_peer_variant(r["params"]["peer_variant"].as_u64().unwrap_or(0) as usize, scn));
    job.initial = choices;
    job.on_blocked = std::sync::Arc::new(|log: Vec<String>| {
        let mut v = zvcore::explore::Verdict::default();
        v.violate("thread-blocked", "the execution ended with the only thread about to park for ever on a synchronous lock wait (saa::Lock::lock_sync) whose owner is a suspended task of the same thread");
        v.log = log;
        v
    });
    let mut ck = zvcore::evidence::Check::new("replay", zvcore::evidence::Tier::Quick, "model_checking");
    ck.threads = 1;
    let rep = crate::e3::run_jobs_into(&mut ck, vec![job], true);
    for m in &ck.machinery {
        eprintln!("MACHINERY: {}", m);
    }
    if !ck.machinery.is_empty() {
        return 2;
    }
    let mut code = 0;
    for res in &rep.results {
        if let Some((_, log)) = &res.sample {
            for l in log {
                println!("  {}", l);
            }
        }
        for (class, v) in &res.violations {
            println!("replay: VIOLATION {}: {}", class, v.message);
            for l in &v.log {
                println!("  {}", l);
            }
            code = 1;
        }
        if res.blocked > 0 {
            println!("replay: execution ended THREAD-BLOCKED");
        }
    }
    if code == 0 {
        println!("replay: holds on this execution");
    }
    code
}
