//! C10 — round-robin senders deliver each message to exactly one peer, in rotation (E3).

use crate::e1::{frames_of, msg};
use crate::e3::{self, AnySocket, Ty};
use serde_json::{json, Value};
use zeromq::ZmqError;
use zvcore::evidence::{Check, Tier};
use zvcore::explore::Verdict;
use zvcore::refcodec as rc;
use zvcore::world::{self, WMode};

#[derive(Clone, Debug)]
struct Params {
    ty: Ty,
    peers: usize,
    /// 0: one short frame, 1: three frames incl. an empty one, 2: 200 kB frame
    shape: u8,
    /// write mode of peer 0's connection: 0 accept all, 1 a few bytes per write, 2 stall then resume (scripted events)
    wmode: u8,
    /// sends issued while the peers are still joining
    early_sends: usize,
    policy: u8,
    /// what the peers announce: 0 = distinct identities, 1 = an Identity property of length 0 (what libzmq peers without
    /// a routing id send), 2 = no Identity property
    anon: u8,
}

fn message(shape: u8, i: usize) -> Vec<Vec<u8>> {
    match shape {
        0 => vec![format!("m{}", i).into_bytes()],
        // (an empty frame in the middle and, with the same content, at the very end; the tag twice)
        1 => vec![format!("m{}", i).into_bytes(), vec![], b"third".to_vec(), format!("m{}", i).into_bytes(), vec![]],
        _ => vec![format!("m{}", i).into_bytes(), rc::pattern(200_000, i as u64, 0)],
    }
}

/// application bytes on a tap = everything after the library's greeting + READY
fn app_part(tap: &[u8]) -> &[u8] {
    let d = rc::decode_stream(tap, true);
    for (it, end) in &d.items {
        if matches!(it, rc::RItem::Command { .. }) {
            return &tap[*end..];
        }
    }
    &[]
}

#[derive(Clone, Debug)]
struct SendObs {
    idx: usize,
    ok: bool,
    err: String,
    returned_intact: Option<bool>,
    /// growth of each peer's application bytes during the call
    grew: Vec<usize>,
    /// complete messages on each wire right at return
    msgs_at_return: Vec<usize>,
    trailing_partial: Vec<usize>,
    joined_at_call: usize,
    stable: bool,
    want_len: usize,
}

fn scenario(pr: &Params) -> Verdict {
    world::reset(world::WorldCfg { nested_env: true, yields: true, select: false, policy: pr.policy, coop: false });
    let ty = pr.ty;
    let n = pr.peers;
    let conns: Vec<e3::RawConn> = (0..n).map(|p| e3::raw_conn(&format!("P{}", p))).collect();
    for (p, c) in conns.iter().enumerate() {
        let idp = format!("ID{}", p);
        c.send(&rc::handshake(ty.peer_type(), match pr.anon { 0 => Some(idp.as_bytes()), 1 => Some(&b""[..]), _ => None }));
        if ty == Ty::Req {
            e3::make_echo_peer(*c);
        }
        if p == 0 {
            match pr.wmode {
                1 => world::set_wmode(c.from_lib, WMode::Limit(if pr.shape == 2 { 50_000 } else { 5 })),
                2 => world::script_wmodes(c.from_lib, &[WMode::Stalled, WMode::Open]),
                _ => {}
            }
        }
    }
    let sock = AnySocket::new(ty, None);
    let be = sock.backend();
    let joined = std::rc::Rc::new(std::cell::Cell::new(0usize));
    for (p, c) in conns.iter().enumerate() {
        let be = be.clone();
        let c = *c;
        let joined = joined.clone();
        world::spawn_app(&format!("attach{}", p), async move {
            let r = e3::attach_raw(be, c).await;
            world::log(format!("attach(P{}) -> {}", p, e3::ok_or_err(&r)));
            if r.is_ok() {
                joined.set(joined.get() + 1);
                if joined.get() == n {
                    world::set_cond("all-joined");
                }
            }
        });
    }
    if n == 0 {
        world::set_cond("all-joined");
    }
    let obs = std::rc::Rc::new(std::cell::RefCell::new(Vec::<SendObs>::new()));
    let obs2 = obs.clone();
    let conns2 = conns.clone();
    let joined2 = joined.clone();
    let (shape, early) = (pr.shape, pr.early_sends);
    world::spawn_app("sender", async move {
        let mut sock = sock;
        let total = early + n + 2;
        for i in 0..total {
            // time passes between two calls of the application: everything else may run here
            if i > 0 {
                world::yield_now().await;
            }
            let stable = i >= early;
            if i == early {
                world::wait_cond("all-joined").await;
            }
            let m = message(shape, i);
            let mut wire_m = m.clone();
            if ty == Ty::Req {
                wire_m.insert(0, vec![]);
            }
            let before: Vec<usize> = conns2.iter().map(|c| app_part(&c.tap()).len()).collect();
            let jc = joined2.get();
            let r = sock.send(msg(&m)).await;
            let taps: Vec<Vec<u8>> = conns2.iter().map(|c| c.tap()).collect();
            let grew: Vec<usize> = taps.iter().zip(&before).map(|(t, b)| app_part(t).len() - b).collect();
            let decs: Vec<rc::Decoded> = taps.iter().map(|t| rc::decode_stream(t, true)).collect();
            let (ok, err, intact) = match &r {
                Ok(()) => (true, String::new(), None),
                Err(ZmqError::ReturnToSender { message, .. }) => (false, "ReturnToSender".to_string(), Some(frames_of(message) == m)),
                Err(e) => (false, e3::err_class(e), None),
            };
            world::log(format!("send#{} -> {} grew {:?}", i, if ok { "Ok".to_string() } else { err.clone() }, grew));
            obs2.borrow_mut().push(SendObs {
                idx: i,
                ok,
                err,
                returned_intact: intact,
                grew,
                msgs_at_return: decs.iter().map(|d| d.messages().len()).collect(),
                trailing_partial: decs.iter().zip(&taps).map(|(d, t)| t.len() - d.consumed).collect(),
                joined_at_call: jc,
                stable,
                want_len: rc::encode_message(&wire_m).len(),
            });
            if ty == Ty::Req && ok {
                let rr = world::until_idle(sock.recv()).await;
                if !matches!(rr, Some(Ok(_))) {
                    world::log(format!("recv after send#{} -> {:?}", i, rr.as_ref().map(e3::show_result)));
                    break;
                }
            }
        }
        world::set_cond("sender-done");
        world::wait_cond("never").await;
        drop(sock);
    });
    let end = world::run(e3::HORIZON * (4 + n as u64 / 4));
    let mut v = Verdict::default();
    v.truncated = end != world::RunEnd::Quiescent;
    let what = format!("{} with {} peers, message shape {}, write mode {} on peer 0, {} early sends, policy {}", ty.name(), n, pr.shape, pr.wmode, pr.early_sends, pr.policy);
    for p in world::panics() {
        v.violate("panic", format!("{}: {}", what, p));
    }
    if v.truncated {
        v.violate("spin", format!("{}: no quiescence", what));
    }
    let obs = obs.borrow().clone();
    let mut targets: Vec<Option<usize>> = Vec::new();
    for o in &obs {
        if o.ok {
            let hit: Vec<usize> = o.grew.iter().enumerate().filter(|(_, g)| **g > 0).map(|(p, _)| p).collect();
            if hit.len() != 1 {
                v.violate(
                    if hit.is_empty() { "ok-but-nothing-written" } else { "written-to-several-peers" },
                    format!("{}: send #{} returned Ok; application bytes grew by {:?} per peer (message is {} bytes on the wire)", what, o.idx, o.grew, o.want_len),
                );
                targets.push(None);
                continue;
            }
            let p = hit[0];
            if o.grew[p] != o.want_len || o.trailing_partial[p] != 0 {
                v.violate(
                    "returned-before-fully-written",
                    format!("{}: send #{} returned Ok when {} of the message's {} bytes had been accepted by peer {}'s connection ({} trailing partial bytes)", what, o.idx, o.grew[p], o.want_len, p, o.trailing_partial[p]),
                );
            }
            targets.push(Some(p));
        } else {
            targets.push(None);
            if o.grew.iter().any(|g| *g != 0) {
                v.violate("failed-send-wrote-bytes", format!("{}: send #{} failed ({}) but wires grew by {:?}", what, o.idx, o.err, o.grew));
            }
            if o.err == "ReturnToSender" {
                if o.returned_intact == Some(false) {
                    v.violate("returned-message-not-intact", format!("{}: send #{} handed back a different message", what, o.idx));
                }
                if o.joined_at_call > 0 && o.stable {
                    v.violate("no-peer-error-with-peers", format!("{}: send #{} failed with ReturnToSender although {} peers are connected", what, o.idx, o.joined_at_call));
                }
            } else if n == 0 {
                v.violate("no-peer-error-kind", format!("{}: send #{} without peers failed with {} which does not hand the message back", what, o.idx, o.err));
            } else if o.stable && pr.wmode != 2 {
                v.violate("send-failed", format!("{}: send #{} failed with {} on healthy connections", what, o.idx, o.err));
            }
        }
    }
    if n == 0 && obs.iter().any(|o| o.ok) {
        v.violate("ok-without-peers", format!("{}: a send succeeded with no peer connected", what));
    }
    // strict rotation over the stable phase
    let stable_targets: Vec<usize> = obs.iter().zip(&targets).filter(|(o, _)| o.stable && o.ok).filter_map(|(_, t)| *t).collect();
    if n >= 1 && stable_targets.len() >= n {
        for w in stable_targets.windows(n) {
            let mut s = w.to_vec();
            s.sort();
            s.dedup();
            if s.len() != n {
                v.violate("rotation", format!("{}: with {} stable peers, consecutive successful sends went to peers {:?} (targets in the stable phase: {:?})", what, n, w, stable_targets));
                break;
            }
        }
    }
    if !v.truncated && world::panics().is_empty() && !world::cond("sender-done") && v.violations.is_empty() {
        v.violate("sender-stuck", format!("{}: the sender did not finish (a send never returned although every connection eventually accepts data)", what));
    }
    let canon: Vec<String> = obs.iter().zip(&targets).map(|(o, t)| format!("{}:{}:{:?}", o.idx, o.ok, t)).collect();
    v.outcome_hash = rc::fnv(canon.join("|").as_bytes());
    e3::finish(v)
}

/// A peer with an announced identity goes away (its writes fail) and a new connection announces
/// the same identity: afterwards the rotation must again be strict (one turn per connected peer).
fn reconnect_scenario(ty: Ty, observed: bool, policy: u8) -> Verdict {
    world::reset(world::WorldCfg { nested_env: false, yields: true, select: false, policy, coop: false });
    let a1 = e3::raw_conn("A1");
    let b = e3::raw_conn("B");
    let a2 = e3::raw_conn("A2");
    a1.send(&rc::handshake(ty.peer_type(), Some(b"A")));
    b.send(&rc::handshake(ty.peer_type(), Some(b"B")));
    a2.send(&rc::handshake(ty.peer_type(), Some(b"A")));
    if ty == Ty::Req {
        for c in [a1, b, a2] {
            e3::make_echo_peer(c);
        }
    }
    let sock = AnySocket::new(ty, None);
    let obs = std::rc::Rc::new(std::cell::RefCell::new(Vec::<String>::new()));
    let obs2 = obs.clone();
    world::spawn_app("app", async move {
        let mut sock = sock;
        let _ = e3::attach_raw(sock.backend(), a1).await;
        let _ = e3::attach_raw(sock.backend(), b).await;
        // two sends while both are healthy
        for i in 0..2 {
            let r = sock.send(msg(&[format!("warm{}", i).into_bytes()])).await;
            obs2.borrow_mut().push(format!("warm{} -> {}", i, e3::ok_or_err(&r)));
            if ty == Ty::Req && r.is_ok() {
                let _ = world::until_idle(sock.recv()).await;
            }
        }
        // the first peer's connection dies
        world::set_wmode(a1.from_lib, WMode::Fail(std::io::ErrorKind::BrokenPipe));
        if observed {
            // the socket notices through failing sends before the peer comes back
            for i in 0..2 {
                let r = sock.send(msg(&[format!("notice{}", i).into_bytes()])).await;
                obs2.borrow_mut().push(format!("notice{} -> {}", i, e3::ok_or_err(&r)));
                if ty == Ty::Req && r.is_ok() {
                    let _ = world::until_idle(sock.recv()).await;
                }
            }
        }
        // it reconnects under the same identity
        let r = e3::attach_raw(sock.backend(), a2).await;
        obs2.borrow_mut().push(format!("reattach -> {}", e3::ok_or_err(&r)));
        // from now on: two connected peers, strict alternation expected (allowing failures on the dead connection to flush out first)
        let mut targets = Vec::new();
        for i in 0..8 {
            let (ta, tb) = (app_part(&a2.tap()).len(), app_part(&b.tap()).len());
            let r = sock.send(msg(&[format!("m{}", i).into_bytes()])).await;
            let (ga, gb) = (app_part(&a2.tap()).len() - ta, app_part(&b.tap()).len() - tb);
            let t = if r.is_err() { 'x' } else if ga > 0 && gb == 0 { 'A' } else if gb > 0 && ga == 0 { 'B' } else { '?' };
            targets.push(t);
            if ty == Ty::Req && r.is_ok() {
                let _ = world::until_idle(sock.recv()).await;
            }
        }
        obs2.borrow_mut().push(format!("targets {}", targets.iter().collect::<String>()));
        world::wait_cond("never").await;
        drop(sock);
    });
    let end = world::run(e3::HORIZON);
    let mut v = Verdict::default();
    v.truncated = end != world::RunEnd::Quiescent;
    let what = format!("{}: peer A goes away ({}), a new connection announces identity A again", ty.name(), if observed { "noticed through failing sends" } else { "not yet noticed" });
    for p in world::panics() {
        v.violate("panic", format!("{}: {}", what, p));
    }
    let o = obs.borrow().clone();
    for l in &o {
        world::log(l.clone());
    }
    if let Some(t) = o.iter().find_map(|l| l.strip_prefix("targets ")) {
        // drop leading failures (the dead connection being flushed out), then the last 4 successful sends must alternate
        let ok: Vec<char> = t.chars().filter(|c| *c != 'x').collect();
        let tail: Vec<char> = ok.iter().rev().take(4).rev().copied().collect();
        let alternates = tail.len() == 4 && tail.windows(2).all(|w| w[0] != w[1]) && !tail.contains(&'?');
        let late_failures = t.chars().skip(3).any(|c| c == 'x');
        if !alternates || late_failures {
            v.violate(
                format!("rotation-after-reconnect/{}", if observed { "observed" } else { "unobserved" }),
                format!("{}: the next 8 sends went to {} (A = the new connection, B = the other peer, x = failed): with two connected peers consecutive successful sends must alternate", what, t),
            );
        }
    } else if world::panics().is_empty() && !v.truncated {
        v.violate("reconnect/app-stuck", format!("{}: {:?}", what, o));
    }
    v.outcome_hash = rc::fnv(o.join("|").as_bytes());
    e3::finish(v)
}

/// Peers are lost (their writes fail, so the socket notices through a failing send) and sends go on:
/// a send to a surviving peer must put exactly the message's encoding on that wire, and once nobody
/// is left the send must hand the message back intact.
fn loss_scenario(ty: Ty, peers: usize, policy: u8, kind: u8) -> Verdict {
    let ek = [std::io::ErrorKind::BrokenPipe, std::io::ErrorKind::ConnectionReset, std::io::ErrorKind::TimedOut][kind as usize % 3];
    world::reset(world::WorldCfg { nested_env: false, yields: true, select: false, policy, coop: false });
    let conns: Vec<e3::RawConn> = (0..peers).map(|p| e3::raw_conn(&format!("P{}", p))).collect();
    for (p, c) in conns.iter().enumerate() {
        c.send(&rc::handshake(ty.peer_type(), Some(format!("ID{}", p).as_bytes())));
        if ty == Ty::Req {
            e3::make_echo_peer(*c);
        }
    }
    let sock = AnySocket::new(ty, None);
    let viol = std::rc::Rc::new(std::cell::RefCell::new(Vec::<(String, String)>::new()));
    let viol2 = viol.clone();
    let conns2 = conns.clone();
    world::spawn_app("app", async move {
        let mut sock = sock;
        for c in &conns2 {
            let _ = e3::attach_raw(sock.backend(), *c).await;
        }
        let mut alive: Vec<bool> = vec![true; conns2.len()];
        let mut i = 0usize;
        // kill the peers one after the other, sending a few messages after each loss
        for kill in 0..=conns2.len() {
            if kill > 0 {
                world::set_wmode(conns2[kill - 1].from_lib, WMode::Fail(ek));
                alive[kill - 1] = false;
            }
            let n_alive = alive.iter().filter(|a| **a).count();
            let mut failures = 0;
            for _ in 0..(n_alive + 3) {
                i += 1;
                let m = vec![format!("m{}", i).into_bytes(), vec![], b"z".to_vec()];
                let mut wire_m = m.clone();
                if ty == Ty::Req {
                    wire_m.insert(0, vec![]);
                }
                let want = rc::encode_message(&wire_m);
                let before: Vec<Vec<u8>> = conns2.iter().map(|c| app_part(&c.tap()).to_vec()).collect();
                let r = sock.send(msg(&m)).await;
                let after: Vec<Vec<u8>> = conns2.iter().map(|c| app_part(&c.tap()).to_vec()).collect();
                match &r {
                    Ok(()) => {
                        let grown: Vec<usize> = (0..conns2.len()).filter(|p| after[*p].len() > before[*p].len()).collect();
                        if grown.len() != 1 || !alive[grown[0]] || after[grown[0]][before[grown[0]].len()..] != want[..] {
                            viol2.borrow_mut().push((
                                "after-peer-loss/wire-not-exactly-the-message".into(),
                                format!("send #{} after {} peer(s) were lost returned Ok; wires grew on peers {:?} by {:?} bytes; expected exactly the {}-byte encoding {} on one live peer", i, kill, grown, grown.iter().map(|p| after[*p].len() - before[*p].len()).collect::<Vec<_>>(), want.len(), rc::hex(&want[..want.len().min(24)])),
                            ));
                            return;
                        }
                        if ty == Ty::Req {
                            let rr = world::until_idle(sock.recv()).await;
                            match rr {
                                Some(Ok(reply)) if frames_of(&reply) == m => {}
                                other => {
                                    viol2.borrow_mut().push(("after-peer-loss/reply".into(), format!("send #{}: echo came back as {:?}", i, other.as_ref().map(e3::show_result))));
                                    return;
                                }
                            }
                        }
                    }
                    Err(ZmqError::ReturnToSender { message, .. }) => {
                        if frames_of(message) != m {
                            viol2.borrow_mut().push((
                                "after-peer-loss/returned-message-not-intact".into(),
                                format!("send #{} with {} live peer(s) failed with ReturnToSender, but the message handed back is {} instead of {}", i, n_alive, rc::show_frames(&frames_of(message)), rc::show_frames(&m)),
                            ));
                            return;
                        }
                        if n_alive > 0 {
                            viol2.borrow_mut().push(("after-peer-loss/no-peer-error-with-live-peers".into(), format!("send #{} failed with ReturnToSender although {} peer(s) are alive", i, n_alive)));
                            return;
                        }
                    }
                    Err(e) => {
                        failures += 1;
                        if failures > (conns2.len() - n_alive) {
                            viol2.borrow_mut().push(("after-peer-loss/too-many-failed-sends".into(), format!("send #{}: {} sends failed ({}) with only {} dead peer(s) to notice", i, failures, e3::err_class(e), conns2.len() - n_alive)));
                            return;
                        }
                        if n_alive == 0 && failures > conns2.len() {
                            return;
                        }
                    }
                }
            }
        }
        world::set_cond("done");
        world::wait_cond("never").await;
        drop(sock);
    });
    let end = world::run(e3::HORIZON);
    let mut v = Verdict::default();
    v.truncated = end != world::RunEnd::Quiescent;
    let what = format!("{} with {} peers that die one after the other (writes failing with {:?})", ty.name(), peers, ek);
    for p in world::panics() {
        v.violate("panic", format!("{}: {}", what, p));
    }
    for (c, m) in viol.borrow().iter() {
        v.violate(c.clone(), format!("{}: {}", what, m));
    }
    if viol.borrow().is_empty() && world::panics().is_empty() && !v.truncated && !world::cond("done") {
        v.violate("after-peer-loss/app-stuck", format!("{}: the sender did not finish", what));
    }
    v.outcome_hash = rc::fnv(e3::canon_log().join("|").as_bytes());
    e3::finish(v)
}

/// Several peers are lost BETWEEN two sends (not one at a time with sends in between): `peers` connections, one full
/// round of sends, then `lost` of them go (the first ones or the last ones attached), `how`: 0 = their writes start
/// failing (found out by sending), 1 = they close cleanly and a recv sees every end (DEALER only), 2 = they are reset
/// and a recv sees it (DEALER only). Afterwards 2 x peers sends: with a live peer left every send that the socket had
/// no way to know better about succeeds on exactly one LIVE connection (`how` 0: at most one failed send per lost
/// peer); with none left every send hands the message back.
fn mass_loss_scenario(ty: Ty, peers: usize, lost: usize, last_ones: bool, how: u8, policy: u8) -> Verdict {
    world::reset(world::WorldCfg { nested_env: false, yields: true, select: false, policy, coop: false });
    let conns: Vec<e3::RawConn> = (0..peers).map(|p| e3::raw_conn(&format!("P{}", p))).collect();
    for (p, c) in conns.iter().enumerate() {
        c.send(&rc::handshake(ty.peer_type(), Some(format!("ID{}", p).as_bytes())));
        if ty == Ty::Req {
            e3::make_echo_peer(*c);
        }
    }
    let sock = AnySocket::new(ty, None);
    let viol = std::rc::Rc::new(std::cell::RefCell::new(Vec::<(String, String)>::new()));
    let viol2 = viol.clone();
    let conns2 = conns.clone();
    let gone: Vec<usize> = if last_ones { (peers - lost..peers).collect() } else { (0..lost).collect() };
    let gone2 = gone.clone();
    world::spawn_app("app", async move {
        let mut sock = sock;
        for c in &conns2 {
            let _ = e3::attach_raw(sock.backend(), *c).await;
        }
        let mut i = 0usize;
        let mut failures = 0usize;
        for phase in 0..2 {
            if phase == 1 {
                for p in &gone2 {
                    match how {
                        0 => world::set_wmode(conns2[*p].from_lib, WMode::Fail(std::io::ErrorKind::BrokenPipe)),
                        1 => {
                            conns2[*p].eof();
                            world::set_wmode(conns2[*p].from_lib, WMode::Fail(std::io::ErrorKind::BrokenPipe));
                        }
                        _ => {
                            world::push_chunk(conns2[*p].to_lib, world::Chunk::Err(std::io::ErrorKind::ConnectionReset));
                            world::set_wmode(conns2[*p].from_lib, WMode::Fail(std::io::ErrorKind::ConnectionReset));
                        }
                    }
                }
                if how != 0 {
                    // the application receives: every end is seen (one error per reset at most)
                    for _ in 0..(2 * gone2.len() + 2) {
                        if world::until_idle(sock.recv()).await.is_none() {
                            break;
                        }
                    }
                }
            }
            let alive: Vec<bool> = (0..conns2.len()).map(|p| phase == 0 || !gone2.contains(&p)).collect();
            let n_alive = alive.iter().filter(|a| **a).count();
            for _ in 0..(if phase == 0 { conns2.len() } else { 2 * conns2.len() }) {
                i += 1;
                world::yield_now().await;
                let m = vec![format!("m{}", i).into_bytes(), vec![], b"z".to_vec(), vec![]];
                let mut wire_m = m.clone();
                if ty == Ty::Req {
                    wire_m.insert(0, vec![]);
                }
                let want = rc::encode_message(&wire_m);
                let before: Vec<Vec<u8>> = conns2.iter().map(|c| app_part(&c.tap()).to_vec()).collect();
                let r = sock.send(msg(&m)).await;
                let after: Vec<Vec<u8>> = conns2.iter().map(|c| app_part(&c.tap()).to_vec()).collect();
                match &r {
                    Ok(()) => {
                        let grown: Vec<usize> = (0..conns2.len()).filter(|p| after[*p].len() > before[*p].len()).collect();
                        if grown.len() != 1 || !alive[grown[0]] || after[grown[0]][before[grown[0]].len()..] != want[..] {
                            viol2.borrow_mut().push(("after-mass-loss/wire-not-exactly-the-message".into(), format!("send #{} returned Ok; wires grew on peers {:?}; expected exactly the message on one live peer (live: {:?})", i, grown, alive)));
                            return;
                        }
                        if ty == Ty::Req {
                            match world::until_idle(sock.recv()).await {
                                Some(Ok(reply)) if frames_of(&reply) == m => {}
                                other => {
                                    viol2.borrow_mut().push(("after-mass-loss/reply".into(), format!("send #{}: echo came back as {:?}", i, other.as_ref().map(e3::show_result))));
                                    return;
                                }
                            }
                        }
                    }
                    Err(e) => {
                        failures += 1;
                        let handed_back = matches!(e, ZmqError::ReturnToSender { message, .. } if frames_of(message) == m);
                        if n_alive == 0 {
                            if !handed_back && failures > gone2.len() {
                                viol2.borrow_mut().push(("after-mass-loss/no-peer-send-does-not-hand-back".into(), format!("send #{} with no peer left failed with {} without handing the message back intact", i, e3::err_class(e))));
                                return;
                            }
                        } else if how != 0 || failures > gone2.len() {
                            viol2.borrow_mut().push((
                                "after-mass-loss/send-fails-with-live-peers".into(),
                                format!("send #{} failed ({}) although {} peer(s) are connected and live{}", i, e3::err_class(e), n_alive, if how != 0 { " and recv has seen every lost peer's end" } else { " (more failed sends than lost peers)" }),
                            ));
                            return;
                        }
                    }
                }
            }
        }
        world::set_cond("done");
        world::wait_cond("never").await;
        drop(sock);
    });
    let end = world::run(e3::HORIZON);
    let mut v = Verdict::default();
    v.truncated = end != world::RunEnd::Quiescent;
    let what = format!("{} with {} peers, one round of sends, then the {} {} attached are lost at once ({})", ty.name(), peers, lost, if last_ones { "last" } else { "first" }, ["their writes fail", "they close and recv sees it", "they are reset and recv sees it"][how as usize % 3]);
    for p in world::panics() {
        v.violate("panic", format!("{}: {}", what, p));
    }
    for (c, m) in viol.borrow().iter() {
        v.violate(c.clone(), format!("{}: {}", what, m));
    }
    if viol.borrow().is_empty() && world::panics().is_empty() && !v.truncated && !world::cond("done") {
        v.violate("after-mass-loss/app-stuck", format!("{}: the sender did not finish", what));
    }
    if v.truncated {
        v.violate("spin", format!("{}: no quiescence", what));
    }
    v.outcome_hash = rc::fnv(e3::canon_log().join("|").as_bytes());
    e3::finish(v)
}

/// A send is abandoned while it waits for a connection that does not accept data (what a timeout or
/// select! around send() does), then the connection recovers: the set of connected peers never
/// changed, so afterwards every send must succeed, consecutive successful sends must rotate strictly,
/// and every wire must carry whole messages only, each accepted message exactly once.
/// `how`: 0 = abandoned once nothing else can happen (a timeout), k >= 1 = abandoned after k polls.
fn cancel_scenario(ty: Ty, peers: usize, shape: u8, how: u8, policy: u8) -> Verdict {
    world::reset(world::WorldCfg { nested_env: false, yields: true, select: false, policy, coop: false });
    let conns: Vec<e3::RawConn> = (0..peers).map(|p| e3::raw_conn(&format!("P{}", p))).collect();
    for (p, c) in conns.iter().enumerate() {
        c.send(&rc::handshake(ty.peer_type(), Some(format!("ID{}", p).as_bytes())));
        if ty == Ty::Req {
            e3::make_echo_peer(*c);
        }
    }
    let sock = AnySocket::new(ty, None);
    let viol = std::rc::Rc::new(std::cell::RefCell::new(Vec::<(String, String)>::new()));
    let viol2 = viol.clone();
    let conns2 = conns.clone();
    // (message index, accepted?) in call order; abandoned sends are recorded as not accepted
    let calls = std::rc::Rc::new(std::cell::RefCell::new(Vec::<(usize, char)>::new()));
    let calls2 = calls.clone();
    world::spawn_app("app", async move {
        let mut sock = sock;
        for c in &conns2 {
            let _ = e3::attach_raw(sock.backend(), *c).await;
        }
        let n = conns2.len();
        let mut i = 0usize;
        // one healthy round
        for _ in 0..n {
            i += 1;
            let r = sock.send(msg(&message(shape, i))).await;
            calls2.borrow_mut().push((i, if r.is_ok() { 'w' } else { 'e' }));
            if ty == Ty::Req && r.is_ok() {
                let _ = world::until_idle(sock.recv()).await;
            }
        }
        // peer 0's connection stops accepting data (after a little, for the large shape)
        world::set_wmode(conns2[0].from_lib, if shape == 2 { WMode::Budget(70_000) } else { WMode::Stalled });
        let mut abandoned = false;
        for _ in 0..n {
            i += 1;
            let fut = sock.send(msg(&message(shape, i)));
            let r = if how == 0 { world::until_idle(fut).await } else { world::poll_k_then_drop(fut, how as usize).await };
            match r {
                Some(r) => {
                    calls2.borrow_mut().push((i, if r.is_ok() { 'w' } else { 'e' }));
                    if ty == Ty::Req && r.is_ok() {
                        let _ = world::until_idle(sock.recv()).await;
                    }
                }
                None => {
                    calls2.borrow_mut().push((i, 'c'));
                    abandoned = true;
                    break;
                }
            }
        }
        world::log(format!("abandoned a send: {}", abandoned));
        // the connection recovers
        world::set_wmode(conns2[0].from_lib, WMode::Open);
        for _ in 0..(2 * n + 2) {
            i += 1;
            match world::until_idle(sock.send(msg(&message(shape, i)))).await {
                Some(Ok(())) => calls2.borrow_mut().push((i, 'a')),
                Some(Err(e)) => {
                    viol2.borrow_mut().push(("after-abandoned-send/send-fails".into(), format!("send #{} failed with {} although all {} peers are connected and accept data", i, e3::err_class(&e), n)));
                    return;
                }
                None => {
                    viol2.borrow_mut().push(("after-abandoned-send/send-never-returns".into(), format!("send #{} did not return although all {} peers are connected and accept data", i, n)));
                    return;
                }
            }
            if ty == Ty::Req {
                let _ = world::until_idle(sock.recv()).await;
            }
        }
        if ty == Ty::Dealer {
            // peer 0, whose connection merely did not accept data for a while, sends two messages of its own: an
            // abandoned send is not a disconnect, its read side must still be served
            conns2[0].send(&rc::encode_message(&[b"from-P0-1".to_vec()]));
            conns2[0].send(&rc::encode_message(&[b"from-P0-2".to_vec(), vec![]]));
            let mut inbound = Vec::new();
            for _ in 0..2 {
                if let Some(Ok(m)) = world::until_idle(sock.recv()).await {
                    inbound.push(frames_of(&m));
                }
            }
            if inbound != vec![vec![b"from-P0-1".to_vec()], vec![b"from-P0-2".to_vec(), vec![]]] {
                viol2.borrow_mut().push(("after-abandoned-send/messages-of-the-peer-no-longer-received".into(), format!("afterwards peer 0 sent two messages of its own; recv gave {:?}", inbound.iter().map(|m| rc::show_frames(m)).collect::<Vec<_>>())));
                return;
            }
        }
        world::set_cond("done");
        world::wait_cond("never").await;
        drop(sock);
    });
    let end = world::run(e3::HORIZON * 4);
    let mut v = Verdict::default();
    v.truncated = end != world::RunEnd::Quiescent;
    let what = format!("{} with {} peers, message shape {}, a send abandoned {} while peer 0's connection accepts nothing, then the connection recovers", ty.name(), peers, shape, if how == 0 { "when nothing else can happen".to_string() } else { format!("after {} poll(s)", how) });
    for p in world::panics() {
        v.violate("panic", format!("{}: {}", what, p));
    }
    for (c, m) in viol.borrow().iter() {
        v.violate(c.clone(), format!("{}: {}", what, m));
    }
    let calls = calls.borrow().clone();
    if viol.borrow().is_empty() && world::panics().is_empty() && !v.truncated {
        if !world::cond("done") {
            v.violate("after-abandoned-send/app-stuck", format!("{}: the sender did not finish", what));
        } else {
            // where did every message end up?
            let wires: Vec<Vec<Vec<Vec<u8>>>> = conns.iter().map(|c| c.tap_messages()).collect();
            for (p, c) in conns.iter().enumerate() {
                let t = c.tap();
                let d = rc::decode_stream(&t, true);
                if d.error.is_some() || d.consumed != t.len() {
                    v.violate("after-abandoned-send/wire-malformed", format!("{}: peer {}'s wire does not end on a message boundary or is malformed ({:?}, {} of {} bytes parse)", what, p, d.error, d.consumed, t.len()));
                }
            }
            let mut post: Vec<usize> = Vec::new();
            for (i, kind) in &calls {
                let mut m = message(shape, *i);
                if ty == Ty::Req {
                    m.insert(0, vec![]);
                }
                let at: Vec<usize> = wires.iter().enumerate().flat_map(|(p, w)| w.iter().filter(|x| **x == m).map(move |_| p)).collect();
                match kind {
                    'w' | 'a' => {
                        if at.len() != 1 {
                            v.violate("after-abandoned-send/accepted-message-not-exactly-once", format!("{}: message #{} was accepted by send but is on the wires {} times (peers {:?})", what, i, at.len(), at));
                        } else if *kind == 'a' {
                            post.push(at[0]);
                        }
                    }
                    'c' => {
                        if at.len() > 1 {
                            v.violate("after-abandoned-send/abandoned-message-duplicated", format!("{}: the abandoned message #{} is on the wires {} times", what, i, at.len()));
                        }
                    }
                    _ => {}
                }
            }
            let total: usize = wires.iter().map(|w| w.len()).sum();
            if total > calls.len() {
                v.violate("after-abandoned-send/extra-messages", format!("{}: {} messages on the wires for {} send calls", what, total, calls.len()));
            }
            if peers >= 1 && post.len() >= peers {
                for w in post.windows(peers) {
                    let mut s = w.to_vec();
                    s.sort();
                    s.dedup();
                    if s.len() != peers {
                        v.violate("after-abandoned-send/rotation", format!("{}: with {} connected peers the successful sends after the recovery went to peers {:?}", what, peers, post));
                        break;
                    }
                }
            }
        }
    }
    let canon: Vec<String> = calls.iter().map(|(i, k)| format!("{}{}", i, k)).collect();
    v.outcome_hash = rc::fnv(canon.join("|").as_bytes()) ^ rc::fnv(e3::canon_log().join("|").as_bytes());
    e3::finish(v)
}

fn pj(p: &Params) -> Value {
    json!({"type": p.ty.name(), "peers": p.peers, "shape": p.shape, "wmode": p.wmode, "early_sends": p.early_sends, "policy": p.policy, "anon": p.anon})
}

fn pf(v: &Value) -> Option<Params> {
    Some(Params {
        ty: Ty::from_name(v["type"].as_str()?)?,
        peers: v["peers"].as_u64()? as usize,
        shape: v["shape"].as_u64()? as u8,
        wmode: v["wmode"].as_u64()? as u8,
        early_sends: v["early_sends"].as_u64()? as usize,
        policy: v["policy"].as_u64().unwrap_or(0) as u8,
        anon: v["anon"].as_u64().unwrap_or(0) as u8,
    })
}

pub fn run(tier: Tier, replay: Option<String>) -> i32 {
    world::install_panic_hook();
    let mut ck = Check::new("C10", tier, "model_checking");
    if let Some(path) = replay {
        let v: Value = serde_json::from_str(&std::fs::read_to_string(&path).expect("read")).expect("json");
        return crate::replay::replay_e3(&v, |p| {
            if p["scenario"] == "reconnect" {
                let (ty, o, pol) = (Ty::from_name(p["type"].as_str()?)?, p["observed"].as_bool()?, p["policy"].as_u64()? as u8);
                return Some(std::sync::Arc::new(move || reconnect_scenario(ty, o, pol)) as zvcore::explore::Scenario);
            }
            if p["scenario"] == "cancel" {
                let (ty, n, sh, how, pol) = (Ty::from_name(p["type"].as_str()?)?, p["peers"].as_u64()? as usize, p["shape"].as_u64()? as u8, p["how"].as_u64()? as u8, p["policy"].as_u64()? as u8);
                return Some(std::sync::Arc::new(move || cancel_scenario(ty, n, sh, how, pol)) as zvcore::explore::Scenario);
            }
            if p["scenario"] == "mass-loss" {
                let (ty, n, lost, last, how, pol) = (Ty::from_name(p["type"].as_str()?)?, p["peers"].as_u64()? as usize, p["lost"].as_u64()? as usize, p["last_ones"].as_bool()?, p["how"].as_u64()? as u8, p["policy"].as_u64()? as u8);
                return Some(std::sync::Arc::new(move || mass_loss_scenario(ty, n, lost, last, how, pol)) as zvcore::explore::Scenario);
            }
            if p["scenario"] == "loss" {
                let (ty, n, pol, kind) = (Ty::from_name(p["type"].as_str()?)?, p["peers"].as_u64()? as usize, p["policy"].as_u64()? as u8, p["kind"].as_u64().unwrap_or(0) as u8);
                return Some(std::sync::Arc::new(move || loss_scenario(ty, n, pol, kind)) as zvcore::explore::Scenario);
            }
            let pr = pf(p)?;
            Some(std::sync::Arc::new(move || scenario(&pr)) as zvcore::explore::Scenario)
        });
    }
    let mut jobs = Vec::new();
    for ty in [Ty::Push, Ty::Dealer, Ty::Req] {
        for peers in 0..=tier.pick(2usize, 3usize) {
            for shape in 0..3u8 {
                for wmode in 0..3u8 {
                    if peers == 0 && wmode != 0 {
                        continue;
                    }
                    for early in [0usize, 2] {
                        if peers == 0 && early != 0 {
                            continue;
                        }
                        for policy in 0..3u8 {
                            // the 200 kB shape is expensive: default schedules + bound 1 only
                            let bound = if shape == 2 { tier.pick(1, 2) } else if peers >= 3 { 2 } else if peers == 2 && wmode == 0 { tier.pick(3, 3) } else { tier.pick(2, 3) };
                            if shape == 2 && (policy != 0 || early != 0) && tier == Tier::Quick {
                                continue;
                            }
                            let pr = Params { ty, peers, shape, wmode, early_sends: early, policy, anon: 0 };
                            let pr2 = pr.clone();
                            jobs.push(e3::job(
                                format!("C10/{}/{}p/shape{}/w{}/early{}/policy{}", ty.name(), peers, shape, wmode, early, policy),
                                pj(&pr),
                                bound,
                                tier.pick(300_000, 3_000_000),
                                move || scenario(&pr2),
                            ));
                            // the same with the peers announcing each of the other legal socket types
                            if policy == 0 && shape == 0 && peers >= 1 {
                                for variant in 1..ty.peer_types().len() {
                                    let pr2 = pr.clone();
                                    let mut p = pj(&pr);
                                    p["peer_variant"] = json!(variant);
                                    jobs.push(e3::job(format!("C10/{}/{}p/w{}/early{}/peers-announce-{}", ty.name(), peers, wmode, early, ty.peer_types()[variant]), p, tier.pick(1, 2), tier.pick(100_000, 1_000_000), move || scenario(&pr2)));
                                }
                            }
                        }
                    }
                }
            }
        }
    }
    // peers that announce an empty identity, or none: every one of them is in the rotation all the same
    for ty in [Ty::Push, Ty::Dealer, Ty::Req] {
        for peers in 2..=3usize {
            for anon in [1u8, 2] {
                for policy in 0..3u8 {
                    let pr = Params { ty, peers, shape: 0, wmode: 0, early_sends: 0, policy, anon };
                    let pr2 = pr.clone();
                    jobs.push(e3::job(format!("C10/{}/{}p/anon{}/policy{}", ty.name(), peers, anon, policy), pj(&pr), tier.pick(1, 2), 100_000, move || scenario(&pr2)));
                }
            }
        }
    }
    // several peers lost between two sends
    for ty in [Ty::Push, Ty::Dealer, Ty::Req] {
        for peers in 2..=tier.pick(5usize, 6usize) {
            for lost in 1..=peers {
                for last_ones in [false, true] {
                    for how in 0..3u8 {
                        // only a DEALER reads without having sent: only it sees a close or reset through recv
                        if how != 0 && ty != Ty::Dealer {
                            continue;
                        }
                        for policy in 0..tier.pick(1u8, 3u8) {
                            jobs.push(e3::job(
                                format!("C10/mass-loss/{}/{}p/lost{}{}/how{}/policy{}", ty.name(), peers, lost, if last_ones { "-last" } else { "-first" }, how, policy),
                                json!({"scenario":"mass-loss","type":ty.name(),"peers":peers,"lost":lost,"last_ones":last_ones,"how":how,"policy":policy}),
                                tier.pick(0, 1),
                                50_000,
                                move || mass_loss_scenario(ty, peers, lost, last_ones, how, policy),
                            ));
                        }
                    }
                }
            }
        }
    }
    // scale family (not exhaustive in n): many peers, default schedules - a table, bitmap or window of some plausible
    // constant size shows only beyond that size
    for ty in [Ty::Push, Ty::Dealer, Ty::Req] {
        for &peers in tier.pick(&[9usize, 17, 33, 65, 130][..], &[9usize, 17, 33, 65, 130, 257, 520][..]) {
            for policy in 0..3u8 {
                for early in [0usize, 2] {
                    let pr = Params { ty, peers, shape: 0, wmode: 0, early_sends: early, policy, anon: 0 };
                    let pr2 = pr.clone();
                    jobs.push(e3::job(format!("C10/scale/{}/{}p/early{}/policy{}", ty.name(), peers, early, policy), pj(&pr), 0, 1000, move || scenario(&pr2)));
                }
            }
        }
    }
    for ty in [Ty::Push, Ty::Dealer, Ty::Req] {
        for peers in 1..=3usize {
            for policy in 0..3u8 {
                for kind in 0..3u8 {
                    jobs.push(e3::job(format!("C10/loss/{}/{}p/policy{}/kind{}", ty.name(), peers, policy, kind), json!({"scenario":"loss","type":ty.name(),"peers":peers,"policy":policy,"kind":kind}), tier.pick(1, 2), 100_000, move || loss_scenario(ty, peers, policy, kind)));
                }
            }
        }
    }
    for ty in [Ty::Push, Ty::Dealer, Ty::Req] {
        for observed in [false, true] {
            for policy in 0..3u8 {
                jobs.push(e3::job(format!("C10/reconnect/{}/{}/policy{}", ty.name(), observed, policy), json!({"scenario":"reconnect","type":ty.name(),"observed":observed,"policy":policy}), tier.pick(1, 2), 100_000, move || reconnect_scenario(ty, observed, policy)));
            }
        }
    }
    for ty in [Ty::Push, Ty::Dealer, Ty::Req] {
        for peers in 1..=tier.pick(2usize, 3usize) {
            for shape in 0..3u8 {
                for how in 0..=tier.pick(2u8, 4u8) {
                    for policy in 0..3u8 {
                        if shape == 2 && policy != 0 && tier == Tier::Quick {
                            continue;
                        }
                        jobs.push(e3::job(
                            format!("C10/cancel/{}/{}p/shape{}/how{}/policy{}", ty.name(), peers, shape, how, policy),
                            json!({"scenario":"cancel","type":ty.name(),"peers":peers,"shape":shape,"how":how,"policy":policy}),
                            if shape == 2 { tier.pick(0, 1) } else { tier.pick(1, 2) },
                            200_000,
                            move || cancel_scenario(ty, peers, shape, how, policy),
                        ));
                    }
                }
            }
        }
    }
    e3::run_jobs_into(&mut ck, jobs, false);
    let ex = ck.coverage.get("e3_executions").and_then(|v| v.as_u64()).unwrap_or(0);
    ck.cov("states", ck.coverage.get("e3_distinct_outcomes").and_then(|v| v.as_u64()).unwrap_or(0).max(1));
    ck.cov("transitions", ex);
    ck.cov("traces_validated_against_impl", ex);
    ck.cov("exhaustive", ck.coverage.get("e3_scenarios_capped").and_then(|v| v.as_u64()) == Some(0));
    ck.cov("explanation", "PUSH, DEALER and REQ (REQ against echo peers with a recv between sends) x 0..2 (thorough 3) raw peers x 3 message shapes (1 frame / 3 frames with an empty one / 200 kB) x write mode of one connection (accept all / a few bytes per write / stall-then-resume as scripted environment events) x sends racing with the joins or not x 3 default policies, every schedule within the deviation bound (each attach is an actor the scheduler may run before, between or during sends; yield points after pop / after upsert / after rr push). Oracle evaluated at the very step send returns: exactly one peer's application bytes (bytes accepted by the pipe after greeting+READY) grew, by exactly the reference encoding of the message with nothing left in the framed writer; with all n peers joined any n consecutive successful sends hit n distinct peers; with no peer the send fails with ReturnToSender carrying identical frames and no wire grows. Peer-loss family: 1-3 peers die one after the other (failing writes) while sends go on: a send to a surviving peer puts exactly the message's encoding on that wire, and once nobody is left the send hands the message back intact. Reconnect family: a peer with an announced identity dies (noticed through failing sends, or not yet noticed) and a new connection announces the same identity; afterwards consecutive successful sends must alternate strictly between the two connected peers. Scale family (not exhaustive in n): 9 / 17 / 33 / 65 / 130 (thorough 257, 520) peers under the 3 default schedules: the same per-send oracle and strict rotation over n+2 sends. Abandoned-send family: after one healthy round peer 0's connection stops accepting data, a send is abandoned while it waits for it (dropped once nothing else can happen, as a timeout does, or after 1..2 (thorough 4) polls), the connection recovers: every later send must succeed, successful sends rotate strictly, every wire carries whole messages only and each accepted message exactly once. states = distinct observed outcomes; transitions = executions.");
    ck.assume("a send may legitimately fail or succeed while a peer is between its registration steps; rotation is judged over the phase after every attach has returned");
    ck.conclude()
}
