//! C17 — closing or dropping a socket stops its listeners and disconnects all peers.
//! E4: exhaustive type x transport x history x {close, drop} grid on the real runtime.
//! E3: the socket is dropped at every point of a scenario under the controlled executor.

use crate::e3::{self, AnySocket, Ty, ALL_TYPES};
use crate::e4::{self, RawStream, Tr};
use serde_json::{json, Value};
use std::sync::atomic::{AtomicUsize, Ordering};
use std::sync::Mutex;
use std::time::Duration;
use zvcore::evidence::{Check, Tier};
use zvcore::explore::Verdict;
use zvcore::refcodec as rc;
use zvcore::world;

const HISTS: [&str; 8] = ["bound-only", "one-accepted-peer", "two-peers-traffic", "connected-out", "pending-silent-handshake", "pending-handshake+accepted-peer", "stalled-peer-with-backlog", "bound-and-at-once"];

#[derive(Clone, Debug)]
struct Case {
    ty: Ty,
    tr: Tr,
    hist: usize,
    close: bool,
    workers: usize,
}

fn case_json(c: &Case) -> Value {
    json!({"engine":"E4","type": c.ty.name(), "transport": c.tr.name(), "history": HISTS[c.hist], "action": if c.close { "close" } else { "drop" }, "runtime_workers": c.workers})
}

async fn run_case(c: &Case) -> Vec<(String, String)> {
    let mut viol: Vec<(String, String)> = Vec::new();
    let what = format!("{} over {} after history '{}', then {}", c.ty.name(), c.tr.name(), HISTS[c.hist], if c.close { "close()" } else { "drop" });
    let handle = tokio::runtime::Handle::current();
    let baseline_tasks = handle.metrics().num_alive_tasks();
    let mut sock = AnySocket::new_unmonitored(c.ty, None);
    // a monitor is installed (and kept) so that the event paths run too
    let _monitor = sock.monitor();
    sock.subscribe_all().await;
    if c.hist == 6 && c.ty == Ty::Sub {
        // a subscription set far larger than any connection buffer (16 MiB): the publisher that joins below is sent all
        // of it and, as it does not read, the write parks
        if let AnySocket::Sub(s) = &mut sock {
            for i in 0..4096 {
                let _ = s.subscribe(&format!("{:0>4096}", i)).await;
            }
        }
    }
    let mut accepted: Vec<RawStream> = Vec::new();
    let mut silent: Vec<RawStream> = Vec::new();
    let mut endpoint: Option<zeromq::Endpoint> = None;
    let mut raw_listener_tcp: Option<tokio::net::TcpListener> = None;
    let mut raw_listener_unix: Option<(tokio::net::UnixListener, std::path::PathBuf)> = None;
    if c.hist != 3 {
        match sock.bind(&e4::bind_spec(c.tr)).await {
            Ok(ep) => endpoint = Some(ep),
            Err(e) => {
                viol.push(("machinery/bind-failed".into(), format!("{}: bind failed: {}", what, e)));
                return viol;
            }
        }
    }
    let n_accepted = match c.hist {
        1 | 5 | 6 => 1,
        2 => 2,
        _ => 0,
    };
    if c.hist == 4 || c.hist == 5 {
        match RawStream::connect(endpoint.as_ref().unwrap()).await {
            Ok(s) => silent.push(s),
            Err(e) => viol.push(("machinery/connect-failed".into(), format!("{}: {}", what, e))),
        }
    }
    for i in 0..n_accepted {
        match RawStream::connect(endpoint.as_ref().unwrap()).await {
            Ok(mut s) => match e4::raw_handshake(&mut s, c.ty.peer_type(), Some(format!("P{}", i).as_bytes())).await {
                Ok(_) => accepted.push(s),
                Err(e) => viol.push(("machinery/handshake-failed".into(), format!("{}: {}", what, e))),
            },
            Err(e) => viol.push(("machinery/connect-failed".into(), format!("{}: {}", what, e))),
        }
    }
    if c.hist == 3 {
        // the socket connects out to a raw listener
        let ep_text;
        match c.tr {
            Tr::Ipc => {
                let p = e4::ipc_path();
                let l = tokio::net::UnixListener::bind(&p).expect("raw unix listener");
                ep_text = format!("ipc://{}", p.display());
                raw_listener_unix = Some((l, p));
            }
            _ => {
                let l = tokio::net::TcpListener::bind(if c.tr == Tr::Tcp4 { "127.0.0.1:0" } else { "[::1]:0" }).await.expect("raw tcp listener");
                let a = l.local_addr().unwrap();
                ep_text = if c.tr == Tr::Tcp4 { format!("tcp://127.0.0.1:{}", a.port()) } else { format!("tcp://[::1]:{}", a.port()) };
                raw_listener_tcp = Some(l);
            }
        }
        let ty = c.ty;
        let accept = async {
            let mut s = if let Some(l) = &raw_listener_tcp {
                RawStream::Tcp(l.accept().await.expect("accept").0)
            } else {
                RawStream::Unix(raw_listener_unix.as_ref().unwrap().0.accept().await.expect("accept").0)
            };
            let r = e4::raw_handshake(&mut s, ty.peer_type(), Some(b"SRV")).await;
            (s, r)
        };
        let (conn, (s, hs)) = tokio::join!(sock.connect(&ep_text), accept);
        if let Err(e) = conn {
            viol.push(("machinery/connect-out-failed".into(), format!("{}: {}", what, e)));
        }
        if let Err(e) = hs {
            viol.push(("machinery/handshake-failed".into(), format!("{}: {}", what, e)));
        }
        accepted.push(s);
    }
    if c.hist == 2 {
        // some traffic
        if c.ty.can_recv() && c.ty != Ty::Req {
            for (i, p) in accepted.iter_mut().enumerate() {
                let _ = p.write_all(&rc::encode_message(&e4::peer_message(c.ty, &format!("hello{}", i)))).await;
            }
            for _ in 0..accepted.len() {
                let _ = tokio::time::timeout(e4::HORIZON, sock.recv()).await;
            }
        }
        if c.ty.can_send() && !matches!(c.ty, Ty::Rep | Ty::Router) {
            let _ = tokio::time::timeout(e4::HORIZON, sock.send(crate::e1::msg(&[b"out".to_vec()]))).await;
        }
    }
    if c.hist == 6 && !accepted.is_empty() {
        // the peer stops reading; the socket keeps sending until data is stuck on its side of the connection
        // (PUB/XPUB queue below their high-water mark; the others have a send abandoned by a timeout)
        match c.ty {
            Ty::Pub => {
                let _ = accepted[0].write_all(&rc::encode_message(&[vec![1u8]])).await;
                tokio::time::sleep(Duration::from_millis(30)).await;
            }
            Ty::XPub => {
                let _ = accepted[0].write_all(&rc::encode_message(&[vec![1u8]])).await;
                let _ = tokio::time::timeout(e4::HORIZON, sock.recv()).await;
            }
            Ty::Rep => {
                let _ = accepted[0].write_all(&rc::encode_message(&[vec![], b"q".to_vec()])).await;
                let _ = tokio::time::timeout(e4::HORIZON, sock.recv()).await;
            }
            _ => {}
        }
        let one_shot = matches!(c.ty, Ty::Req | Ty::Rep);
        let big = rc::pattern(if one_shot { 32 << 20 } else { 1 << 20 }, 5, 0);
        if c.ty == Ty::Sub {
            // the SUB socket's own write (the subscription set) is already parked on the silent publisher
            tokio::time::sleep(Duration::from_millis(150)).await;
        }
        for _ in 0..(if c.ty == Ty::Sub { 0 } else { 32 }) {
            let m = if c.ty == Ty::Router { vec![b"P0".to_vec(), big.clone()] } else { vec![big.clone()] };
            match tokio::time::timeout(Duration::from_millis(150), sock.send(crate::e1::msg(&m))).await {
                Err(_) => break,
                Ok(_) if one_shot => break,
                Ok(_) => {}
            }
        }
    }
    // give accept tasks a moment to register the pending connections (monotone: they only get further)
    // (history 'bound-and-at-once': the action follows bind() with no suspension point in between - on the
    // current-thread runtime nothing the bind spawned has been polled yet)
    if c.hist != 7 {
        tokio::time::sleep(Duration::from_millis(10)).await;
    }
    if !viol.is_empty() {
        return viol;
    }
    // ---- the action
    if c.close {
        match tokio::time::timeout(e4::HORIZON, sock.close()).await {
            Ok(errs) => {
                if !errs.is_empty() {
                    viol.push(("close-reported-errors".into(), format!("{}: close() returned {:?} in a failure-free history", what, errs.iter().map(|e| e.to_string()).collect::<Vec<_>>())));
                }
            }
            Err(_) => viol.push((format!("close-never-returns/{}", c.ty.name()), format!("{}: close() did not return within {} s", what, e4::HORIZON.as_secs()))),
        }
    } else {
        drop(sock);
    }
    // ---- expectations
    if let Some(ep) = &endpoint {
        let (ok, at_once) = e4::await_cond_async(e4::HORIZON, || e4::refuses(ep)).await;
        if !ok {
            viol.push((format!("listener-survives/{}", if c.close { "close" } else { "drop" }), format!("{}: {} still accepts connections {} s later", what, ep, e4::HORIZON.as_secs())));
        } else if c.close && !at_once {
            viol.push(("listener-stops-late/close".into(), format!("{}: {} still accepted a connection right after close() returned", what, ep)));
        }
        if let zeromq::Endpoint::Ipc(Some(p)) = ep {
            let (gone, at_once) = e4::await_cond(e4::HORIZON, || !p.exists()).await;
            if !gone {
                viol.push((format!("ipc-file-left/{}", if c.close { "close" } else { "drop" }), format!("{}: socket file {} still exists", what, p.display())));
            } else if c.close && !at_once {
                viol.push(("ipc-file-removed-late/close".into(), format!("{}: socket file still existed right after close() returned", what)));
            }
        }
        if ok {
            // the endpoint can be bound again
            let mut again = AnySocket::new_unmonitored(c.ty, None);
            match again.bind(&ep.to_string()).await {
                Ok(_) => {
                    let _ = again.close().await;
                }
                Err(e) => viol.push(("endpoint-not-free".into(), format!("{}: binding {} again failed: {}", what, ep, e))),
            }
        }
    }
    if c.hist == 6 && c.ty == Ty::Sub {
        // BEFORE the silent publisher reads another byte: nothing of the socket is left running (a peer that drains
        // would let a surviving writer finish and hide it)
        let (ok, _) = e4::await_cond(e4::HORIZON, || handle.metrics().num_alive_tasks() <= baseline_tasks).await;
        if !ok {
            viol.push(("background-tasks-survive/with-a-parked-write".into(), format!("{}: {} task(s) of the socket are still alive although the peer has not read anything since (baseline {})", what, handle.metrics().num_alive_tasks() - baseline_tasks, baseline_tasks)));
        }
    }
    for (i, p) in accepted.iter_mut().enumerate() {
        if !p.wait_closed(e4::HORIZON).await {
            viol.push((
                format!("peer-not-disconnected/{}/{}", c.ty.name(), if c.hist == 5 { "with-pending-handshake" } else { "established" }),
                format!("{}: established peer {} saw no end-of-stream within {} s", what, i, e4::HORIZON.as_secs()),
            ));
        }
    }
    for p in silent.iter_mut() {
        if !p.wait_closed(e4::HORIZON).await {
            viol.push(("pending-handshake-connection-not-closed".into(), format!("{}: a client that had connected but not yet sent its greeting saw no end-of-stream within {} s", what, e4::HORIZON.as_secs())));
        }
    }
    drop(accepted);
    drop(silent);
    drop(raw_listener_tcp);
    if let Some((l, p)) = raw_listener_unix {
        drop(l);
        let _ = std::fs::remove_file(p);
    }
    let (ok, _) = e4::await_cond(e4::HORIZON, || handle.metrics().num_alive_tasks() <= baseline_tasks).await;
    if !ok {
        viol.push(("background-tasks-survive".into(), format!("{}: {} task(s) of the socket are still alive (baseline {})", what, handle.metrics().num_alive_tasks() - baseline_tasks, baseline_tasks)));
    }
    viol
}

// ------------------------------------------------------------------ E4: accept() fails once (descriptor exhaustion)

/// Child process `zv c17-emfile`: with the descriptor limit lowered, every descriptor is used up at the moment a
/// client connects, so the listener's accept() fails (EMFILE) at least once; the descriptors are then freed and the
/// socket is closed / dropped. The same expectations as in the failure-free grid must hold afterwards.
pub fn child_emfile() -> i32 {
    unsafe {
        let lim = libc::rlimit { rlim_cur: 256, rlim_max: 256 };
        if libc::setrlimit(libc::RLIMIT_NOFILE, &lim) != 0 {
            println!("{}", json!({"finding": ["machinery/setrlimit", "cannot lower RLIMIT_NOFILE"]}));
            return 0;
        }
    }
    let mut cases = 0u64;
    for ty in [Ty::Pull, Ty::Rep, Ty::Pub] {
        for tr in [Tr::Ipc, Tr::Tcp4] {
            for close in [true, false] {
                cases += 1;
                let viol = e4::block_on_deadline(2, e4::CASE_DEADLINE, move || async move { emfile_case(ty, tr, close).await }).unwrap_or_else(|| vec![(format!("runtime-hung/{}", ty.name()), format!("{} over {} after a failed accept, then {}: the case did not come back within {} s: a runtime thread is blocked for ever", ty.name(), tr.name(), if close { "close()" } else { "drop" }, e4::CASE_DEADLINE.as_secs()))]);
                for (c, m) in viol {
                    println!("{}", json!({"finding": [c, m], "type": ty.name(), "transport": tr.name(), "action": if close { "close" } else { "drop" }}));
                }
            }
        }
    }
    println!("{}", json!({"cases": cases}));
    e4::cleanup_ipc_dir();
    0
}

async fn emfile_case(ty: Ty, tr: Tr, close: bool) -> Vec<(String, String)> {
    let mut viol: Vec<(String, String)> = Vec::new();
    let what = format!("{} over {}: accept() fails for lack of descriptors while a client connects, descriptors are freed, then {}", ty.name(), tr.name(), if close { "close()" } else { "drop" });
    let mut sock = AnySocket::new_unmonitored(ty, None);
    let mut monitor = sock.monitor();
    let ep = match sock.bind(&e4::bind_spec(tr)).await {
        Ok(e) => e,
        Err(e) => return vec![("machinery/bind-failed".into(), format!("{}: {}", what, e))],
    };
    // use up every descriptor, then free exactly the one the client's own end needs
    let mut hog: Vec<std::fs::File> = Vec::new();
    while let Ok(f) = std::fs::File::open("/dev/null") {
        hog.push(f);
        if hog.len() > 4096 {
            break;
        }
    }
    hog.pop();
    let client = RawStream::connect(&ep).await;
    // the fault has been injected once the monitor reports a failed accept
    let t0 = std::time::Instant::now();
    let mut injected = false;
    while t0.elapsed() < Duration::from_secs(2) && !injected {
        #[allow(deprecated)]
        while let Ok(Some(ev)) = monitor.try_next() {
            if matches!(ev, zeromq::SocketEvent::AcceptFailed(_)) {
                injected = true;
            }
        }
        tokio::time::sleep(Duration::from_millis(2)).await;
    }
    drop(hog);
    drop(client);
    if !injected {
        // nothing to judge: the accept did not fail (e.g. the kernel queued the connection without a descriptor yet)
        return vec![("machinery/accept-did-not-fail".into(), format!("{}: no AcceptFailed event within 2 s", what))];
    }
    // (whether the listener goes on accepting after a failed accept is not C17's business and is not judged;
    // a well-behaved client is tried so that an established connection exists if it does)
    let mut established: Option<RawStream> = None;
    if let Ok(Ok(mut s)) = tokio::time::timeout(Duration::from_secs(1), RawStream::connect(&ep)).await {
        if tokio::time::timeout(Duration::from_secs(1), e4::raw_handshake(&mut s, ty.peer_type(), None)).await.map(|r| r.is_ok()).unwrap_or(false) {
            established = Some(s);
        }
    }
    if close {
        match tokio::time::timeout(e4::HORIZON, sock.close()).await {
            Ok(_errs) => {} // errors may legitimately be reported here: the history is not failure-free
            Err(_) => viol.push((format!("close-never-returns/{}", ty.name()), format!("{}: close() did not return within {} s", what, e4::HORIZON.as_secs()))),
        }
    } else {
        drop(sock);
    }
    let (ok, _) = e4::await_cond_async(e4::HORIZON, || e4::refuses(&ep)).await;
    if !ok {
        viol.push((format!("listener-survives/{}", if close { "close" } else { "drop" }), format!("{}: {} still accepts connections {} s later", what, ep, e4::HORIZON.as_secs())));
    }
    if let zeromq::Endpoint::Ipc(Some(p)) = &ep {
        let (gone, _) = e4::await_cond(e4::HORIZON, || !p.exists()).await;
        if !gone {
            viol.push((format!("ipc-file-left/{}", if close { "close" } else { "drop" }), format!("{}: socket file {} still exists", what, p.display())));
        }
    }
    if ok {
        let mut again = AnySocket::new_unmonitored(ty, None);
        match again.bind(&ep.to_string()).await {
            Ok(_) => {
                let _ = again.close().await;
            }
            Err(e) => viol.push(("endpoint-not-free".into(), format!("{}: binding {} again failed: {}", what, ep, e))),
        }
    }
    if let Some(mut s) = established {
        if !s.wait_closed(e4::HORIZON).await {
            viol.push((format!("peer-not-disconnected/{}/after-accept-failure", ty.name()), format!("{}: the peer established after the failed accept saw no end-of-stream within {} s", what, e4::HORIZON.as_secs())));
        }
    }
    viol
}

// ------------------------------------------------------------------ E3: drop at every point

#[derive(Clone, Debug)]
struct DropParams {
    ty: Ty,
    /// the socket is dropped when the owner has seen this many "points" (quiescent moments / progress marks)
    drop_at: usize,
    /// 0: second peer silent before greeting, 1: silent after greeting, 2: complete
    second_stage: u8,
    policy: u8,
    /// hash key of the peer tables (decides which identities share a bucket lock)
    hash_key: u64,
}

fn drop_scenario(pr: &DropParams) -> Verdict {
    e3::set_hash_key(pr.hash_key);
    world::reset(world::WorldCfg { nested_env: false, yields: true, select: true, policy: pr.policy, coop: false });
    let ty = pr.ty;
    let a = e3::raw_conn("A");
    let b = e3::raw_conn("B");
    a.send(&rc::handshake(ty.peer_type(), Some(b"A")));
    for i in 0..2 {
        a.send(&rc::encode_message(&e4::peer_message(ty, &format!("a{}", i))));
    }
    match pr.second_stage {
        0 => {}
        1 => b.send(&rc::default_greeting()),
        _ => b.send(&rc::handshake(ty.peer_type(), Some(b"B"))),
    }
    if ty == Ty::Req {
        e3::make_echo_peer(a);
    }
    let sock = AnySocket::new(ty, None);
    let be = sock.backend();
    for (name, c) in [("A", a), ("B", b)] {
        let be = be.clone();
        world::spawn_app(&format!("attach{}", name), async move {
            // like the transports' handshake tasks, an attach in progress ends when the socket goes away
            let hs = Box::pin(e3::attach_raw(be, c));
            let gone = Box::pin(world::wait_cond("dropped"));
            match futures::future::select(hs, gone).await {
                futures::future::Either::Left((r, _)) => world::log(format!("attach({}) -> {}", name, e3::ok_or_err(&r))),
                futures::future::Either::Right(_) => world::log(format!("attach({}) cancelled: socket gone", name)),
            }
        });
    }
    drop(be);
    let drop_at = pr.drop_at;
    world::spawn_app("owner", async move {
        let mut sock = sock;
        let mut points = 0usize;
        macro_rules! point {
            () => {
                if points == drop_at {
                    world::log(format!("dropping the socket at point {}", points));
                    drop(sock);
                    world::set_cond("dropped");
                    return;
                }
                points += 1;
            };
        }
        point!();
        world::yield_now().await;
        point!();
        world::idle().await;
        point!();
        for i in 0..3 {
            if ty.can_send() && !matches!(ty, Ty::Rep) {
                let m = if ty == Ty::Router { vec![b"A".to_vec(), format!("o{}", i).into_bytes()] } else { vec![format!("o{}", i).into_bytes()] };
                let r = world::until_idle(sock.send(crate::e1::msg(&m))).await;
                world::log(format!("send -> {:?}", r.as_ref().map(|x| e3::ok_or_err(x))));
                point!();
            }
            if ty.can_recv() {
                let r = world::until_idle(sock.recv()).await;
                world::log(format!("recv -> {:?}", r.as_ref().map(e3::show_result)));
                point!();
                if ty == Ty::Rep {
                    let r = world::until_idle(sock.send(crate::e1::msg(&[b"re".to_vec()]))).await;
                    world::log(format!("reply -> {:?}", r.as_ref().map(|x| e3::ok_or_err(x))));
                    point!();
                }
            }
        }
        world::log("dropping the socket at the end");
        drop(sock);
        world::set_cond("dropped");
    });
    let end = world::run(e3::HORIZON);
    e3::set_hash_key(0);
    let mut v = Verdict::default();
    v.truncated = end != world::RunEnd::Quiescent;
    let what = format!("{} socket with an established peer (traffic) and a second peer {}, socket dropped at point {}", ty.name(), ["that has sent nothing", "that has sent only its greeting", "that is established too"][pr.second_stage as usize], pr.drop_at);
    for p in world::panics() {
        v.violate("panic", format!("{}: {}", what, p));
    }
    if v.truncated {
        v.violate("spin", format!("{}: no quiescence", what));
    }
    if world::cond("dropped") && world::panics().is_empty() && !v.truncated {
        for (name, c, established) in [("A", a, true), ("B", b, pr.second_stage == 2)] {
            let attached = world::log_snapshot().iter().any(|l| l.contains(&format!("attach({}) -> Ok", name)));
            if !c.released() {
                let half = match (world::reader_dropped(c.to_lib).is_some(), world::writer_dropped(c.from_lib).is_some()) {
                    (false, false) => "both halves",
                    (true, false) => "write half",
                    (false, true) => "read half",
                    _ => "",
                };
                let class = if attached || established {
                    format!("drop/established-peer-not-disconnected/{}", ty.name())
                } else {
                    format!("drop/pending-handshake-connection-kept/{}", "all-types")
                };
                v.violate(class, format!("{}: after the drop and at quiescence the socket's side still holds {} of peer {}'s connection ({})", what, half, name, if attached { "handshake had completed" } else { "handshake pending" }));
            }
        }
        let alive = world::tasks_alive(false);
        if !alive.is_empty() {
            v.violate("drop/library-task-survives", format!("{}: library-spawned tasks still alive after the drop: {:?}", what, alive));
        }
    }
    v.outcome_hash = rc::fnv(e3::canon_log().join("|").as_bytes());
    e3::finish(v)
}

/// Targeted history: a REQ recv is pending (it holds its peer's table entry across the await) while a
/// second peer's handshake reaches the registration; then the reply arrives, recv returns and the
/// application drops the socket at once.
fn handoff_scenario(hash_key: u64, policy: u8, drop_immediately: bool) -> Verdict {
    e3::set_hash_key(hash_key);
    world::reset(world::WorldCfg { nested_env: false, yields: true, select: true, policy, coop: false });
    let a = e3::raw_conn("A");
    let b = e3::raw_conn("B");
    a.send(&rc::handshake("REP", Some(b"A")));
    a.gate("release-reply");
    e3::make_echo_peer(a);
    b.gate("recv-pending");
    b.send(&rc::handshake("REP", Some(b"B")));
    let sock = AnySocket::new(Ty::Req, None);
    let be = sock.backend();
    let be2 = be.clone();
    world::spawn_app("attachA", async move {
        let r = e3::attach_raw(be, a).await;
        world::log(format!("attach(A) -> {}", e3::ok_or_err(&r)));
        world::set_cond("a-attached");
    });
    world::spawn_app("attachB", async move {
        let hs = Box::pin(e3::attach_raw(be2, b));
        let gone = Box::pin(world::wait_cond("dropped"));
        match futures::future::select(hs, gone).await {
            futures::future::Either::Left((r, _)) => world::log(format!("attach(B) -> {}", e3::ok_or_err(&r))),
            futures::future::Either::Right(_) => world::log("attach(B) cancelled: socket gone"),
        }
    });
    world::spawn_app("owner", async move {
        let mut sock = sock;
        world::wait_cond("a-attached").await;
        let r = sock.send(crate::e1::msg(&[b"q".to_vec()])).await;
        world::log(format!("send -> {}", e3::ok_or_err(&r)));
        {
            let mut fut = Box::pin(sock.recv());
            let first = futures::future::poll_immediate(fut.as_mut()).await;
            world::log(format!("recv polled once -> {}", if first.is_some() { "ready" } else { "pending" }));
            if first.is_none() {
                world::set_cond("recv-pending");
                // the second peer's handshake runs up to its registration
                world::idle().await;
                world::set_cond("release-reply");
                let r = fut.await;
                world::log(format!("recv -> {}", e3::show_result(&r)));
            }
        }
        if !drop_immediately {
            world::yield_now().await;
        }
        world::log("dropping the socket right after recv returned");
        drop(sock);
        world::set_cond("dropped");
    });
    let end = world::run(e3::HORIZON);
    e3::set_hash_key(0);
    let mut v = Verdict::default();
    v.truncated = end != world::RunEnd::Quiescent;
    if v.truncated {
        v.violate("spin", "handoff scenario: no quiescence");
    }
    for p in world::panics() {
        v.violate("panic", format!("handoff scenario: {}", p));
    }
    if world::cond("dropped") {
        for (name, c) in [("A", a), ("B", b)] {
            if !c.released() {
                v.violate("drop/established-peer-not-disconnected/REQ", format!("REQ socket dropped right after a recv that peer B's registration was queued behind: peer {}'s connection is still held", name));
            }
        }
    }
    v.outcome_hash = rc::fnv(e3::canon_log().join("|").as_bytes());
    e3::finish(v)
}

fn drop_pj(p: &DropParams) -> Value {
    json!({"type": p.ty.name(), "drop_at": p.drop_at, "second_stage": p.second_stage, "policy": p.policy, "hash_key": p.hash_key})
}

fn drop_pf(v: &Value) -> Option<DropParams> {
    Some(DropParams {
        ty: Ty::from_name(v["type"].as_str()?)?,
        drop_at: v["drop_at"].as_u64()? as usize,
        second_stage: v["second_stage"].as_u64()? as u8,
        policy: v["policy"].as_u64().unwrap_or(0) as u8,
        hash_key: v["hash_key"].as_u64().unwrap_or(0),
    })
}

pub fn run(tier: Tier, replay: Option<String>) -> i32 {
    world::install_panic_hook();
    let mut ck = Check::new("C17", tier, "model_checking");
    if let Some(path) = replay {
        let v: Value = serde_json::from_str(&std::fs::read_to_string(&path).expect("read")).expect("json");
        let r = &v["replay"];
        if r["engine"] == "E3" {
            return crate::replay::replay_e3(&v, |p| {
                if p["scenario"] == "handoff" {
                    let (k, pol, im) = (p["hash_key"].as_u64()?, p["policy"].as_u64()? as u8, p["drop_immediately"].as_bool()?);
                    return Some(std::sync::Arc::new(move || handoff_scenario(k, pol, im)) as zvcore::explore::Scenario);
                }
                let pr = drop_pf(p)?;
                Some(std::sync::Arc::new(move || drop_scenario(&pr)) as zvcore::explore::Scenario)
            });
        }
        let c = Case {
            ty: Ty::from_name(r["type"].as_str().unwrap()).unwrap(),
            tr: Tr::from_name(r["transport"].as_str().unwrap()).unwrap(),
            hist: HISTS.iter().position(|h| Some(*h) == r["history"].as_str()).unwrap(),
            close: r["action"] == "close",
            workers: r["runtime_workers"].as_u64().unwrap_or(2) as usize,
        };
        let rt = e4::runtime(c.workers);
        let viol = rt.block_on(run_case(&c));
        e4::cleanup_ipc_dir();
        for (cl, m) in &viol {
            println!("replay: VIOLATION {}: {}", cl, m);
        }
        if viol.is_empty() {
            println!("replay: holds");
        }
        return if viol.is_empty() { 0 } else { 1 };
    }
    // ---- E4 grid
    let mut cases = Vec::new();
    for ty in ALL_TYPES {
        for tr in [Tr::Tcp4, Tr::Tcp6, Tr::Ipc] {
            for hist in 0..HISTS.len() {
                // (a SUB socket sends too: its subscription set, to every publisher that joins)
                if hist == 6 && !ty.can_send() && ty != Ty::Sub {
                    continue;
                }
                for close in [true, false] {
                    // both runtime flavours: on the current-thread one nothing the socket spawned has run yet when the
                    // application goes on right after a call returns (a task may be dropped before its first poll)
                    let flavours: Vec<usize> = vec![2, 0];
                    for w in flavours {
                        cases.push(Case { ty, tr, hist, close, workers: w });
                    }
                }
            }
        }
    }
    let next = AtomicUsize::new(0);
    let found: Mutex<Vec<(usize, Vec<(String, String)>)>> = Mutex::new(Vec::new());
    // TCP cases run one at a time: with several cases in flight the kernel may hand a port that one
    // case has just released to another case's bind(port 0), and "connect is refused" would then
    // observe the other case's listener. IPC paths are unique, so those cases run in parallel.
    let tcp_turn = Mutex::new(());
    let skipped = AtomicUsize::new(0);
    let par = ck.threads.min(8);
    std::thread::scope(|sc| {
        for _ in 0..par {
            sc.spawn(|| loop {
                let i = next.fetch_add(1, Ordering::Relaxed);
                if i >= cases.len() {
                    break;
                }
                // once a few cases have failed there is a verdict; waiting out 5 s horizons on hundreds more adds nothing
                if found.lock().unwrap().len() >= 4 {
                    skipped.fetch_add(1, Ordering::Relaxed);
                    continue;
                }
                let _turn = if cases[i].tr != Tr::Ipc { Some(tcp_turn.lock().unwrap()) } else { None };
                let c2 = cases[i].clone();
                let viol = e4::block_on_deadline(cases[i].workers, e4::CASE_DEADLINE, move || async move { run_case(&c2).await }).unwrap_or_else(|| {
                    vec![(
                        format!("runtime-hung/{}", cases[i].ty.name()),
                        format!("{} over {} after history '{}', then {}: the case did not come back within {} s although every wait in it has a {} s horizon: a thread of the socket's runtime is blocked for ever", cases[i].ty.name(), cases[i].tr.name(), HISTS[cases[i].hist], if cases[i].close { "close()" } else { "drop" }, e4::CASE_DEADLINE.as_secs(), e4::HORIZON.as_secs()),
                    )]
                });
                if !viol.is_empty() {
                    found.lock().unwrap().push((i, viol));
                }
            });
        }
    });
    e4::cleanup_ipc_dir();
    let mut found = found.into_inner().unwrap();
    found.sort_by_key(|f| f.0);
    let mut distinct = std::collections::HashSet::new();
    for (i, viol) in &found {
        for (class, msg) in viol {
            distinct.insert(class.clone());
            if class.starts_with("machinery/") {
                ck.machinery_error(msg.clone());
            } else {
                ck.finding(class.clone(), msg.clone(), case_json(&cases[*i]));
            }
        }
    }
    // ---- E4 child: accept() failing once (needs a process of its own: the descriptor limit is process-wide)
    let mut emfile_cases = 0u64;
    {
        match e4::child_output(&["c17-emfile"], Duration::from_secs(900)) {
            Ok((true, stdout)) => {
                for l in stdout.lines() {
                    let Ok(v) = serde_json::from_str::<Value>(l) else { continue };
                    if let Some(n) = v["cases"].as_u64() {
                        emfile_cases = n;
                        continue;
                    }
                    if let Some(f) = v["finding"].as_array() {
                        let (c, m) = (f[0].as_str().unwrap_or("?"), f[1].as_str().unwrap_or(""));
                        if c == "machinery/accept-did-not-fail" {
                            // the fault could not be injected in this environment: that case is not judged
                            ck.cov_add("e4_accept_failure_cases_not_injected", 1);
                        } else if c.starts_with("machinery/") {
                            ck.machinery_error(m.to_string());
                        } else {
                            ck.finding(c.to_string(), m.to_string(), json!({"engine":"E4-emfile","type":v["type"],"transport":v["transport"],"action":v["action"]}));
                        }
                    }
                }
            }
            Ok((false, _)) => ck.machinery_error("c17-emfile child exited abnormally".to_string()),
            Err(e) => ck.machinery_error(format!("c17-emfile child: {}", e)),
        }
    }
    ck.cov("e4_accept_failure_cases", emfile_cases);
    let n_cases = cases.len() as u64;
    // ---- E3: drop at every point
    let mut jobs = Vec::new();
    for ty in ALL_TYPES {
        for stage in 0..3u8 {
            for drop_at in 0..tier.pick(10usize, 14usize) {
                for (policy, hash_key) in [(0u8, 0u64), (1, 0), (0, 1), (0, 2), (0, 3), (1, 1)] {
                    if hash_key != 0 && stage != 2 {
                        continue;
                    }
                    let pr = DropParams { ty, drop_at, second_stage: stage, policy, hash_key };
                    let pr2 = pr.clone();
                    let mut j = e3::job(format!("C17/drop/{}/stage{}/at{}/policy{}/key{}", ty.name(), stage, drop_at, policy, hash_key), drop_pj(&pr), tier.pick(2, 3), tier.pick(50_000, 500_000), move || drop_scenario(&pr2));
                    let tyname = ty.name().to_string();
                    j.on_blocked = std::sync::Arc::new(move |log: Vec<String>| {
                        let mut v = Verdict::default();
                        let last = log.iter().rev().find(|l| l.contains("dropping") || l.contains("recv") || l.contains("send")).cloned().unwrap_or_default();
                        v.violate(
                            format!("drop/thread-blocked-forever/{}", tyname),
                            format!("dropping the {} socket never returns: Drop -> shutdown -> clear_sync waits synchronously for a peer-table entry that a queued task of the same (only) thread owns (last action: {})", tyname, last),
                        );
                        v.outcome_hash = 0xdead;
                        v.log = log;
                        v
                    });
                    jobs.push(j);
                }
            }
        }
    }
    let blocked_handler = |tyname: String| -> std::sync::Arc<dyn Fn(Vec<String>) -> Verdict + Send + Sync> {
        std::sync::Arc::new(move |log: Vec<String>| {
            let mut v = Verdict::default();
            let last = log.iter().rev().find(|l| l.contains("dropping") || l.contains("recv") || l.contains("send")).cloned().unwrap_or_default();
            v.violate(
                format!("drop/thread-blocked-forever/{}", tyname),
                format!("dropping the {} socket never returns on a single-threaded executor: Drop -> shutdown -> clear_sync waits synchronously for a peer-table entry whose lock was just handed to a queued, not yet polled task of the same thread (last action: {})", tyname, last),
            );
            v.outcome_hash = 0xdead;
            v.log = log;
            v
        })
    };
    for hash_key in 0..tier.pick(8u64, 16u64) {
        for policy in 0..3u8 {
            for im in [true, false] {
                let mut j = e3::job(
                    format!("C17/handoff/REQ/key{}/policy{}/{}", hash_key, policy, im),
                    json!({"scenario":"handoff","hash_key":hash_key,"policy":policy,"drop_immediately":im}),
                    tier.pick(1, 2),
                    50_000,
                    move || handoff_scenario(hash_key, policy, im),
                );
                j.on_blocked = blocked_handler("REQ".into());
                jobs.push(j);
            }
        }
    }
    e3::run_jobs_into(&mut ck, jobs, true);
    let ex = ck.coverage.get("e3_executions").and_then(|v| v.as_u64()).unwrap_or(0);
    ck.cov("states", n_cases + ck.coverage.get("e3_distinct_outcomes").and_then(|v| v.as_u64()).unwrap_or(0));
    ck.cov("transitions", n_cases + ex);
    ck.cov("traces_validated_against_impl", n_cases + ex);
    ck.cov("e4_cases", n_cases);
    ck.cov("e4_cases_with_findings", found.len() as u64);
    ck.cov("e4_cases_skipped_after_violations", skipped.load(Ordering::Relaxed) as u64);
    ck.cov("exhaustive", skipped.load(Ordering::Relaxed) == 0);
    ck.cov("explanation", format!("E4 (real tokio runtime, real sockets; OS schedules NOT enumerated, every expectation is a monotone condition awaited up to {} s): the complete grid 9 socket types x {{TCP v4, TCP v6, IPC}} x 8 history prefixes {:?} ('stalled-peer-with-backlog' - a peer that has stopped reading, with data stuck on the socket's side of its connection - for the 7 types that send; 'bound-and-at-once' - the action follows bind() without a suspension point) x {{close, drop}}{} = {} cases: close() returns, fresh connects are refused (immediately after close() returns), the IPC socket file is gone, the endpoint can be bound again, every established raw peer and every client parked in the handshake sees end-of-stream, close() reports no error in these failure-free histories, the runtime's alive-task count returns to its baseline. In a child process with a lowered descriptor limit: PULL/REP/PUB x {{IPC, TCP v4}} x {{close, drop}} after an accept() that failed for lack of descriptors while a client connected (afterwards the same expectations). E3 (controlled executor, model checking): for each type the socket is dropped at each of {} points of a scenario with an established peer with traffic and a second peer at 3 handshake stages, under every schedule within the deviation bound from 2 policies: the drop returns (a synchronous wait on a lock owned by a suspended task of the only thread is reported as thread-blocked), every connection half is dropped and every library-spawned task has completed by quiescence.", e4::HORIZON.as_secs(), HISTS, " x {multi-thread, current-thread} runtime", n_cases, tier.pick(10, 14)));
    ck.assume("E4 does not own OS scheduling or kernel socket buffers; its oracles are insensitive to them (monotone conditions, 5 s horizon where correct code needs milliseconds)");
    ck.assume("close()'s error reporting is checked only for failure-free closes");
    ck.conclude()
}
