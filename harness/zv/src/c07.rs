//! C07 — REQ/REP envelopes are added, preserved and stripped exactly (E3, sequential product).

use crate::e1::msg;
use crate::e3::{self, AnySocket, Ty};
use serde_json::{json, Value};
use zvcore::evidence::{Check, Tier};
use zvcore::explore::Verdict;
use zvcore::refcodec as rc;
use zvcore::world;

fn frame_kind(k: u8, pos: usize) -> Vec<u8> {
    match k {
        0 => vec![],
        1 => vec![b'x' + pos as u8],
        2 => rc::pattern(256, 40 + pos as u64, 0),
        _ => rc::pattern(70_000, 50 + pos as u64, 0),
    }
}

fn payload(kinds: &[u8]) -> Vec<Vec<u8>> {
    kinds.iter().enumerate().map(|(i, k)| frame_kind(*k, i)).collect()
}

fn prefix(n: u8) -> Vec<Vec<u8>> {
    // identity frames of intermediaries: 1 byte and 255 bytes, never empty
    (0..n)
        .map(|i| if i % 2 == 0 { vec![b'A' + i] } else { rc::pattern(255, 60 + i as u64, 0).iter().map(|b| b | 1).collect() })
        .collect()
}

#[derive(Clone, Debug)]
enum Case {
    /// real REQ, raw REP-like peer that answers with `reply_shape`
    ReqSide { kinds: Vec<u8>, reply: ReplyShape },
    /// raw peer sends prefix + "" + payload to a real REP, which replies with the reversed payload
    RepSide { kinds: Vec<u8>, prefix: u8 },
    /// degenerate requests to a real REP
    RepDegenerate { frames: Vec<Vec<u8>> },
    /// real REQ <-> real REP
    BackToBack { kinds: Vec<u8> },
    /// two requests in a row on ONE real REP: the reply to the second must carry exactly the
    /// second request's envelope whatever happened to the first.
    /// first: 0 bare answered, 1 prefixed answered, 2 prefixed NOT answered, 3 degenerate [id, ""] (rejected),
    /// 4 prefixed, reply attempted after the requester's connection failed writes,
    /// 5/6 prefixed, the reply's send abandoned under back-pressure (after 7 bytes / before any byte), then sent again
    RepTwoStep { first: u8, first_prefix: u8, second_prefix: u8 },
    /// a history on ONE real REQ socket with two echo peers (identities ID0, ID1): steps
    /// 0 = request/reply cycle, 1/2 = peer 0/1 closes its connection, 3/4 = peer 0/1's connection starts failing writes,
    /// 5 = peer 0 connects again under the same identity. Every request that send() accepts must go out as exactly
    /// ["", payload] on exactly one connection and its echoed reply must come back as the payload.
    ReqHistory { steps: Vec<u8> },
}

#[derive(Clone, Debug, PartialEq)]
enum ReplyShape {
    /// ["", payload reversed]
    Good,
    /// [payload...] without delimiter (first frame forced non-empty)
    NoDelimiter,
    /// single frame
    SingleFrame,
    /// [id, "", payload]: routing prefix in front of the delimiter
    WithPrefix,
    /// just the delimiter
    DelimiterOnly,
}

fn case_json(c: &Case) -> Value {
    match c {
        Case::ReqSide { kinds, reply } => json!({"case":"req","kinds":kinds,"reply":format!("{:?}", reply)}),
        Case::RepSide { kinds, prefix } => json!({"case":"rep","kinds":kinds,"prefix":prefix}),
        Case::RepDegenerate { frames } => json!({"case":"repdeg","frames":frames.iter().map(|f| rc::hex(f)).collect::<Vec<_>>()}),
        Case::BackToBack { kinds } => json!({"case":"b2b","kinds":kinds}),
        Case::RepTwoStep { first, first_prefix, second_prefix } => json!({"case":"rep2","first":first,"first_prefix":first_prefix,"second_prefix":second_prefix}),
        Case::ReqHistory { steps } => json!({"case":"reqhist","steps":steps}),
    }
}

fn case_from(v: &Value) -> Option<Case> {
    let kinds = || -> Vec<u8> { v["kinds"].as_array().map(|a| a.iter().map(|x| x.as_u64().unwrap_or(0) as u8).collect()).unwrap_or_default() };
    Some(match v["case"].as_str()? {
        "req" => Case::ReqSide {
            kinds: kinds(),
            reply: match v["reply"].as_str()? {
                "Good" => ReplyShape::Good,
                "NoDelimiter" => ReplyShape::NoDelimiter,
                "SingleFrame" => ReplyShape::SingleFrame,
                "WithPrefix" => ReplyShape::WithPrefix,
                _ => ReplyShape::DelimiterOnly,
            },
        },
        "rep" => Case::RepSide { kinds: kinds(), prefix: v["prefix"].as_u64()? as u8 },
        "repdeg" => Case::RepDegenerate { frames: v["frames"].as_array()?.iter().map(|f| rc::unhex(f.as_str().unwrap_or(""))).collect() },
        "reqhist" => Case::ReqHistory { steps: v["steps"].as_array()?.iter().map(|x| x.as_u64().unwrap_or(0) as u8).collect() },
        "rep2" => Case::RepTwoStep { first: v["first"].as_u64()? as u8, first_prefix: v["first_prefix"].as_u64()? as u8, second_prefix: v["second_prefix"].as_u64()? as u8 },
        _ => Case::BackToBack { kinds: kinds() },
    })
}

fn show(m: &[Vec<u8>]) -> String {
    rc::show_frames(m)
}

fn scenario(case: &Case) -> Verdict {
    let free = matches!(case, Case::ReqHistory { .. });
    world::reset(world::WorldCfg { nested_env: free, yields: free, select: false, policy: 0, coop: false });
    let viol = std::rc::Rc::new(std::cell::RefCell::new(Vec::<(String, String)>::new()));
    let obs = std::rc::Rc::new(std::cell::RefCell::new(Vec::<String>::new()));
    let (viol2, obs2) = (viol.clone(), obs.clone());
    match case.clone() {
        Case::ReqSide { kinds, reply } => {
            let pl = payload(&kinds);
            let c = e3::raw_conn("rep");
            c.send(&rc::handshake("REP", None));
            let mut rev = pl.clone();
            rev.reverse();
            let reply_frames: Vec<Vec<u8>> = match reply {
                ReplyShape::Good => {
                    let mut v = vec![vec![]];
                    v.extend(rev.clone());
                    v
                }
                ReplyShape::NoDelimiter => {
                    let mut v = vec![b"nd".to_vec()];
                    v.extend(rev.clone());
                    v
                }
                ReplyShape::SingleFrame => vec![b"single".to_vec()],
                ReplyShape::WithPrefix => {
                    let mut v = vec![b"I".to_vec(), vec![]];
                    v.extend(rev.clone());
                    v
                }
                ReplyShape::DelimiterOnly => vec![vec![]],
            };
            // the raw peer answers once it has seen one complete request
            let to_lib = c.to_lib;
            let rf = reply_frames.clone();
            let mut done = false;
            world::set_sink(
                c.from_lib,
                Box::new(move |tap: &[u8]| {
                    if !done && !rc::decode_stream(tap, true).messages().is_empty() {
                        done = true;
                        return vec![(to_lib, world::Chunk::Data(rc::encode_message(&rf)))];
                    }
                    vec![]
                }),
            );
            world::spawn_app("app", async move {
                let mut s = AnySocket::new(Ty::Req, None);
                let _ = e3::attach_raw(s.backend(), c).await;
                let r = s.send(msg(&pl)).await;
                obs2.borrow_mut().push(format!("send -> {}", e3::ok_or_err(&r)));
                let wire = c.tap_messages();
                let mut want = vec![vec![]];
                want.extend(pl.clone());
                if wire != vec![want.clone()] {
                    viol2.borrow_mut().push((
                        "req-send/wire-envelope".into(),
                        format!("REQ.send({}) put {:?} on the wire, expected exactly one message {}", show(&pl), wire.iter().map(|m| show(m)).collect::<Vec<_>>(), show(&want)),
                    ));
                }
                let r = world::until_idle(s.recv()).await;
                let rs = r.as_ref().map(e3::show_result).unwrap_or_else(|| "pending".into());
                obs2.borrow_mut().push(format!("recv -> {}", rs));
                match reply {
                    ReplyShape::Good => {
                        if rs != format!("Ok{}", show(&rev)) {
                            viol2.borrow_mut().push(("req-recv/delimiter-not-stripped-exactly".into(), format!("reply {} on the wire came back from REQ.recv as {}, expected Ok{}", show(&reply_frames), rs, show(&rev))));
                        }
                    }
                    _ => {
                        if rs.starts_with("Ok") {
                            viol2.borrow_mut().push((format!("req-recv/accepted-malformed-reply/{:?}", reply), format!("malformed reply {} was handed to the application as {}", show(&reply_frames), rs)));
                        }
                    }
                }
                world::wait_cond("never").await;
                drop(s);
            });
        }
        Case::RepSide { kinds, prefix: np } => {
            let pl = payload(&kinds);
            let pf = prefix(np);
            let c = e3::raw_conn("req");
            c.send(&rc::handshake(if np == 0 { "REQ" } else { "DEALER" }, None));
            let mut request = pf.clone();
            request.push(vec![]);
            request.extend(pl.clone());
            c.send(&rc::encode_message(&request));
            let mut rev = pl.clone();
            rev.reverse();
            world::spawn_app("app", async move {
                let mut s = AnySocket::new(Ty::Rep, None);
                let _ = e3::attach_raw(s.backend(), c).await;
                let r = world::until_idle(s.recv()).await;
                let rs = r.as_ref().map(e3::show_result).unwrap_or_else(|| "pending".into());
                obs2.borrow_mut().push(format!("recv -> {}", rs));
                if rs != format!("Ok{}", show(&pl)) {
                    viol2.borrow_mut().push(("rep-recv/payload".into(), format!("request {} came out of REP.recv as {}, expected Ok{}", show(&request), rs, show(&pl))));
                    return;
                }
                let r = s.send(msg(&rev)).await;
                obs2.borrow_mut().push(format!("send -> {}", e3::ok_or_err(&r)));
                let mut want = pf.clone();
                want.push(vec![]);
                want.extend(rev.clone());
                let wire = c.tap_messages();
                if wire != vec![want.clone()] {
                    viol2.borrow_mut().push(("rep-send/reply-envelope".into(), format!("reply to request {}: wire carries {:?}, expected exactly {}", show(&request), wire.iter().map(|m| show(m)).collect::<Vec<_>>(), show(&want))));
                }
                world::wait_cond("never").await;
                drop(s);
            });
        }
        Case::RepDegenerate { frames } => {
            let c = e3::raw_conn("req");
            c.send(&rc::handshake("DEALER", None));
            c.send(&rc::encode_message(&frames));
            world::spawn_app("app", async move {
                let mut s = AnySocket::new(Ty::Rep, None);
                let _ = e3::attach_raw(s.backend(), c).await;
                let r = world::until_idle(s.recv()).await;
                let rs = r.as_ref().map(e3::show_result).unwrap_or_else(|| "pending".into());
                obs2.borrow_mut().push(format!("recv -> {}", rs));
                if let Some(Ok(m)) = &r {
                    if m.is_empty() {
                        viol2.borrow_mut().push(("rep-recv/zero-frame-message".into(), format!("request {} (nothing after its delimiter) was handed to the application as a message with zero frames", show(&frames))));
                    } else if frames.iter().filter(|f| !f.is_empty()).count() == frames.len() - 1 && frames.last().map(|f| f.is_empty()) == Some(true) {
                        viol2.borrow_mut().push(("rep-recv/delimiter-last-accepted".into(), format!("request {} has no frame after its delimiter but recv returned {}", show(&frames), rs)));
                    }
                }
                world::wait_cond("never").await;
                drop(s);
            });
        }
        Case::BackToBack { kinds } => {
            let pl = payload(&kinds);
            let mut rev = pl.clone();
            rev.reverse();
            rev.push(b"tail".to_vec());
            let (a, b) = e3::lib_conn("rr");
            let (obs3, viol3) = (obs.clone(), viol.clone());
            let (pl2, rev2) = (pl.clone(), rev.clone());
            world::spawn_app("rep", async move {
                let mut s = AnySocket::new(Ty::Rep, None);
                let (r, w) = b.halves();
                let _ = zeromq::__verif::attach(s.backend(), r, w).await;
                let r = world::until_idle(s.recv()).await;
                let rs = r.as_ref().map(e3::show_result).unwrap_or_else(|| "pending".into());
                obs3.borrow_mut().push(format!("rep.recv -> {}", rs));
                if rs != format!("Ok{}", show(&pl2)) {
                    viol3.borrow_mut().push(("b2b/request-modified".into(), format!("REQ sent {}, REP received {}", show(&pl2), rs)));
                    return;
                }
                let r = s.send(msg(&rev2)).await;
                obs3.borrow_mut().push(format!("rep.send -> {}", e3::ok_or_err(&r)));
                world::wait_cond("never").await;
                drop(s);
            });
            world::spawn_app("req", async move {
                let mut s = AnySocket::new(Ty::Req, None);
                let (r, w) = a.halves();
                let _ = zeromq::__verif::attach(s.backend(), r, w).await;
                let r = s.send(msg(&pl)).await;
                obs2.borrow_mut().push(format!("req.send -> {}", e3::ok_or_err(&r)));
                let r = world::until_idle(s.recv()).await;
                let rs = r.as_ref().map(e3::show_result).unwrap_or_else(|| "pending".into());
                obs2.borrow_mut().push(format!("req.recv -> {}", rs));
                if rs != format!("Ok{}", show(&rev)) {
                    viol2.borrow_mut().push(("b2b/reply-modified".into(), format!("REP replied {}, REQ received {}", show(&rev), rs)));
                }
                world::wait_cond("never").await;
                drop(s);
            });
        }
        Case::RepTwoStep { first, first_prefix, second_prefix } => {
            let c1 = e3::raw_conn("first");
            let c2 = e3::raw_conn("second");
            c1.send(&rc::handshake("DEALER", Some(b"C1")));
            c2.send(&rc::handshake("DEALER", Some(b"C2")));
            let pf1 = prefix(first_prefix);
            let pf2: Vec<Vec<u8>> = prefix(second_prefix).into_iter().map(|mut f| { f[0] ^= 0x20; f }).collect();
            let req1: Vec<Vec<u8>> = if first == 3 {
                let mut r = pf1.clone();
                r.push(vec![]);
                r
            } else {
                let mut r = pf1.clone();
                r.push(vec![]);
                r.push(b"one".to_vec());
                r
            };
            c1.send(&rc::encode_message(&req1));
            c2.gate("second-go");
            let mut req2 = pf2.clone();
            req2.push(vec![]);
            req2.push(b"two".to_vec());
            req2.push(vec![]);
            c2.send(&rc::encode_message(&req2));
            world::spawn_app("app", async move {
                let mut s = AnySocket::new(Ty::Rep, None);
                let _ = e3::attach_raw(s.backend(), c1).await;
                let _ = e3::attach_raw(s.backend(), c2).await;
                let r = world::until_idle(s.recv()).await;
                let rs = r.as_ref().map(e3::show_result).unwrap_or_else(|| "pending".into());
                obs2.borrow_mut().push(format!("recv#1 -> {}", rs));
                match first {
                    0 | 1 => {
                        let r = s.send(msg(&[b"r1".to_vec()])).await;
                        obs2.borrow_mut().push(format!("send#1 -> {}", e3::ok_or_err(&r)));
                    }
                    4 => {
                        world::set_wmode(c1.from_lib, world::WMode::Fail(std::io::ErrorKind::BrokenPipe));
                        let r = s.send(msg(&[b"r1".to_vec()])).await;
                        obs2.borrow_mut().push(format!("send#1 -> {}", e3::ok_or_err(&r)));
                    }
                    5 | 6 => {
                        // the requester's connection takes 7 bytes (5) / nothing (6) and stalls; the reply's send is
                        // abandoned (a timeout around send()), the connection recovers, the application tries again
                        world::set_wmode(c1.from_lib, if first == 5 { world::WMode::Budget(7) } else { world::WMode::Stalled });
                        let r = world::until_idle(s.send(msg(&[b"r1".to_vec()]))).await;
                        obs2.borrow_mut().push(format!("send#1 -> {}", r.as_ref().map(|r| e3::ok_or_err(r)).unwrap_or_else(|| "abandoned".into())));
                        world::set_wmode(c1.from_lib, world::WMode::Open);
                        world::yield_now().await;
                        let r = world::until_idle(s.send(msg(&[b"r1".to_vec()]))).await;
                        obs2.borrow_mut().push(format!("send#1 again -> {}", r.as_ref().map(|r| e3::ok_or_err(r)).unwrap_or_else(|| "abandoned".into())));
                    }
                    _ => {}
                }
                world::set_cond("second-go");
                let r = world::until_idle(s.recv()).await;
                let rs = r.as_ref().map(e3::show_result).unwrap_or_else(|| "pending".into());
                obs2.borrow_mut().push(format!("recv#2 -> {}", rs));
                let want_payload = vec![b"two".to_vec(), vec![]];
                if rs != format!("Ok{}", show(&want_payload)) {
                    viol2.borrow_mut().push(("rep-two-step/second-request".into(), format!("second request {} came out as {}", show(&req2), rs)));
                    return;
                }
                let before = c2.tap_messages().len();
                let r = s.send(msg(&[b"r2".to_vec(), vec![], b"tail".to_vec()])).await;
                obs2.borrow_mut().push(format!("send#2 -> {}", e3::ok_or_err(&r)));
                let mut want = pf2.clone();
                want.push(vec![]);
                want.extend(vec![b"r2".to_vec(), vec![], b"tail".to_vec()]);
                let wire = c2.tap_messages();
                if wire.len() != before + 1 || wire.last() != Some(&want) {
                    viol2.borrow_mut().push((
                        "rep-two-step/reply-envelope-not-that-of-the-request-being-answered".into(),
                        format!("first request {} ({}), second request {}: the reply to the second went out as {:?}, expected exactly {}", show(&req1), ["answered", "answered", "left unanswered", "rejected (nothing after its delimiter)", "reply failed on a broken connection", "reply abandoned under back-pressure after 7 bytes, then sent again", "reply abandoned before a byte was written, then sent again"][first as usize], show(&req2), wire.iter().skip(before).map(|m| show(m)).collect::<Vec<_>>(), show(&want)),
                    ));
                }
                // whatever became of the first reply: every complete message on the first requester's connection is
                // that reply behind exactly the first request's envelope
                world::idle().await;
                let mut want1 = pf1.clone();
                want1.push(vec![]);
                want1.push(b"r1".to_vec());
                let wire1 = c1.tap_messages();
                if wire1.iter().any(|m| *m != want1) || wire1.len() > if first >= 5 { 2 } else { 1 } {
                    viol2.borrow_mut().push((
                        "rep-two-step/first-requester-wire".into(),
                        format!("first request {} ({}): the first requester's connection carries {:?}, every message there must be {}", show(&req1), ["answered", "answered", "left unanswered", "rejected (nothing after its delimiter)", "reply failed on a broken connection", "reply abandoned under back-pressure after 7 bytes, then sent again", "reply abandoned before a byte was written, then sent again"][first as usize], wire1.iter().map(|m| show(m)).collect::<Vec<_>>(), show(&want1)),
                    ));
                }
                world::wait_cond("never").await;
                drop(s);
            });
        }
        Case::ReqHistory { steps } => {
            let mut conns: Vec<e3::RawConn> = Vec::new();
            for p in 0..2 {
                let c = e3::raw_conn(&format!("P{}", p));
                c.send(&rc::handshake("REP", Some(format!("ID{}", p).as_bytes())));
                e3::make_echo_peer(c);
                conns.push(c);
            }
            let names = ["request/reply", "peer 0 closes", "peer 1 closes", "peer 0's connection fails writes", "peer 1's connection fails writes", "peer 0 reconnects under its identity"];
            let hist: Vec<&str> = steps.iter().map(|s| names[*s as usize]).collect();
            let hist = hist.join(", ");
            world::spawn_app("app", async move {
                let mut s = AnySocket::new(Ty::Req, None);
                for c in &conns {
                    let _ = e3::attach_raw(s.backend(), *c).await;
                }
                // current connection of peer 0 / peer 1, plus every connection ever made
                let mut cur = [conns[0], conns[1]];
                let mut all = conns.clone();
                let mut reqno = 0usize;
                let mut all_steps = steps.clone();
                all_steps.extend([0, 0, 0]);
                for st in all_steps {
                    match st {
                        1 | 2 => {
                            let c = cur[(st - 1) as usize];
                            world::set_sink(c.from_lib, Box::new(|_| vec![]));
                            c.eof();
                        }
                        3 | 4 => world::set_wmode(cur[(st - 3) as usize].from_lib, world::WMode::Fail(std::io::ErrorKind::BrokenPipe)),
                        5 => {
                            let c = e3::raw_conn(&format!("P0r{}", all.len()));
                            c.send(&rc::handshake("REP", Some(b"ID0")));
                            e3::make_echo_peer(c);
                            let r = e3::attach_raw(s.backend(), c).await;
                            obs2.borrow_mut().push(format!("reconnect -> {}", e3::ok_or_err(&r)));
                            cur[0] = c;
                            all.push(c);
                        }
                        _ => {
                            reqno += 1;
                            let pl = vec![format!("q{}", reqno).into_bytes(), vec![], b"z".to_vec()];
                            let before: Vec<usize> = all.iter().map(|c| c.tap().len()).collect();
                            let r = s.send(msg(&pl)).await;
                            obs2.borrow_mut().push(format!("send#{} -> {}", reqno, e3::ok_or_err(&r)));
                            let grown: Vec<(usize, Vec<u8>)> = all.iter().enumerate().filter_map(|(i, c)| { let t = c.tap(); if t.len() > before[i] { Some((i, t[before[i]..].to_vec())) } else { None } }).collect();
                            match &r {
                                Ok(()) => {
                                    let mut want = vec![vec![]];
                                    want.extend(pl.clone());
                                    let ok = grown.len() == 1 && grown[0].1 == rc::encode_message(&want);
                                    if !ok {
                                        viol2.borrow_mut().push((
                                            "req-history/wire-envelope".into(),
                                            format!("REQ with two peers after [{}]: send#{}({}) returned Ok but the wire carries {:?}, expected exactly {} on one connection", hist, reqno, show(&pl), grown.iter().map(|(i, b)| format!("conn{}: {:?}", i, rc::decode_stream(b, false).messages().iter().map(|m| show(m)).collect::<Vec<_>>())).collect::<Vec<_>>(), show(&want)),
                                        ));
                                        return;
                                    }
                                }
                                Err(zeromq::ZmqError::ReturnToSender { message, .. }) => {
                                    if crate::e1::frames_of(message) != pl {
                                        viol2.borrow_mut().push((
                                            "req-history/returned-message-modified".into(),
                                            format!("REQ with two peers after [{}]: send#{}({}) failed and handed back {}", hist, reqno, show(&pl), show(&crate::e1::frames_of(message))),
                                        ));
                                        return;
                                    }
                                    continue;
                                }
                                Err(_) => continue,
                            }
                            let r = world::until_idle(s.recv()).await;
                            let rs = r.as_ref().map(e3::show_result).unwrap_or_else(|| "pending".into());
                            obs2.borrow_mut().push(format!("recv#{} -> {}", reqno, rs));
                            if rs.starts_with("Ok") && rs != format!("Ok{}", show(&pl)) {
                                viol2.borrow_mut().push((
                                    "req-history/reply-not-stripped-exactly".into(),
                                    format!("REQ with two peers after [{}]: the echo of request {} came back as {}", hist, show(&pl), rs),
                                ));
                                return;
                            }
                            if r.is_none() {
                                break;
                            }
                        }
                    }
                }
                world::wait_cond("never").await;
                drop(s);
            });
        }
    }
    let end = world::run(e3::HORIZON);
    let mut v = Verdict::default();
    v.truncated = end != world::RunEnd::Quiescent;
    for p in world::panics() {
        v.violate("panic", format!("{:?}: {}", case_json(case), p));
    }
    for (c, m) in viol.borrow().iter() {
        v.violate(c.clone(), m.clone());
    }
    let o = obs.borrow().clone();
    for l in &o {
        world::log(l.clone());
    }
    v.outcome_hash = rc::fnv(o.join("|").as_bytes());
    e3::finish(v)
}

pub fn run(tier: Tier, replay: Option<String>) -> i32 {
    world::install_panic_hook();
    let mut ck = Check::new("C07", tier, "model_checking");
    if let Some(path) = replay {
        let v: Value = serde_json::from_str(&std::fs::read_to_string(&path).expect("read")).expect("json");
        return crate::replay::replay_e3(&v, |p| {
            let c = case_from(p)?;
            Some(std::sync::Arc::new(move || scenario(&c)) as zvcore::explore::Scenario)
        });
    }
    let nk: u8 = tier.pick(3, 4);
    let mut payloads: Vec<Vec<u8>> = Vec::new();
    for n in 1..=4usize {
        let mut idx = vec![0u8; n];
        loop {
            // at most one 70 kB frame per payload keeps the thorough tier affordable
            if idx.iter().filter(|k| **k == 3).count() <= 1 {
                payloads.push(idx.clone());
            }
            let mut i = 0;
            while i < n {
                idx[i] += 1;
                if idx[i] < nk {
                    break;
                }
                idx[i] = 0;
                i += 1;
            }
            if i == n {
                break;
            }
        }
    }
    let mut cases: Vec<Case> = Vec::new();
    for p in &payloads {
        cases.push(Case::ReqSide { kinds: p.clone(), reply: ReplyShape::Good });
        for np in 0..=3u8 {
            cases.push(Case::RepSide { kinds: p.clone(), prefix: np });
        }
        cases.push(Case::BackToBack { kinds: p.clone() });
    }
    for p in payloads.iter().filter(|p| p.len() <= 2) {
        for r in [ReplyShape::NoDelimiter, ReplyShape::SingleFrame, ReplyShape::WithPrefix, ReplyShape::DelimiterOnly] {
            cases.push(Case::ReqSide { kinds: p.clone(), reply: r });
        }
    }
    for first in 0..7u8 {
        for first_prefix in 0..=2u8 {
            if first == 0 && first_prefix != 0 || (first != 0 && first_prefix == 0) {
                continue;
            }
            for second_prefix in 0..=2u8 {
                cases.push(Case::RepTwoStep { first, first_prefix, second_prefix });
            }
        }
    }
    // REQ histories: every sequence of 1..=L steps
    let hl = tier.pick(5usize, 6usize);
    let mut n_hist = 0u64;
    for len in 1..=hl {
        let mut idx = vec![0u8; len];
        loop {
            cases.push(Case::ReqHistory { steps: idx.clone() });
            n_hist += 1;
            let mut i = 0;
            while i < len {
                idx[i] += 1;
                if idx[i] < 6 {
                    break;
                }
                idx[i] = 0;
                i += 1;
            }
            if i == len {
                break;
            }
        }
    }
    let id = b"I".to_vec();
    for f in [
        vec![vec![]],
        vec![b"x".to_vec()],
        vec![id.clone(), vec![]],
        vec![id.clone(), b"J".to_vec(), vec![]],
        vec![id.clone(), b"J".to_vec(), b"K".to_vec(), vec![]],
        vec![vec![], vec![]],
    ] {
        cases.push(Case::RepDegenerate { frames: f });
    }
    let n = cases.len();
    let jobs: Vec<_> = cases
        .into_iter()
        .enumerate()
        .map(|(i, c)| {
            let c2 = c.clone();
            let bound = match &c {
                Case::ReqHistory { steps } if steps.len() <= 3 => tier.pick(1, 2),
                Case::ReqHistory { steps } if steps.len() <= 4 => tier.pick(0, 1),
                _ => 0,
            };
            e3::job(format!("C07/{}/{}", i, case_json(&c)), case_json(&c), bound, 200_000, move || scenario(&c2))
        })
        .collect();
    e3::run_jobs_into(&mut ck, jobs, false);
    let ex = ck.coverage.get("e3_executions").and_then(|v| v.as_u64()).unwrap_or(0);
    ck.cov("states", n as u64);
    ck.cov("transitions", ex);
    ck.cov("traces_validated_against_impl", ex);
    ck.cov("payload_shapes", payloads.len() as u64);
    ck.cov("req_histories", n_hist);
    ck.cov("exhaustive", true);
    ck.cov("explanation", format!("complete product: {} payload shapes (1..4 frames, each empty / 1 byte / 256 bytes{}) x (A) real REQ against a raw REP peer (wire after send must be exactly [\"\",payload]; reply [\"\",r] must come back as r; 4 malformed reply shapes must never be handed over as Ok), (B) raw REQ/DEALER/ROUTER-chain peer with 0..3 identity frames (1 B / 255 B) against a real REP (recv = frames after the first empty frame; reply on the wire = prefix + \"\" + reply), (C) real REQ <-> real REP back to back; plus 6 degenerate requests (delimiter-only, single frame, delimiter last) that must never surface as a zero-frame message; plus two-step histories on ONE REP socket (first request bare / routed, answered / left unanswered / rejected / its reply failing on a broken connection; second request bare or routed): the reply to the second request must carry exactly the second request's envelope; plus every history of 1..={} steps on ONE REQ socket with two echo peers over {{request/reply, peer 0/1 closes, peer 0/1's connection fails writes, peer 0 reconnects under its identity}} followed by three more request/reply cycles: every accepted request goes out as exactly [\"\", payload] on exactly one connection, a refused one is handed back unmodified, every echoed reply comes back as the payload. states = cases, transitions = executions (sequential code: one schedule per case).", payloads.len(), tier.pick("", " / 70000 bytes"), hl));
    ck.assume("envelope handling is sequential per socket: no scheduling choice influences it (one execution per case), except in the REQ histories, whose short members (<= 3 steps; thorough <= 4) are also run under every schedule with 1 (thorough 2, resp. 1) deviations");
    ck.assume("requests with no empty frame at all are not judged (the statement does not define them)");
    ck.conclude()
}
