//! Engine E4: the real tokio runtime and real TCP / IPC transports.
//!
//! Enumerates finite configuration x history x fault-offset grids exhaustively;
//! OS scheduling is NOT enumerated. Every expectation is a monotone condition
//! (becomes true and stays true for correct code) awaited up to a horizon.

use crate::e3::Ty;
use std::path::PathBuf;
use std::sync::atomic::{AtomicU64, Ordering};
use std::time::{Duration, Instant};
use tokio::io::{AsyncReadExt, AsyncWriteExt};
use tokio::net::{TcpStream, UnixStream};
use zvcore::refcodec as rc;

pub const HORIZON: Duration = Duration::from_secs(5);

#[derive(Clone, Copy, Debug, PartialEq, Eq, Hash)]
pub enum Tr {
    Tcp4,
    Tcp6,
    Ipc,
}

impl Tr {
    pub fn name(&self) -> &'static str {
        match self {
            Tr::Tcp4 => "tcp4",
            Tr::Tcp6 => "tcp6",
            Tr::Ipc => "ipc",
        }
    }
    pub fn from_name(s: &str) -> Option<Tr> {
        [Tr::Tcp4, Tr::Tcp6, Tr::Ipc].into_iter().find(|t| t.name() == s)
    }
}

static COUNTER: AtomicU64 = AtomicU64::new(0);

pub fn ipc_path() -> PathBuf {
    let dir = std::env::temp_dir().join(format!("zv-e4-{}", std::process::id()));
    let _ = std::fs::create_dir_all(&dir);
    dir.join(format!("s{}.sock", COUNTER.fetch_add(1, Ordering::Relaxed)))
}

pub fn cleanup_ipc_dir() {
    let dir = std::env::temp_dir().join(format!("zv-e4-{}", std::process::id()));
    let _ = std::fs::remove_dir_all(dir);
}

pub fn bind_spec(tr: Tr) -> String {
    match tr {
        Tr::Tcp4 => "tcp://127.0.0.1:0".to_string(),
        Tr::Tcp6 => "tcp://[::1]:0".to_string(),
        Tr::Ipc => format!("ipc://{}", ipc_path().display()),
    }
}

pub enum RawStream {
    Tcp(TcpStream),
    Unix(UnixStream),
}

impl RawStream {
    pub async fn connect(ep: &zeromq::Endpoint) -> std::io::Result<RawStream> {
        match ep {
            zeromq::Endpoint::Tcp(host, port) => {
                let h = host.to_string();
                let s = TcpStream::connect((h.as_str(), *port)).await?;
                let _ = s.set_nodelay(true);
                Ok(RawStream::Tcp(s))
            }
            zeromq::Endpoint::Ipc(Some(p)) => Ok(RawStream::Unix(UnixStream::connect(p).await?)),
            _ => Err(std::io::Error::new(std::io::ErrorKind::Other, "unsupported endpoint")),
        }
    }

    pub async fn write_all(&mut self, b: &[u8]) -> std::io::Result<()> {
        match self {
            RawStream::Tcp(s) => s.write_all(b).await,
            RawStream::Unix(s) => s.write_all(b).await,
        }
    }

    pub async fn read_some(&mut self, buf: &mut [u8]) -> std::io::Result<usize> {
        match self {
            RawStream::Tcp(s) => s.read(buf).await,
            RawStream::Unix(s) => s.read(buf).await,
        }
    }

    /// Reads until `pred(bytes so far)` holds, EOF, error or the horizon.
    pub async fn read_until(&mut self, acc: &mut Vec<u8>, horizon: Duration, pred: impl Fn(&[u8]) -> bool) -> ReadEnd {
        let t0 = Instant::now();
        let mut buf = [0u8; 4096];
        loop {
            if pred(acc) {
                return ReadEnd::Satisfied;
            }
            let left = horizon.checked_sub(t0.elapsed()).unwrap_or(Duration::ZERO);
            if left.is_zero() {
                return ReadEnd::Timeout;
            }
            match tokio::time::timeout(left, self.read_some(&mut buf)).await {
                Err(_) => return ReadEnd::Timeout,
                Ok(Ok(0)) => return ReadEnd::Eof,
                Ok(Ok(n)) => acc.extend_from_slice(&buf[..n]),
                Ok(Err(_)) => return ReadEnd::Error,
            }
        }
    }

    /// Waits for end-of-stream (or a reset, which also ends the connection).
    pub async fn wait_closed(&mut self, horizon: Duration) -> bool {
        let mut acc = Vec::new();
        matches!(self.read_until(&mut acc, horizon, |_| false).await, ReadEnd::Eof | ReadEnd::Error)
    }
}

#[derive(Debug, PartialEq, Eq)]
pub enum ReadEnd {
    Satisfied,
    Eof,
    Error,
    Timeout,
}

/// A well-behaved raw peer: sends greeting + READY, waits for the library's greeting + READY.
pub async fn raw_handshake(s: &mut RawStream, peer_type: &str, identity: Option<&[u8]>) -> Result<Vec<u8>, String> {
    s.write_all(&rc::handshake(peer_type, identity)).await.map_err(|e| format!("write: {}", e))?;
    let mut acc = Vec::new();
    let end = s
        .read_until(&mut acc, HORIZON, |b| {
            let d = rc::decode_stream(b, true);
            d.items.iter().any(|(i, _)| matches!(i, rc::RItem::Command { .. }))
        })
        .await;
    if end == ReadEnd::Satisfied {
        Ok(acc)
    } else {
        Err(format!("library's greeting+READY not received: {:?} after {} bytes", end, acc.len()))
    }
}

/// Polls a condition until it holds or the horizon passes. Returns (held, held at the first test).
pub async fn await_cond(horizon: Duration, mut f: impl FnMut() -> bool) -> (bool, bool) {
    let first = f();
    if first {
        return (true, true);
    }
    let t0 = Instant::now();
    while t0.elapsed() < horizon {
        tokio::time::sleep(Duration::from_millis(5)).await;
        if f() {
            return (true, false);
        }
    }
    (false, false)
}

pub async fn await_cond_async<F, Fut>(horizon: Duration, mut f: F) -> (bool, bool)
where
    F: FnMut() -> Fut,
    Fut: std::future::Future<Output = bool>,
{
    let first = f().await;
    if first {
        return (true, true);
    }
    let t0 = Instant::now();
    while t0.elapsed() < horizon {
        tokio::time::sleep(Duration::from_millis(5)).await;
        if f().await {
            return (true, false);
        }
    }
    (false, false)
}

/// true if a fresh connection attempt to the endpoint is refused / impossible
pub async fn refuses(ep: &zeromq::Endpoint) -> bool {
    match tokio::time::timeout(Duration::from_secs(2), RawStream::connect(ep)).await {
        Ok(Err(_)) => true,
        Ok(Ok(_)) => false,
        Err(_) => false,
    }
}

/// Runs one E4 case on a runtime and a thread of its own and waits for it at most `deadline`. `None` means the case
/// did not come back: a runtime thread is blocked for ever (then not even the case's own timeouts fire). The thread is
/// abandoned; the caller should report the case and end the process soon (exiting is what gets rid of the thread).
pub fn block_on_deadline<T, F, Fut>(workers: usize, deadline: Duration, f: F) -> Option<T>
where
    T: Send + 'static,
    F: FnOnce() -> Fut + Send + 'static,
    Fut: std::future::Future<Output = T>,
{
    let (tx, rx) = std::sync::mpsc::channel();
    let _ = std::thread::Builder::new().name("e4-case".into()).spawn(move || {
        let rt = runtime(workers);
        let r = std::panic::catch_unwind(std::panic::AssertUnwindSafe(|| rt.block_on(f())));
        let _ = tx.send(r.map_err(|p| p.downcast_ref::<String>().cloned().or_else(|| p.downcast_ref::<&str>().map(|s| s.to_string())).unwrap_or_default()));
        rt.shutdown_timeout(Duration::from_millis(200));
    });
    match rx.recv_timeout(deadline) {
        Ok(Ok(v)) => {
            *LAST_CASE_FAILURE.lock().unwrap() = String::new();
            Some(v)
        }
        Ok(Err(panic)) => {
            // library code called directly by the case (not in a spawned task) panicked
            *LAST_CASE_FAILURE.lock().unwrap() = format!("PANIC in library code called by the case: {}", panic);
            None
        }
        Err(_) => {
            *LAST_CASE_FAILURE.lock().unwrap() = String::new();
            None
        }
    }
}

static LAST_CASE_FAILURE: std::sync::Mutex<String> = std::sync::Mutex::new(String::new());

/// Turns the (class, message) a caller would report for a case that did not come back into the right one: a hang
/// as given, a panic of library code called directly by the case as `panic/in-case`.
pub fn hung_or_panicked(class_if_hung: String, msg_if_hung: String) -> (String, String) {
    let why = last_case_failure();
    if why.is_empty() {
        (class_if_hung, msg_if_hung)
    } else {
        ("panic/library-code-called-by-the-case".to_string(), format!("{} [{}]", why, msg_if_hung.split(':').next().unwrap_or("")))
    }
}

/// Why the last `block_on_deadline` on any thread returned `None`, if it was not the deadline.
pub fn last_case_failure() -> String {
    LAST_CASE_FAILURE.lock().unwrap().clone()
}

/// Hard per-case deadline: a failing case waits out a handful of 5 s horizons; nothing legitimate takes this long.
pub const CASE_DEADLINE: Duration = Duration::from_secs(120);

/// Runs a child process of this executable and collects its stdout, killing it after `deadline`.
pub fn child_output(args: &[&str], deadline: Duration) -> Result<(bool, String), String> {
    let exe = std::env::current_exe().map_err(|e| e.to_string())?;
    let mut ch = std::process::Command::new(exe)
        .args(args)
        .stdin(std::process::Stdio::null())
        .stdout(std::process::Stdio::piped())
        .stderr(std::process::Stdio::inherit())
        .spawn()
        .map_err(|e| e.to_string())?;
    let mut out = ch.stdout.take().ok_or("no stdout")?;
    let reader = std::thread::spawn(move || {
        let mut s = String::new();
        let _ = std::io::Read::read_to_string(&mut out, &mut s);
        s
    });
    let t0 = Instant::now();
    loop {
        match ch.try_wait() {
            Ok(Some(st)) => {
                let s = reader.join().unwrap_or_default();
                return Ok((st.success(), s));
            }
            Ok(None) => {
                if t0.elapsed() > deadline {
                    let _ = ch.kill();
                    let _ = ch.wait();
                    return Err(format!("child {:?} did not finish within {} s and was killed", args, deadline.as_secs()));
                }
                std::thread::sleep(Duration::from_millis(20));
            }
            Err(e) => return Err(e.to_string()),
        }
    }
}

pub fn runtime(workers: usize) -> tokio::runtime::Runtime {
    if workers == 0 {
        tokio::runtime::Builder::new_current_thread().enable_all().build().expect("rt")
    } else {
        tokio::runtime::Builder::new_multi_thread().worker_threads(workers).enable_all().build().expect("rt")
    }
}

/// what a raw peer of the given (local) socket type sends as an application message
pub fn peer_message(local: Ty, tag: &str) -> Vec<Vec<u8>> {
    match local {
        Ty::Rep => vec![vec![], tag.as_bytes().to_vec()],
        Ty::Pub | Ty::XPub => vec![vec![1u8]],
        _ => vec![tag.as_bytes().to_vec()],
    }
}

/// Moves the calling (still single-threaded) process into a private network
/// namespace with the loopback interface up, so that ports used by this process
/// cannot be taken by anybody else. Returns false if the kernel refuses.
pub fn enter_private_netns() -> bool {
    unsafe {
        if libc::unshare(libc::CLONE_NEWNET) != 0 {
            return false;
        }
        let fd = libc::socket(libc::AF_INET, libc::SOCK_DGRAM, 0);
        if fd < 0 {
            return false;
        }
        let mut ifr: libc::ifreq = std::mem::zeroed();
        ifr.ifr_name[0] = b'l' as libc::c_char;
        ifr.ifr_name[1] = b'o' as libc::c_char;
        if libc::ioctl(fd, libc::SIOCGIFFLAGS, &mut ifr) != 0 {
            libc::close(fd);
            return false;
        }
        ifr.ifr_ifru.ifru_flags |= libc::IFF_UP as libc::c_short;
        let r = libc::ioctl(fd, libc::SIOCSIFFLAGS, &ifr);
        libc::close(fd);
        if r != 0 {
            return false;
        }
    }
    // both families must be usable
    std::net::TcpListener::bind("127.0.0.1:0").is_ok() && std::net::TcpListener::bind("[::1]:0").is_ok()
}

/// Runs `zv e4-shard <prop> <tier> <i> <n>` children, each in its own network
/// namespace; collects the JSON lines they print. None if namespaces are unavailable.
pub fn run_sharded(prop: &str, tier: &str, shards: usize) -> Option<Vec<serde_json::Value>> {
    let exe = std::env::current_exe().ok()?;
    let mut children: Vec<std::process::Child> = Vec::new();
    for i in 0..shards {
        let ch = std::process::Command::new(&exe)
            .args(["e4-shard", prop, tier, &i.to_string(), &shards.to_string()])
            .stdin(std::process::Stdio::null())
            .stdout(std::process::Stdio::piped())
            .stderr(std::process::Stdio::inherit())
            .spawn()
            .ok()?;
        children.push(ch);
    }
    let mut out = Vec::new();
    let mut ok = true;
    // the shards enforce a per-case deadline themselves; this is the backstop
    let deadline = Duration::from_secs(if tier == "thorough" { 3600 } else { 600 });
    let t0 = Instant::now();
    let mut readers = Vec::new();
    for ch in children.iter_mut() {
        let mut so = ch.stdout.take()?;
        readers.push(std::thread::spawn(move || {
            let mut s = String::new();
            let _ = std::io::Read::read_to_string(&mut so, &mut s);
            s
        }));
    }
    for (mut ch, rd) in children.into_iter().zip(readers) {
        let status = loop {
            match ch.try_wait() {
                Ok(Some(st)) => break Some(st),
                Ok(None) => {
                    if t0.elapsed() > deadline {
                        let _ = ch.kill();
                        let _ = ch.wait();
                        break None;
                    }
                    std::thread::sleep(Duration::from_millis(20));
                }
                Err(_) => break None,
            }
        };
        let stdout = rd.join().unwrap_or_default();
        struct O {
            status: Option<std::process::ExitStatus>,
            stdout: Vec<u8>,
        }
        let o = O { status, stdout: stdout.into_bytes() };
        let Some(st) = o.status else {
            out.push(serde_json::json!({"machinery": format!("e4 shard did not finish within {} s and was killed", deadline.as_secs())}));
            continue;
        };
        if st.code() == Some(77) {
            ok = false;
            continue;
        }
        if !st.success() {
            out.push(serde_json::json!({"machinery": format!("e4 shard exited with {:?}", st)}));
        }
        for l in String::from_utf8_lossy(&o.stdout).lines() {
            if let Ok(v) = serde_json::from_str::<serde_json::Value>(l) {
                out.push(v);
            }
        }
    }
    if ok {
        Some(out)
    } else {
        None
    }
}
