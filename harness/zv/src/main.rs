#![allow(dead_code)]
//! zv — one sub-command per property. `zv <ID> [--tier quick|thorough] [--replay FILE]`
mod alloc;
mod c01;
mod c02;
mod c03;
mod c04;
mod c05;
mod c06;
mod c07;
mod c08;
mod c09;
mod c10;
mod c11;
mod c12;
mod c13;
mod c14;
mod c15;
mod c16;
mod c17;
mod c18;
mod e4;
mod e2;
mod c19;
mod c20;
mod e1;
mod e3;
mod replay;

#[global_allocator]
static GLOBAL: alloc::Counting = alloc::Counting;

use zvcore::evidence::parse_tier;

fn main() {
    // glibc's per-thread arenas otherwise grow and shrink a page at a time under the
    // explorers' allocate/free churn (hundreds of thousands of mprotect calls)
    unsafe {
        libc::mallopt(libc::M_TRIM_THRESHOLD, 1 << 30);
        libc::mallopt(libc::M_TOP_PAD, 4 << 20);
        libc::mallopt(libc::M_ARENA_MAX, 32);
        libc::mallopt(libc::M_MMAP_THRESHOLD, 1 << 30);
    }
    let args: Vec<String> = std::env::args().collect();
    if args.len() < 2 {
        eprintln!("usage: zv <ID> [--tier quick|thorough] [--replay FILE]");
        std::process::exit(2);
    }
    let id = args[1].clone();
    let rest = &args[2..];
    let tier = parse_tier(rest);
    let replay = zvcore::evidence::arg_value(rest, "--replay");
    // a panic of check code itself (not of library code under a guard) is a machinery failure: exit 2, no verdict
    let code = std::panic::catch_unwind(std::panic::AssertUnwindSafe(|| match id.as_str() {
        "C01" => c01::run(tier, replay),
        "C02" => c02::run(tier, replay),
        "C03" => c03::run(tier, replay),
        "c03-one" => c03::child_one(&args[2], true),
        "c03-sweep" => c03::child_sweep(&args[2], args[3].parse().unwrap(), &args[4]),
        "c03-e3" => c03::child_e3(&args[2], &args[3]),
        "C04" => c04::run(tier, replay),
        "C05" => c05::run(tier, replay),
        "C06" => c06::run(tier, replay),
        "c06-coop" => c06::child_coop(args[2].parse().unwrap_or(600)),
        "C07" => c07::run(tier, replay),
        "C08" => c08::run(tier, replay),
        "C09" => c09::run(tier, replay),
        "C10" => c10::run(tier, replay),
        "C11" => c11::run(tier, replay),
        "C12" => c12::run(tier, replay),
        "C13" => c13::run(tier, replay),
        "C14" => c14::run(tier, replay),
        "C15" => c15::run(tier, replay),
        "C16" => c16::run(tier, replay),
        "c17-emfile" => c17::child_emfile(),
        "c18-emfile" => c18::child_emfile(),
        "selftest-hang" => {
            // machinery self-test: one job whose only execution never returns must end as an `execution-hung`
            // violation (exit 1) after the watchdog deadline, not as a hang of the check
            let mut ck = zvcore::evidence::Check::new("SELFTEST", zvcore::evidence::Tier::Quick, "model_checking");
            let jobs = vec![
                e3::job("selftest/ok".into(), serde_json::json!({}), 0, 4, || { zvcore::world::reset(Default::default()); e3::finish(zvcore::explore::Verdict::default()) }),
                e3::job("selftest/hang".into(), serde_json::json!({}), 0, 4, || loop { std::thread::sleep(std::time::Duration::from_secs(3600)); }),
            ];
            e3::run_jobs_into(&mut ck, jobs, false);
            let hung = ck.findings.iter().any(|f| f.class == "execution-hung");
            println!("selftest-hang: findings {:?}, machinery {:?}", ck.findings.iter().map(|f| f.class.clone()).collect::<Vec<_>>(), ck.machinery);
            if hung && ck.machinery.is_empty() { 0 } else { 2 }
        }
        "c16-fd" => c16::child_fd(if args[2] == "thorough" { zvcore::evidence::Tier::Thorough } else { zvcore::evidence::Tier::Quick }),
        "C17" => c17::run(tier, replay),
        "C18" => c18::run(tier, replay),
        "e4-shard" => {
            let t = if args[3] == "thorough" { zvcore::evidence::Tier::Thorough } else { zvcore::evidence::Tier::Quick };
            let (i, n) = (args[4].parse().unwrap(), args[5].parse().unwrap());
            match args[2].as_str() {
                "C18" => c18::shard(t, i, n, true),
                "C20" => c20::shard(t, i, n),
                _ => 2,
            }
        }
        "C19" => c19::run(tier, replay),
        "C20" => c20::run(tier, replay),
        other => {
            eprintln!("unknown property id {}", other);
            2
        }
    }))
    .unwrap_or_else(|p| {
        let msg = p.downcast_ref::<String>().cloned().or_else(|| p.downcast_ref::<&str>().map(|s| s.to_string())).unwrap_or_default();
        eprintln!("MACHINERY: the check's own code panicked ({}); no verdict", msg);
        println!("{}: machinery failure (the check's own code panicked); no verdict", id);
        2
    });
    std::process::exit(code);
}
