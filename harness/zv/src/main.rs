//! zv — one sub-command per property. `zv <ID> [--tier quick|thorough] [--replay FILE]`
mod c19;

use zvcore::evidence::parse_tier;

fn main() {
    let args: Vec<String> = std::env::args().collect();
    if args.len() < 2 {
        eprintln!("usage: zv <ID> [--tier quick|thorough] [--replay FILE]");
        std::process::exit(2);
    }
    let id = args[1].clone();
    let rest = &args[2..];
    let tier = parse_tier(rest);
    let replay = zvcore::evidence::arg_value(rest, "--replay");
    let code = match id.as_str() {
        "C19" => c19::run(tier, replay),
        other => {
            eprintln!("unknown property id {}", other);
            2
        }
    };
    std::process::exit(code);
}
