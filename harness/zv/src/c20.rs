//! C20 — a stalled or malicious handshake never blocks other connections (E4, fault enumeration).

use crate::e3::{AnySocket, Ty, ALL_TYPES};
use crate::e4::{self, RawStream, ReadEnd, Tr};
use serde_json::{json, Value};
use std::time::{Duration, Instant};
use zeromq::SocketEvent;
use zvcore::evidence::{Check, Tier};
use zvcore::refcodec as rc;

const BEHAVIOURS: [&str; 7] = ["goes-silent", "closes", "switches-to-garbage", "resets", "sends-a-malformed-READY-and-closes", "stalls-and-closes-after-the-monitor-was-replaced", "stalls-and-sends-garbage-after-the-monitor-was-replaced"];

#[derive(Clone, Debug)]
struct Case {
    ty: Ty,
    tr: Tr,
    offset: usize,
    behaviour: usize,
    bad_clients: usize,
    /// scale family: this many further well-behaved clients connect one after the other while the bad ones are around
    extra_goods: usize,
}

fn case_json(c: &Case) -> Value {
    json!({"engine":"E4","type": c.ty.name(), "transport": c.tr.name(), "offset": c.offset, "behaviour": BEHAVIOURS[c.behaviour], "bad_clients": c.bad_clients, "extra_goods": c.extra_goods})
}

struct Good {
    s: RawStream,
    name: String,
    n: usize,
    acc: Vec<u8>,
}

async fn good_connect(ty: Ty, ep: &zeromq::Endpoint, name: &str) -> Result<Good, String> {
    let mut s = tokio::time::timeout(e4::HORIZON, RawStream::connect(ep)).await.map_err(|_| "connect timed out".to_string())?.map_err(|e| format!("connect: {}", e))?;
    let acc = e4::raw_handshake(&mut s, ty.peer_type(), Some(name.as_bytes())).await?;
    let hs_end = rc::decode_stream(&acc, true).items.iter().find(|(i, _)| matches!(i, rc::RItem::Command { .. })).map(|(_, e)| *e).unwrap_or(acc.len());
    let mut g = Good { s, name: name.to_string(), n: 0, acc: acc[hs_end..].to_vec() };
    if matches!(ty, Ty::Pub | Ty::XPub) {
        g.s.write_all(&rc::encode_message(&[vec![1u8]])).await.map_err(|e| format!("subscribe: {}", e))?;
    }
    Ok(g)
}

/// reads application messages at the raw client until one satisfies `pred`
async fn client_wait_for(g: &mut Good, horizon: Duration, pred: impl Fn(&Vec<Vec<u8>>) -> bool) -> bool {
    let t0 = Instant::now();
    loop {
        let d = rc::decode_stream(&g.acc, false);
        if d.messages().iter().any(|m| pred(m)) {
            return true;
        }
        let left = horizon.checked_sub(t0.elapsed()).unwrap_or(Duration::ZERO);
        if left.is_zero() {
            return false;
        }
        let mut buf = [0u8; 4096];
        match tokio::time::timeout(left.min(Duration::from_millis(50)), g.s.read_some(&mut buf)).await {
            Err(_) => {
                if t0.elapsed() >= horizon {
                    return false;
                }
            }
            Ok(Ok(0)) | Ok(Err(_)) => return false,
            Ok(Ok(n)) => g.acc.extend_from_slice(&buf[..n]),
        }
    }
}

/// One message exchange that proves the connection works in the direction(s) the socket type supports.
async fn exchange(ty: Ty, sock: &mut AnySocket, goods: &mut [Good], idx: usize) -> Result<(), String> {
    goods[idx].n += 1;
    let tag = format!("{}-{}", goods[idx].name, goods[idx].n).into_bytes();
    match ty {
        Ty::Pull | Ty::Sub | Ty::Dealer | Ty::Router | Ty::Rep | Ty::XPub => {
            let m: Vec<Vec<u8>> = match ty {
                Ty::Rep => vec![vec![], tag.clone()],
                Ty::XPub => {
                    let mut f = vec![1u8];
                    f.extend(tag.clone());
                    vec![f]
                }
                _ => vec![tag.clone()],
            };
            goods[idx].s.write_all(&rc::encode_message(&m)).await.map_err(|e| format!("client write: {}", e))?;
            let t0 = Instant::now();
            loop {
                let left = e4::HORIZON.checked_sub(t0.elapsed()).ok_or_else(|| "server never received the client's message".to_string())?;
                match tokio::time::timeout(left, sock.recv()).await {
                    Err(_) => return Err("server never received the client's message".into()),
                    Ok(Ok(got)) => {
                        if crate::e1::frames_of(&got).iter().any(|f| f.ends_with(&tag)) {
                            break;
                        }
                    }
                    Ok(Err(_)) => {} // errors from other (bad) connections are not this client's business
                }
            }
            if ty == Ty::Rep {
                tokio::time::timeout(e4::HORIZON, sock.send(crate::e1::msg(&[b"re".to_vec()]))).await.map_err(|_| "reply timed out".to_string())?.map_err(|e| format!("reply: {}", e))?;
                if !client_wait_for(&mut goods[idx], e4::HORIZON, |m| m.last().map(|f| f == b"re").unwrap_or(false)).await {
                    return Err("client never received the reply".into());
                }
            }
            Ok(())
        }
        Ty::Pub => {
            // publish until the subscriber has it (its subscription is processed by a background task)
            let t0 = Instant::now();
            loop {
                let _ = sock.send(crate::e1::msg(&[tag.clone()])).await;
                if client_wait_for(&mut goods[idx], Duration::from_millis(20), |m| m[0] == tag).await {
                    return Ok(());
                }
                if t0.elapsed() > e4::HORIZON {
                    return Err("subscriber never received a publish".into());
                }
            }
        }
        Ty::Push | Ty::Req => {
            // round-robin senders: one message per good client must reach every good client once
            // (a half-handshaken connection in the rotation would swallow one)
            let n = goods.len();
            let mut reached = vec![false; n];
            for round in 0..n {
                let body = format!("{}-r{}", String::from_utf8_lossy(&tag), round).into_bytes();
                tokio::time::timeout(e4::HORIZON, sock.send(crate::e1::msg(&[body.clone()]))).await.map_err(|_| "send timed out".to_string())?.map_err(|e| format!("send: {}", e))?;
                // find who got it
                let mut who = None;
                let t0 = Instant::now();
                while who.is_none() && t0.elapsed() < e4::HORIZON {
                    for (i, g) in goods.iter_mut().enumerate() {
                        if client_wait_for(g, Duration::from_millis(5), |m| m.last() == Some(&body)).await {
                            who = Some(i);
                            break;
                        }
                    }
                }
                let Some(w) = who else {
                    return Err(format!("message {} reached none of the well-behaved clients (routed to a connection that never completed its handshake?)", round));
                };
                reached[w] = true;
                if ty == Ty::Req {
                    goods[w].s.write_all(&rc::encode_message(&[vec![], b"ok".to_vec()])).await.map_err(|e| format!("echo: {}", e))?;
                    tokio::time::timeout(e4::HORIZON, sock.recv()).await.map_err(|_| "recv timed out".to_string())?.map_err(|e| format!("recv: {}", e))?;
                }
            }
            if reached.iter().any(|r| !r) {
                return Err(format!("round-robin over {} sends did not reach every well-behaved client: {:?}", n, reached));
            }
            Ok(())
        }
    }
}

#[derive(Default)]
struct Mon {
    accepted: usize,
    failed: usize,
}

fn pump(monitor: &mut futures::channel::mpsc::Receiver<SocketEvent>, m: &mut Mon) {
    #[allow(deprecated)]
    while let Ok(Some(ev)) = monitor.try_next() {
        match ev {
            SocketEvent::Accepted(..) => m.accepted += 1,
            SocketEvent::AcceptFailed(_) => m.failed += 1,
            _ => {}
        }
    }
}

/// The raw client has seen the library's READY; the socket registers the peer a moment later and
/// reports it to the monitor. Waits for that report (monotone), so that sends can be routed to it.
async fn wait_accepted(monitor: &mut futures::channel::mpsc::Receiver<SocketEvent>, m: &mut Mon, n: usize) -> bool {
    let t0 = Instant::now();
    loop {
        pump(monitor, m);
        if m.accepted >= n {
            return true;
        }
        if t0.elapsed() > e4::HORIZON {
            return false;
        }
        tokio::time::sleep(Duration::from_millis(1)).await;
    }
}

async fn run_case(c: &Case) -> Vec<(String, String)> {
    let mut viol = Vec::new();
    let what = format!("bound {} over {}, {} raw client(s) that send {} of {} handshake bytes and then {}", c.ty.name(), c.tr.name(), c.bad_clients, c.offset, rc::handshake(c.ty.peer_type(), None).len(), BEHAVIOURS[c.behaviour]);
    let mut sock = AnySocket::new_unmonitored(c.ty, None);
    sock.subscribe_all().await;
    let mut monitor = sock.monitor();
    let ep = match sock.bind(&e4::bind_spec(c.tr)).await {
        Ok(e) => e,
        Err(e) => return vec![("machinery/bind-failed".into(), format!("{}: {}", what, e))],
    };
    let mut goods: Vec<Good> = Vec::new();
    let mut mon = Mon::default();
    match good_connect(c.ty, &ep, "G1").await {
        Ok(g) => goods.push(g),
        Err(e) => return vec![("machinery/first-good-client".into(), format!("{}: {}", what, e))],
    }
    if !wait_accepted(&mut monitor, &mut mon, 1).await {
        return vec![("machinery/first-good-client-not-reported".into(), format!("{}: no Accepted event for the first client", what))];
    }
    if let Err(e) = exchange(c.ty, &mut sock, &mut goods, 0).await {
        return vec![("machinery/first-exchange".into(), format!("{}: {}", what, e))];
    }
    // the bad clients
    let hs = rc::handshake(c.ty.peer_type(), None);
    let mut bads: Vec<RawStream> = Vec::new();
    for _ in 0..c.bad_clients {
        if c.behaviour == 4 {
            // a valid greeting, then a COMPLETE command frame whose inner lengths are inconsistent (variant = offset), then close
            let mut body: Vec<u8> = Vec::new();
            match c.offset {
                0 => { body.push(5); body.extend_from_slice(b"READY"); body.push(11); body.extend_from_slice(b"Socket-Type"); body.extend_from_slice(&[0, 0]); }
                1 => { body.push(5); body.extend_from_slice(b"READY"); body.push(11); body.extend_from_slice(b"Socket-Type"); }
                2 => { body.push(5); body.extend_from_slice(b"READY"); body.push(0xff); }
                3 => { body.push(5); body.extend_from_slice(b"READY"); body.push(11); body.extend_from_slice(b"Socket-Type"); body.extend_from_slice(&[0, 0, 0, 0xff]); body.extend_from_slice(b"PUSH"); }
                4 => { body.push(6); body.extend_from_slice(b"READY"); }
                5 => { body.push(5); body.extend_from_slice(b"READY"); body.push(11); body.extend_from_slice(b"Socket-Type"); body.extend_from_slice(&[0, 0, 0, 4]); body.extend_from_slice(b"PUS"); }
                6 => { body.push(5); body.extend_from_slice(b"READY"); body.push(11); body.extend_from_slice(b"Socket-Type"); body.extend_from_slice(&[0, 0, 0]); }
                _ => { body.push(0); }
            }
            let mut bytes = rc::default_greeting();
            if c.offset >= 8 {
                // variants 8 / 9: a perfectly well-formed READY that must be refused for its VALUES - Socket-Type PAIR
                // (8) or FOO (9) - and that announces the identity of the established client G1
                bytes.extend(rc::encode_command(b"READY", &[(b"Socket-Type".to_vec(), if c.offset == 8 { b"PAIR".to_vec() } else { b"FOO".to_vec() }), (b"Identity".to_vec(), b"G1".to_vec())]));
            } else {
                bytes.push(0x04);
                bytes.push(body.len() as u8);
                bytes.extend(body);
            }
            match RawStream::connect(&ep).await {
                Ok(mut s) => {
                    let _ = s.write_all(&bytes).await;
                    // the library answers with its own greeting (+ READY); wait for it to close or a moment to pass, then close
                    let _ = s.wait_closed(Duration::from_millis(300)).await;
                    drop(s);
                }
                Err(e) => viol.push((format!("bound-endpoint-refuses/{}", BEHAVIOURS[c.behaviour]), format!("{}: a later one of these clients could not even connect to the still-bound endpoint: {}", what, e))),
            }
            continue;
        }
        if c.behaviour == 3 {
            // abortive close (RST) by a synchronous client: connect, write and reset happen without this task
            // yielding, so on a current-thread runtime the listener has not looked at the connection yet
            if let zeromq::Endpoint::Tcp(host, port) = &ep {
                use std::io::Write;
                use std::os::fd::AsRawFd;
                match std::net::TcpStream::connect((host.to_string().as_str(), *port)) {
                    Ok(mut s) => {
                        let _ = s.write_all(&hs[..c.offset]);
                        let lin = libc::linger { l_onoff: 1, l_linger: 0 };
                        unsafe {
                            libc::setsockopt(s.as_raw_fd(), libc::SOL_SOCKET, libc::SO_LINGER, &lin as *const _ as *const libc::c_void, std::mem::size_of::<libc::linger>() as libc::socklen_t);
                        }
                        drop(s);
                    }
                    Err(e) => viol.push((format!("bound-endpoint-refuses/{}", BEHAVIOURS[c.behaviour]), format!("{}: a later one of these clients could not even connect to the still-bound endpoint: {}", what, e))),
                }
            }
            continue;
        }
        match RawStream::connect(&ep).await {
            Ok(mut s) => {
                let _ = s.write_all(&hs[..c.offset]).await;
                match c.behaviour {
                    0 | 5 | 6 => bads.push(s),
                    1 => drop(s),
                    _ => {
                        let _ = s.write_all(&[0xAA; 96]).await;
                        bads.push(s);
                    }
                }
            }
            Err(e) => viol.push((format!("bound-endpoint-refuses/{}", BEHAVIOURS[c.behaviour]), format!("{}: a later one of these clients could not even connect to the still-bound endpoint: {}", what, e))),
        }
    }
    // a well-behaved client connecting while the bad ones are around
    match good_connect(c.ty, &ep, "G2").await {
        Ok(g) => {
            goods.push(g);
            let i = goods.len() - 1;
            if !wait_accepted(&mut monitor, &mut mon, goods.len()).await {
                viol.push((format!("good-client-not-registered/during/{}", BEHAVIOURS[c.behaviour]), format!("{}: a well-behaved client that connected meanwhile was never reported as accepted", what)));
            } else if let Err(e) = exchange(c.ty, &mut sock, &mut goods, i).await {
                viol.push((format!("good-client-affected/during/{}", BEHAVIOURS[c.behaviour]), format!("{}: a well-behaved client that connected meanwhile completed its handshake but its message exchange failed: {}", what, e)));
            }
        }
        Err(e) => viol.push((format!("good-client-blocked/during/{}", BEHAVIOURS[c.behaviour]), format!("{}: a well-behaved client that connected meanwhile could not complete its handshake within {} s: {}", what, e4::HORIZON.as_secs(), e))),
    }
    // scale family: many more well-behaved clients, one after the other, while the bad ones are still around
    // (a bounded window or pool of pending handshakes shows only beyond its size)
    for k in 0..c.extra_goods {
        if !viol.is_empty() {
            break;
        }
        match good_connect(c.ty, &ep, &format!("X{}", k)).await {
            Ok(g) => {
                goods.push(g);
                if !wait_accepted(&mut monitor, &mut mon, goods.len()).await {
                    viol.push((format!("good-client-not-registered/during/{}", BEHAVIOURS[c.behaviour]), format!("{}: well-behaved client #{} connecting meanwhile was never reported as accepted", what, k + 3)));
                }
            }
            Err(e) => viol.push((format!("good-client-blocked/during/{}", BEHAVIOURS[c.behaviour]), format!("{}: well-behaved client #{} connecting meanwhile could not complete its handshake within {} s: {}", what, k + 3, e4::HORIZON.as_secs(), e))),
        }
    }
    if c.extra_goods > 0 && viol.is_empty() {
        let i = goods.len() - 1;
        if let Err(e) = exchange(c.ty, &mut sock, &mut goods, i).await {
            viol.push((format!("good-client-affected/during/{}", BEHAVIOURS[c.behaviour]), format!("{}: the last of {} well-behaved clients completed its handshake but its message exchange failed: {}", what, c.extra_goods + 2, e)));
        }
    }
    // established traffic is not interrupted
    if viol.is_empty() {
        if let Err(e) = exchange(c.ty, &mut sock, &mut goods, 0).await {
            viol.push((format!("established-connection-affected/{}", BEHAVIOURS[c.behaviour]), format!("{}: the connection established before no longer works: {}", what, e)));
        }
    }
    // monitor: accept failures for closing / garbage clients, never an Accepted for a bad client
    // a client that closes mid-handshake must be reported; garbage may also merely stall the handshake
    // (e.g. a flags byte announcing a long frame that never arrives), which is not a failure
    if (c.behaviour == 5 || c.behaviour == 6) && viol.is_empty() {
        // the handshakes of the stalled clients are under way (the library's greeting has reached each of them); the
        // application now installs a NEW monitor; only then do the stalled clients fail their handshakes. "Reported to
        // an installed monitor": the one installed when the failure happens.
        for s in bads.iter_mut() {
            let mut acc = Vec::new();
            let _ = s.read_until(&mut acc, e4::HORIZON, |b| b.len() >= 64).await;
            if acc.len() < 64 {
                viol.push(("machinery/staller-got-no-greeting".into(), format!("{}: a stalled client never received the library's greeting", what)));
            }
        }
        monitor = sock.monitor();
        mon = Mon::default();
        mon.accepted = goods.len();
        for mut s in bads.drain(..) {
            if c.behaviour == 6 {
                // bytes that cannot continue a handshake at any offset: an over-long command frame header after the
                // greeting, a bad signature before it
                let _ = s.write_all(&[0xAA; 96]).await;
                let _ = s.wait_closed(Duration::from_millis(300)).await;
            }
            drop(s);
        }
    }
    let want_failed = if matches!(c.behaviour, 1 | 4 | 5 | 6) { c.bad_clients } else { 0 };
    let t0 = Instant::now();
    loop {
        pump(&mut monitor, &mut mon);
        if mon.failed >= want_failed || t0.elapsed() > e4::HORIZON {
            break;
        }
        tokio::time::sleep(Duration::from_millis(2)).await;
    }
    if mon.failed < want_failed {
        viol.push((format!("accept-failure-not-reported/{}", BEHAVIOURS[c.behaviour]), format!("{}: the monitor reported {} AcceptFailed events for {} failed handshakes", what, mon.failed, want_failed)));
    }
    // a client connecting afterwards
    match good_connect(c.ty, &ep, "G3").await {
        Ok(g) => {
            goods.push(g);
            let i = goods.len() - 1;
            if !wait_accepted(&mut monitor, &mut mon, goods.len()).await {
                viol.push((format!("good-client-not-registered/after/{}", BEHAVIOURS[c.behaviour]), format!("{}: a well-behaved client that connected afterwards was never reported as accepted", what)));
            } else if let Err(e) = exchange(c.ty, &mut sock, &mut goods, i).await {
                viol.push((format!("good-client-affected/after/{}", BEHAVIOURS[c.behaviour]), format!("{}: a well-behaved client that connected afterwards: {}", what, e)));
            }
        }
        Err(e) => viol.push((format!("good-client-blocked/after/{}", BEHAVIOURS[c.behaviour]), format!("{}: a well-behaved client that connected afterwards could not complete its handshake: {}", what, e))),
    }
    pump(&mut monitor, &mut mon);
    if mon.accepted > goods.len() {
        viol.push(("bad-client-reported-accepted".into(), format!("{}: the monitor reported {} Accepted events but only {} clients completed a handshake", what, mon.accepted, goods.len())));
    }
    drop(bads);
    let _ = sock.close().await;
    viol
}

fn all_cases(tier: Tier) -> Vec<Case> {
    let mut v = Vec::new();
    let transports: Vec<Tr> = match tier {
        Tier::Quick => vec![Tr::Tcp4],
        Tier::Thorough => vec![Tr::Tcp4, Tr::Tcp6, Tr::Ipc],
    };
    for ty in ALL_TYPES {
        let n = rc::handshake(ty.peer_type(), None).len();
        for tr in &transports {
            for offset in 0..n {
                for behaviour in 0..3 {
                    let ks: Vec<usize> = if tier == Tier::Thorough || offset % 16 == 0 { vec![1, 3] } else { vec![1] };
                    for k in ks {
                        v.push(Case { ty, tr: *tr, offset, behaviour, bad_clients: k, extra_goods: 0 });
                    }
                }
            }
        }
    }
    // quick: the other transports at the structurally interesting offsets
    if tier == Tier::Quick {
        for ty in ALL_TYPES {
            for tr in [Tr::Tcp6, Tr::Ipc] {
                for offset in [0usize, 1, 10, 63, 64, 65, 66, 70] {
                    for behaviour in 0..3 {
                        v.push(Case { ty, tr, offset, behaviour, bad_clients: 1, extra_goods: 0 });
                    }
                }
            }
        }
    }
    // a complete but malformed READY, then close: 8 variants of inconsistent inner lengths (variant number in `offset`)
    for ty in ALL_TYPES {
        for tr in [Tr::Tcp4, Tr::Ipc] {
            for variant in 0..10usize {
                v.push(Case { ty, tr, offset: variant, behaviour: 4, bad_clients: 1, extra_goods: 0 });
            }
        }
    }
    // the monitor is replaced while the bad clients are stalled in their handshakes; then they fail
    for ty in ALL_TYPES {
        for tr in [Tr::Tcp4, Tr::Ipc] {
            let n = rc::handshake(ty.peer_type(), None).len();
            let offsets: Vec<usize> = if tier == Tier::Thorough { (0..n).step_by(3).collect() } else { vec![0, 10, 64, 70, n - 1] };
            for offset in offsets {
                for behaviour in [5usize, 6] {
                    v.push(Case { ty, tr, offset, behaviour, bad_clients: if offset == 10 { 3 } else { 1 }, extra_goods: 0 });
                }
            }
        }
    }
    // abortive closes (RST), TCP only: at the structurally interesting offsets, 1 and 3 clients
    for ty in ALL_TYPES {
        for tr in [Tr::Tcp4, Tr::Tcp6] {
            let n = rc::handshake(ty.peer_type(), None).len();
            let offsets: Vec<usize> = if tier == Tier::Thorough { (0..n).collect() } else { vec![0, 1, 10, 63, 64, 65, 70, n - 1] };
            for offset in offsets {
                for k in [1usize, 3] {
                    v.push(Case { ty, tr, offset, behaviour: 3, bad_clients: k, extra_goods: 0 });
                }
            }
        }
    }
    // scale family: 1 / 8 / 64 (thorough 256) silent clients stalled at 4 handshake stages, then 20 (thorough 100)
    // further well-behaved clients one after the other
    let stallers: &[usize] = if tier == Tier::Thorough { &[1, 8, 64, 256] } else { &[1, 8, 64] };
    for ty in [Ty::Pull, Ty::Pub, Ty::Router, Ty::Rep] {
        for tr in [Tr::Tcp4, Tr::Ipc] {
            for &k in stallers {
                for offset in [0usize, 10, 64, 70] {
                    v.push(Case { ty, tr, offset, behaviour: 0, bad_clients: k, extra_goods: tier.pick(20, 100) });
                }
            }
            // ... and 200 (thorough 600) clients that close / switch to garbage in mid-handshake (handshakes that FAIL must
            // not use anything up either)
            for behaviour in [1usize, 2] {
                for offset in [10usize, 70] {
                    v.push(Case { ty, tr, offset, behaviour, bad_clients: tier.pick(200, 600), extra_goods: 3 });
                }
            }
        }
    }
    v
}

pub fn shard(tier: Tier, i: usize, n: usize) -> i32 {
    if !e4::enter_private_netns() {
        // not needed for correctness here (no expectation about free ports); carry on in the shared namespace
    }
    let cases = all_cases(tier);
    let t0 = Instant::now();
    let budget = Duration::from_secs(match tier { Tier::Quick => 120, Tier::Thorough => 1500 });
    let mut failing = 0;
    let mut skipped = 0u64;
    for (k, c) in cases.iter().enumerate() {
        if k % n != i {
            continue;
        }
        // once a few cases have failed there is a verdict; waiting out the horizon on thousands more adds nothing
        if failing >= 2 || t0.elapsed() > budget {
            skipped += 1;
            continue;
        }
        let c2 = c.clone();
        // abortive closes race with the accept task: a current-thread runtime makes "reset before the listener has
        // looked at the connection" certain, a multi-thread one covers the other order
        let workers = if c.behaviour == 3 && c.bad_clients == 1 { 0 } else { 2 };
        let Some(viol) = e4::block_on_deadline(workers, e4::CASE_DEADLINE, move || async move { run_case(&c2).await }) else {
            // a runtime thread is blocked for ever: report it, give up the rest of this shard and leave (exiting is
            // what gets rid of the stuck thread)
            let what = format!("bound {} over {}, {} raw client(s) that send {} handshake bytes and then {}", c.ty.name(), c.tr.name(), c.bad_clients, c.offset, BEHAVIOURS[c.behaviour]);
            let (cl, msg) = e4::hung_or_panicked(format!("runtime-hung/{}", BEHAVIOURS[c.behaviour]), format!("{}: the case did not come back within {} s although every wait in it has a {} s horizon: a thread of the socket's runtime is blocked for ever (no timer fires any more), so nothing else on that runtime - other handshakes, established traffic - makes progress", what, e4::CASE_DEADLINE.as_secs(), e4::HORIZON.as_secs()));
            println!("{}", json!({"case": k, "findings": [[cl, msg]]}));
            let rest = cases.iter().enumerate().filter(|(j, _)| j % n == i && *j > k).count() as u64;
            println!("{}", json!({"skipped": rest + skipped, "after_failures": failing + 1, "budget_exhausted": false}));
            use std::io::Write;
            let _ = std::io::stdout().flush();
            e4::cleanup_ipc_dir();
            std::process::exit(0);
        };
        if !viol.is_empty() {
            failing += 1;
        }
        println!("{}", json!({"case": k, "findings": viol}));
    }
    if skipped > 0 {
        println!("{}", json!({"skipped": skipped, "after_failures": failing, "budget_exhausted": t0.elapsed() > budget}));
    }
    e4::cleanup_ipc_dir();
    0
}

pub fn run(tier: Tier, replay: Option<String>) -> i32 {
    zvcore::world::install_panic_hook();
    let mut ck = Check::new("C20", tier, "fault_enumeration");
    if let Some(path) = replay {
        let v: Value = serde_json::from_str(&std::fs::read_to_string(&path).expect("read")).expect("json");
        let r = &v["replay"];
        let c = Case {
            ty: Ty::from_name(r["type"].as_str().unwrap()).unwrap(),
            tr: Tr::from_name(r["transport"].as_str().unwrap()).unwrap(),
            offset: r["offset"].as_u64().unwrap() as usize,
            behaviour: BEHAVIOURS.iter().position(|b| Some(*b) == r["behaviour"].as_str()).unwrap(),
            bad_clients: r["bad_clients"].as_u64().unwrap() as usize,
            extra_goods: r["extra_goods"].as_u64().unwrap_or(0) as usize,
        };
        let c2 = c.clone();
        let viol = e4::block_on_deadline(2, e4::CASE_DEADLINE, move || async move { run_case(&c2).await }).unwrap_or_else(|| vec![("runtime-hung".to_string(), "the case did not come back: a runtime thread is blocked for ever".to_string())]);
        e4::cleanup_ipc_dir();
        for (cl, m) in &viol {
            println!("replay: VIOLATION {}: {}", cl, m);
        }
        if viol.is_empty() {
            println!("replay: holds");
        }
        return if viol.is_empty() { 0 } else { 1 };
    }
    let cases = all_cases(tier);
    let shards = ck.threads.min(16).max(1);
    let results = match e4::run_sharded("C20", tier.as_str(), shards) {
        Some(r) => r,
        None => {
            ck.machinery_error("could not run the worker processes");
            Vec::new()
        }
    };
    let mut results = results;
    results.sort_by_key(|r| r["case"].as_u64().unwrap_or(u64::MAX));
    let mut done = 0u64;
    let mut classes = std::collections::HashSet::new();
    let mut skipped = 0u64;
    let mut budget_hit = false;
    for r in &results {
        if let Some(m) = r["machinery"].as_str() {
            ck.machinery_error(m.to_string());
            continue;
        }
        if let Some(n) = r["skipped"].as_u64() {
            skipped += n;
            budget_hit |= r["budget_exhausted"].as_bool().unwrap_or(false);
            continue;
        }
        let k = r["case"].as_u64().unwrap_or(0) as usize;
        done += 1;
        for f in r["findings"].as_array().cloned().unwrap_or_default() {
            let class = f[0].as_str().unwrap_or("?").to_string();
            classes.insert(class.clone());
            if class.starts_with("machinery/") {
                ck.machinery_error(f[1].as_str().unwrap_or("").to_string());
            } else {
                ck.finding(class, f[1].as_str().unwrap_or("").to_string(), case_json(&cases[k]));
            }
        }
    }
    if done + skipped != cases.len() as u64 {
        ck.machinery_error(format!("{} of {} cases reported", done + skipped, cases.len()));
    }
    ck.cov("cases_skipped_after_violations_or_budget", skipped);
    ck.cov("wall_budget_exhausted", budget_hit);
    ck.cov("evaluations", done);
    ck.cov("distinct_nontrivial", cases.iter().filter(|c| c.offset > 0 || c.behaviour != 0).count() as u64);
    ck.cov("exhaustive", skipped == 0);
    ck.cov("rule", format!("for each of the 9 bound socket types over {}: a raw client that sends the first k bytes of a valid greeting+READY for EVERY k in 0..N-1 and then {{goes silent, closes, switches to 96 bytes of garbage}} (and, at the structurally interesting offsets over TCP, aborts with a reset from a synchronous client - on a current-thread runtime, where the reset is certain to precede the listener's look at the connection, and on a multi-thread one), one such client (three at every 16th offset{}), with a well-behaved raw client connecting before, while and after; plus a scale family (PULL/PUB/ROUTER/REP over TCP v4 and IPC: 1 / 8 / 64 (thorough 256) silent clients stalled at offsets 0, 10, 64, 70, then 20 (thorough 100) further well-behaved clients one after the other, each of which must complete its handshake; and 200 (thorough 600) clients that close or switch to garbage at offsets 10 / 70 followed by well-behaved ones - not exhaustive in the counts): {} cases, all distinct; non-trivial = the bad client sent at least one byte or misbehaved actively. Oracle (monotone conditions, {} s horizon): the client connecting meanwhile completes its handshake and a message exchange that proves its connection works in the direction(s) the type supports (for round-robin senders: one send per well-behaved client reaches every one of them, so a half-handshaken connection in the rotation is detected); the connection established before still works; the monitor reports AcceptFailed for every client that closes mid-handshake or after a complete but malformed READY (8 variants of inconsistent inner lengths, and 2 well-formed READYs refused for their values - Socket-Type PAIR / FOO - that announce the identity of the established client; garbage may merely stall a handshake, which is not a failure) and never more Accepted events than completed handshakes; a client connecting afterwards works too. Monitor timing: in two further behaviours the application REPLACES its monitor while the bad clients are stalled in handshakes already under way (each has received the library's greeting), and only then do they close / send garbage: the new monitor must get the AcceptFailed reports and the later Accepted ones.", match tier { Tier::Quick => "TCP v4 (TCP v6 and IPC at 8 structurally interesting offsets)", Tier::Thorough => "TCP v4, TCP v6 and IPC" }, if tier == Tier::Thorough { " — thorough: at every offset" } else { "" }, cases.len(), e4::HORIZON.as_secs()));
    ck.sample(case_json(&cases[cases.len() / 2]));
    ck.sample(case_json(&cases[7]));
    ck.assume("OS schedules are not enumerated; 'never completes' is observed as 'not within the 5 s horizon' (correct code needs milliseconds)");
    let _ = ReadEnd::Eof;
    ck.conclude()
}
