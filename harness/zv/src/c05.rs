//! C05 — receive delivers each peer's messages exactly once, whole and in order (E2 + E3).

use crate::e2;
use crate::e3::{self, AnySocket, Ty};
use serde_json::json;
use zvcore::evidence::{Check, Tier};
use zvcore::explore::Verdict;
use zvcore::refcodec as rc;
use zvcore::world;

fn is_c05_class(c: &str) -> bool {
    // (a live stream dropped by the queue is both: its items are lost - C05 - and its peer is never served again - C06)
    !e2::is_c06_class(c) || c == "live-stream-dropped"
}

/// The messages peer `p` puts on the wire for receiving socket type `ty`, and
/// what recv must return for each (None = must be consumed as one error).
fn peer_messages(ty: Ty, p: usize, n: usize) -> Vec<(Vec<Vec<u8>>, Option<Vec<Vec<u8>>>)> {
    let tag = |j: usize| format!("p{}m{}", p, j).into_bytes();
    let id = format!("ID{}", p).into_bytes();
    let mut v = Vec::new();
    for j in 0..n {
        let (wire, exp): (Vec<Vec<u8>>, Option<Vec<Vec<u8>>>) = match ty {
            Ty::Rep => match j % 3 {
                0 => (vec![vec![], tag(j)], Some(vec![tag(j)])),
                1 => (vec![b"hop".to_vec(), vec![], tag(j), vec![], b"y".to_vec()], Some(vec![tag(j), vec![], b"y".to_vec()])),
                // a request without any delimiter and a single frame: rejected as one error
                _ => (vec![tag(j)], None),
            },
            Ty::XPub => match j % 2 {
                0 => {
                    let mut f = vec![1u8];
                    f.extend(tag(j));
                    (vec![f.clone()], Some(vec![f]))
                }
                _ => {
                    let mut f = vec![0u8];
                    f.extend(tag(j));
                    (vec![f.clone(), b"extra".to_vec()], Some(vec![f, b"extra".to_vec()]))
                }
            },
            _ => match j % 2 {
                0 => (vec![tag(j)], Some(vec![tag(j)])),
                _ => (vec![tag(j), vec![], b"x".to_vec()], Some(vec![tag(j), vec![], b"x".to_vec()])),
            },
        };
        // the peer's LAST message ends with an empty frame, so that the very last bytes a connection
        // carries are the header of a zero-length frame (nothing follows to flush a parked message out)
        let (wire, exp) = if j + 1 == n {
            let mut w = wire;
            w.push(vec![]);
            let e = exp.map(|mut e| {
                e.push(vec![]);
                e
            });
            (w, e)
        } else {
            (wire, exp)
        };
        let exp = exp.map(|e| {
            if ty == Ty::Router {
                let mut w = vec![id.clone()];
                w.extend(e);
                w
            } else {
                e
            }
        });
        v.push((wire, exp));
    }
    v
}

#[derive(Clone, Debug)]
struct Params {
    ty: Ty,
    peers: usize,
    msgs: usize,
    /// the last peer is cut in the middle of an extra message and closed
    truncated_peer: bool,
    /// peers' streams are split inside their second message
    split: bool,
    /// default scheduling policy of the world
    policy: u8,
    /// pipe reads may yield cooperatively (choice point)
    coop: bool,
    /// most peers stay silent; the last-attached and the middle one send, and only after the receiver has parked on
    /// the idle connections
    late_few: bool,
    /// length of an extra frame in each peer's second message (0 = none; > 255 gives a 9-byte frame header)
    long: usize,
    /// where, inside that frame's header, the peer's stream is cut into two deliveries (1..=8 bytes of it in the first)
    hdr_cut: usize,
    /// what the peers announce: 0 = distinct identities, 1 = an Identity property of length 0 (what libzmq peers without
    /// a routing id send), 2 = no Identity property. With 1 and 2 every connection must still be kept apart.
    anon: u8,
    /// this many extra tiny frames in each peer's second message (0 = none): frame COUNT beyond any per-call work bound
    many: usize,
}

fn scenario(pr: &Params) -> Verdict {
    world::reset(world::WorldCfg {
        nested_env: true,
        yields: true,
        select: false,
        policy: pr.policy,
        coop: pr.coop,
    });
    let ty = pr.ty;
    let mut conns = Vec::new();
    let mut expected: Vec<Vec<Option<Vec<Vec<u8>>>>> = Vec::new();
    for p in 0..pr.peers {
        let c = e3::raw_conn(&format!("P{}", p));
        let id = format!("ID{}", p).into_bytes();
        c.send(&rc::handshake(ty.peer_type(), match pr.anon { 0 => Some(&id[..]), 1 => Some(&b""[..]), _ => None }));
        let speaks = !pr.late_few || p + 1 == pr.peers || p == pr.peers / 2;
        let mut msgs = if speaks { peer_messages(ty, p, pr.msgs) } else { Vec::new() };
        if pr.many > 0 && msgs.len() > 1 {
            let last = msgs.len() == 2;
            let (wire, exp) = &mut msgs[1];
            let extra: Vec<Vec<u8>> = (0..pr.many).map(|i| if i % 2 == 0 { vec![] } else { vec![b'a' + (i % 26) as u8] }).collect();
            let at = if last { wire.len() - 1 } else { wire.len() };
            for (k, f) in extra.iter().enumerate() {
                wire.insert(at + k, f.clone());
            }
            if let Some(e) = exp {
                let at = if last { e.len() - 1 } else { e.len() };
                for (k, f) in extra.iter().enumerate() {
                    e.insert(at + k, f.clone());
                }
            }
        }
        if pr.long > 0 && msgs.len() > 1 {
            // a big frame at the end of the second message (where that message is not the peer's last one, which
            // keeps its trailing empty frame)
            let big = vec![b'z'; pr.long];
            let last = msgs.len() == 2;
            let (wire, exp) = &mut msgs[1];
            let at = if last { wire.len() - 1 } else { wire.len() };
            wire.insert(at, big.clone());
            if let Some(e) = exp {
                let at = if last { e.len() - 1 } else { e.len() };
                e.insert(at, big);
            }
        }
        if pr.late_few {
            c.gate("receiver-parked");
        }
        for (j, (wire, _)) in msgs.iter().enumerate() {
            let b = rc::encode_message(wire);
            if pr.long > 8192 && pr.hdr_cut > 0 && msgs.len() > 2 && j == 2 {
                continue; // went out glued to the big message's tail
            }
            if pr.long > 8192 && pr.hdr_cut > 0 && msgs.len() > 2 && j == 1 {
                // a really big frame: cut inside its header and in the middle of its body; the rest of the body arrives
                // in one piece with the peer's next message
                let hdr = b.len() - pr.long - 9;
                let mut glued = b.clone();
                glued.extend(rc::encode_message(&msgs[2].0));
                c.send_cut(&glued, &[hdr + pr.hdr_cut, hdr + 9 + pr.long / 2]);
            } else if pr.long > 0 && pr.hdr_cut > 0 && j == 1 {
                // the cut falls inside the big frame's header
                let tail = if msgs.len() == 2 { 2 } else { 0 }; // the trailing empty frame's header
                let hdr = b.len() - tail - pr.long - if pr.long > 255 { 9 } else { 2 };
                c.send_cut(&b, &[hdr + pr.hdr_cut, b.len() - 2]);
            } else if pr.split && j == 1 && b.len() > 4 {
                c.send_cut(&b, &[3, b.len() - 2]);
            } else {
                c.send(&b);
            }
        }
        if pr.truncated_peer && p + 1 == pr.peers {
            let b = rc::encode_message(&[b"TRUNCATED-MESSAGE".to_vec(), b"never".to_vec()]);
            c.send(&b[..b.len() - 3]);
            c.eof();
        }
        expected.push(msgs.into_iter().map(|m| m.1).collect());
        conns.push(c);
    }
    let sock = AnySocket::new(ty, None);
    let be = sock.backend();
    let attached = std::rc::Rc::new(std::cell::Cell::new(0usize));
    let n_peers = pr.peers;
    for (p, c) in conns.iter().enumerate() {
        let be = be.clone();
        let c = *c;
        let attached = attached.clone();
        world::spawn_app(&format!("attach{}", p), async move {
            let r = e3::attach_raw(be, c).await;
            world::log(format!("attach(P{}) -> {}", p, e3::ok_or_err(&r)));
            attached.set(attached.get() + 1);
            if attached.get() == n_peers {
                world::set_cond("all-attached");
            }
        });
    }
    let got = std::rc::Rc::new(std::cell::RefCell::new(Vec::<Result<Vec<Vec<u8>>, String>>::new()));
    let got2 = got.clone();
    let parked = std::rc::Rc::new(std::cell::Cell::new(false));
    let parked2 = parked.clone();
    let n_expected = pr.peers * (pr.msgs + 1);
    let late_few = pr.late_few;
    world::spawn_app("receiver", async move {
        let mut sock = sock;
        if late_few {
            // the application first has all its connections, then starts receiving
            world::wait_cond("all-attached").await;
            // ONE recv call stays pending while the receiver parks on the idle connections and the late peers then send:
            // it is polled again only if its own waker fires
            let mut first = world::own_waker_strict(sock.recv());
            let mut r = world::until_idle(&mut first).await;
            if r.is_none() {
                world::log("recv parked on idle connections; now the late peers send (the same recv call stays pending)");
                world::set_cond("receiver-parked");
                r = world::until_idle(&mut first).await;
            }
            drop(first);
            match r {
                Some(r) => {
                    world::log(format!("recv -> {}", e3::show_result(&r)));
                    got2.borrow_mut().push(r.map(|m| crate::e1::frames_of(&m)).map_err(|e| e3::err_class(&e)));
                }
                None => {
                    world::log("recv parked at quiescence");
                    parked2.set(true);
                    world::wait_cond("never").await;
                }
            }
        }
        for _ in 0..(40 + n_expected) {
            match world::until_idle(sock.recv()).await {
                Some(r) => {
                    world::log(format!("recv -> {}", e3::show_result(&r)));
                    got2.borrow_mut().push(r.map(|m| crate::e1::frames_of(&m)).map_err(|e| e3::err_class(&e)));
                }
                None => {
                    if late_few && !world::cond("receiver-parked") {
                        world::log("recv parked on idle connections; now the late peers send");
                        world::set_cond("receiver-parked");
                        continue;
                    }
                    world::log("recv parked at quiescence");
                    parked2.set(true);
                    break;
                }
            }
        }
        world::wait_cond("never").await;
        drop(sock);
    });
    let end = world::run(e3::HORIZON * (1 + pr.peers as u64 / 4));
    let mut v = Verdict::default();
    v.truncated = end != world::RunEnd::Quiescent;
    let what = format!("{} socket, {} peers x {} messages{}{}", ty.name(), pr.peers, pr.msgs, if pr.truncated_peer { ", last peer cut mid-message" } else { "" }, if pr.split { ", split deliveries" } else { "" }).replace(" peers x", [" peers x", " peers (each announcing an Identity of length 0) x", " peers (announcing no Identity) x"][pr.anon as usize % 3]).replace(" peers x", if pr.late_few { " peers (all idle but the last-attached and the middle one, which send once the receiver is parked) x" } else { " peers x" });
    let got = got.borrow().clone();
    for p in world::panics() {
        v.violate("panic", format!("{}: {}", what, p));
    }
    if v.truncated {
        v.violate("spin", format!("{}: no quiescence within the step horizon", what));
    }
    // projection per peer
    let mut per_peer: Vec<Vec<Vec<Vec<u8>>>> = vec![Vec::new(); pr.peers];
    let mut envelope_errors = 0usize;
    for r in &got {
        match r {
            Ok(frames) => {
                if frames.iter().any(|f| f.windows(9).any(|w| w == b"TRUNCATED")) {
                    v.violate("truncated-message-surfaced", format!("{}: a message cut short by the disconnect was returned: {}", what, rc::show_frames(frames)));
                    continue;
                }
                let owner = frames.iter().find_map(|f| {
                    let pos = f.windows(1).position(|w| w == b"p")?;
                    let rest = &f[pos + 1..];
                    let nd = rest.iter().take_while(|d| d.is_ascii_digit()).count();
                    if nd >= 1 && rest.get(nd) == Some(&b'm') {
                        std::str::from_utf8(&rest[..nd]).ok()?.parse::<usize>().ok()
                    } else {
                        None
                    }
                });
                match owner {
                    Some(p) if p < pr.peers => per_peer[p].push(frames.clone()),
                    _ => v.violate("alien-message", format!("{}: recv returned a message no peer sent: {}", what, rc::show_frames(frames))),
                }
            }
            Err(e) => {
                if e.contains("Invalid message format") {
                    envelope_errors += 1;
                }
            }
        }
    }
    if pr.anon != 0 && ty == Ty::Router {
        // the identities are the socket's own choice here: compared as a placeholder (their being distinct is C09's subject)
        for msgs in per_peer.iter_mut() {
            for m in msgs.iter_mut() {
                if !m.is_empty() {
                    m[0] = b"<assigned>".to_vec();
                }
            }
        }
        for msgs in expected.iter_mut() {
            for m in msgs.iter_mut().flatten() {
                if !m.is_empty() {
                    m[0] = b"<assigned>".to_vec();
                }
            }
        }
    }
    let want_env_errors: usize = expected.iter().flatten().filter(|e| e.is_none()).count();
    if envelope_errors > want_env_errors {
        v.violate("extra-envelope-errors", format!("{}: {} envelope errors reported for {} ill-enveloped messages", what, envelope_errors, want_env_errors));
    }
    let all_attached = world::log_snapshot().iter().filter(|l| l.contains("attach(") && l.contains("-> Ok")).count() == pr.peers;
    for p in 0..pr.peers {
        let want: Vec<Vec<Vec<u8>>> = expected[p].iter().flatten().cloned().collect();
        let g = &per_peer[p];
        if *g == want {
            continue;
        }
        // what kind of disagreement
        let is_prefix = g.len() < want.len() && want[..g.len()] == g[..];
        if is_prefix {
            // fewer than sent: acceptable only if the run did not reach a parked receiver (e.g. recv budget), never at quiescence
            if parked.get() && all_attached && !v.truncated {
                v.violate(
                    "undelivered-at-quiescence",
                    format!("{}: at quiescence, with a recv pending, peer {} has {} complete message(s) that were never returned (got {} of {})", what, p, want.len() - g.len(), g.len(), want.len()),
                );
            }
            continue;
        }
        let mut sorted_g = g.clone();
        sorted_g.sort();
        let mut sorted_w = want.clone();
        sorted_w.sort();
        let class = if g.iter().any(|m| !want.contains(m)) {
            "merged-split-or-modified"
        } else if g.iter().any(|m| g.iter().filter(|x| *x == m).count() > want.iter().filter(|x| *x == m).count()) {
            "duplicated"
        } else if sorted_g == sorted_w {
            "reordered"
        } else if g.iter().all(|m| want.contains(m)) {
            "lost-in-the-middle"
        } else {
            "merged-split-or-modified"
        };
        v.violate(
            class,
            format!("{}: peer {}'s messages as returned by recv: {:?}; as sent (after the type's envelope rule): {:?}", what, p, g.iter().map(|m| rc::show_frames(m)).collect::<Vec<_>>(), want.iter().map(|m| rc::show_frames(m)).collect::<Vec<_>>()),
        );
    }
    let canon: Vec<String> = got.iter().map(|r| match r {
        Ok(f) => rc::show_frames(f),
        Err(e) => format!("E:{}", e),
    }).collect();
    v.outcome_hash = rc::fnv(canon.join("|").as_bytes());
    v.trivial = got.iter().filter(|r| r.is_ok()).count() == 0;
    e3::finish(v)
}

/// Generations family: a peer with an announced identity connects, sends, ends its connection (cleanly or with a
/// reset) and connects again under the same identity - three lives in a row, next to a peer that stays. The end of
/// a life is either observed by the receiver (it is parked in recv when it happens) before the next life starts,
/// or not. Every message of every life must be delivered, per life in order, exactly once.
fn generations_scenario(ty: Ty, reset: bool, observed: bool, still_open: bool, policy: u8) -> Verdict {
    world::reset(world::WorldCfg { nested_env: true, yields: true, select: false, policy, coop: false });
    let lives = 3usize;
    let mut conns: Vec<e3::RawConn> = Vec::new();
    let mut want: Vec<Vec<Vec<u8>>> = Vec::new();
    let body = |g: usize, j: usize| -> Vec<Vec<u8>> {
        let tag = format!("g{}m{}", g, j).into_bytes();
        match ty {
            Ty::Rep => vec![vec![], tag],
            Ty::XPub => {
                let mut f = vec![1u8];
                f.extend(tag);
                vec![f]
            }
            _ => vec![tag, vec![], b"x".to_vec()],
        }
    };
    for g in 0..lives {
        let c = e3::raw_conn(&format!("A{}", g));
        if g > 0 {
            c.gate(&format!("life{}", g));
        }
        c.send(&rc::handshake(ty.peer_type(), Some(b"A")));
        for j in 0..2 {
            let m = body(g, j);
            c.send(&rc::encode_message(&m));
            let exp: Vec<Vec<u8>> = match ty {
                Ty::Rep => m[1..].to_vec(),
                Ty::Router => {
                    let mut e = vec![b"A".to_vec()];
                    e.extend(m.clone());
                    e
                }
                _ => m.clone(),
            };
            want.push(exp);
        }
        if g + 1 < lives && !still_open {
            if reset {
                world::push_chunk(c.to_lib, world::Chunk::Err(std::io::ErrorKind::ConnectionReset));
            } else {
                c.eof();
            }
        }
        conns.push(c);
    }
    let stay = e3::raw_conn("B");
    stay.send(&rc::handshake(ty.peer_type(), Some(b"B")));
    let sock = AnySocket::new(ty, None);
    let be = sock.backend();
    for (g, c) in conns.iter().enumerate() {
        let (be, c) = (be.clone(), *c);
        world::spawn_app(&format!("attachA{}", g), async move {
            let r = e3::attach_raw(be, c).await;
            world::log(format!("attach(A life {}) -> {}", g, e3::ok_or_err(&r)));
        });
    }
    {
        let be = be.clone();
        world::spawn_app("attachB", async move {
            let _ = e3::attach_raw(be, stay).await;
        });
    }
    let got = std::rc::Rc::new(std::cell::RefCell::new(Vec::<Vec<Vec<u8>>>::new()));
    let got2 = got.clone();
    world::spawn_app("receiver", async move {
        let mut sock = sock;
        sock.subscribe_all().await;
        let mut next_life = 1usize;
        for _ in 0..40 {
            // REP owes a reply after each request
            let r = world::until_idle(sock.recv()).await;
            match r {
                Some(Ok(m)) => {
                    got2.borrow_mut().push(crate::e1::frames_of(&m));
                    if ty == Ty::Rep {
                        let _ = world::until_idle(sock.send(crate::e1::msg(&[b"re".to_vec()]))).await;
                    }
                    if !observed && got2.borrow().len() == 2 * next_life && next_life < lives {
                        // the next life starts as soon as this one's messages are in, before its end has been seen
                        world::set_cond(&format!("life{}", next_life));
                        next_life += 1;
                    }
                }
                Some(Err(e)) => world::log(format!("recv -> Err({})", e3::err_class(&e))),
                None => {
                    // parked with nothing left to happen: the end of the current life has been observed
                    if next_life < lives {
                        world::set_cond(&format!("life{}", next_life));
                        next_life += 1;
                    } else {
                        break;
                    }
                }
            }
        }
        world::set_cond("done");
        world::wait_cond("never").await;
        drop(sock);
    });
    let end = world::run(e3::HORIZON * 2);
    let mut v = Verdict::default();
    v.truncated = end != world::RunEnd::Quiescent;
    let what = if still_open {
        format!("{} socket, identity A announced by three connections one after the other, each taking it over while the one before is still open, idle and registered (the receiver parked on it), next to a peer that stays", ty.name())
    } else {
        format!("{} socket, a peer with identity A living three lives ({} between them, {} by the receiver before the next life starts) next to a peer that stays", ty.name(), if reset { "connection reset" } else { "clean close" }, if observed { "observed" } else { "not yet observed" })
    };
    for p in world::panics() {
        v.violate("panic", format!("{}: {}", what, p));
    }
    if v.truncated {
        v.violate("spin", format!("{}: no quiescence", what));
    }
    let got = got.borrow().clone();
    if world::panics().is_empty() && !v.truncated && got != want {
        let class = if got.len() < want.len() { "generations/message-of-a-reconnected-peer-lost" } else if got.len() > want.len() { "generations/duplicated" } else { "generations/reordered-or-modified" };
        v.violate(class, format!("{}: recv returned {:?}; the peer sent {:?}", what, got.iter().map(|m| rc::show_frames(m)).collect::<Vec<_>>(), want.iter().map(|m| rc::show_frames(m)).collect::<Vec<_>>()));
    }
    v.outcome_hash = rc::fnv(format!("{:?}", got).as_bytes()) ^ rc::fnv(e3::canon_log().join("|").as_bytes());
    e3::finish(v)
}

// ------------------------------------------------------------------ E4: real time passes

/// Real runtime, real TCP, real time: the peer pipelines five messages and then does not read for 2.5 s while the
/// socket tries to send it several MiB (its sends block on the peer's full buffers and are given up by the
/// application after 4 s). Whatever happens to those sends, the five messages the peer sent must all be received,
/// in order. (The controlled executor has no clock: a library that starts a timer inside an operation cannot be
/// explored there; this family lets wall-clock time pass instead. OS schedules are not enumerated.)
async fn stalled_reader_case(ty: Ty) -> Vec<(String, String)> {
    use crate::e4::{self, RawStream};
    use std::time::Duration;
    let what = format!("{} over TCP: the peer pipelines 5 messages, then does not read for 2.5 s while the socket sends it 24 MiB", ty.name());
    let mut sock = AnySocket::new_unmonitored(ty, None);
    let ep = match sock.bind(&e4::bind_spec(e4::Tr::Tcp4)).await {
        Ok(e) => e,
        Err(e) => return vec![("machinery/bind".into(), format!("{}: {}", what, e))],
    };
    let mut peer = match RawStream::connect(&ep).await {
        Ok(p) => p,
        Err(e) => return vec![("machinery/connect".into(), format!("{}: {}", what, e))],
    };
    if e4::raw_handshake(&mut peer, ty.peer_type(), Some(b"P")).await.is_err() {
        return vec![("machinery/handshake".into(), what)];
    }
    let mut all = Vec::new();
    for i in 0..5 {
        all.extend(rc::encode_message(&[format!("req-{}", i).into_bytes()]));
    }
    let _ = peer.write_all(&all).await;
    // the socket receives the first one, then tries to push 24 MiB at the peer, which is not reading
    let mut got: Vec<String> = Vec::new();
    let first = tokio::time::timeout(e4::HORIZON, sock.recv()).await;
    if let Ok(Ok(m)) = &first {
        got.push(String::from_utf8_lossy(crate::e1::frames_of(m).last().unwrap()).to_string());
    }
    let big = rc::pattern(1 << 20, 3, 0);
    let t0 = std::time::Instant::now();
    for _ in 0..24 {
        let m = if ty == Ty::Router { vec![b"P".to_vec(), big.clone()] } else { vec![big.clone()] };
        let left = Duration::from_millis(4000).saturating_sub(t0.elapsed());
        if left.is_zero() {
            break;
        }
        // errors and timeouts of these sends are not judged
        let _ = tokio::time::timeout(left, sock.send(crate::e1::msg(&m))).await;
    }
    // 2.5 s (at least) have passed with the peer not reading; it now drains in the background
    let drain = tokio::spawn(async move {
        let mut buf = vec![0u8; 1 << 16];
        while let Ok(Ok(n)) = tokio::time::timeout(Duration::from_secs(8), peer.read_some(&mut buf)).await {
            if n == 0 {
                break;
            }
        }
    });
    for _ in 0..4 {
        match tokio::time::timeout(e4::HORIZON, sock.recv()).await {
            Ok(Ok(m)) => got.push(String::from_utf8_lossy(crate::e1::frames_of(&m).last().unwrap()).to_string()),
            _ => break,
        }
    }
    drain.abort();
    let want: Vec<String> = (0..5).map(|i| format!("req-{}", i)).collect();
    let _ = sock.close().await;
    if got != want {
        return vec![(format!("stalled-reader/messages-of-a-connected-peer-not-received/{}", ty.name()), format!("{}: recv returned {:?}, the peer had sent {:?} before it stopped reading", what, got, want))];
    }
    Vec::new()
}

fn params_json(p: &Params) -> serde_json::Value {
    json!({"type": p.ty.name(), "peers": p.peers, "msgs": p.msgs, "truncated_peer": p.truncated_peer, "split": p.split, "policy": p.policy, "coop": p.coop, "late_few": p.late_few, "long": p.long, "hdr_cut": p.hdr_cut, "anon": p.anon, "many": p.many})
}

fn params_from(v: &serde_json::Value) -> Option<Params> {
    Some(Params {
        ty: Ty::from_name(v["type"].as_str()?)?,
        peers: v["peers"].as_u64()? as usize,
        msgs: v["msgs"].as_u64()? as usize,
        truncated_peer: v["truncated_peer"].as_bool()?,
        split: v["split"].as_bool()?,
        policy: v["policy"].as_u64().unwrap_or(0) as u8,
        coop: v["coop"].as_bool().unwrap_or(false),
        late_few: v["late_few"].as_bool().unwrap_or(false),
        long: v["long"].as_u64().unwrap_or(0) as usize,
        hdr_cut: v["hdr_cut"].as_u64().unwrap_or(0) as usize,
        anon: v["anon"].as_u64().unwrap_or(0) as u8,
        many: v["many"].as_u64().unwrap_or(0) as usize,
    })
}

pub fn socket_jobs(tier: Tier) -> Vec<zvcore::explore::Job> {
    let thorough = tier == Tier::Thorough;
    let mut jobs = Vec::new();
    for ty in [Ty::Pull, Ty::Sub, Ty::Dealer, Ty::Router, Ty::Rep, Ty::XPub] {
        let mut variants = vec![
            Params { ty, peers: 2, msgs: 2, truncated_peer: false, split: true, policy: 0, coop: false, late_few: false, long: 0, hdr_cut: 0, anon: 0, many: 0 },
            Params { ty, peers: 2, msgs: 3, truncated_peer: true, split: false, policy: 0, coop: false, late_few: false, long: 0, hdr_cut: 0, anon: 0, many: 0 },
            Params { ty, peers: 1, msgs: 3, truncated_peer: false, split: true, policy: 0, coop: false, late_few: false, long: 0, hdr_cut: 0, anon: 0, many: 0 },
        ];
        variants.push(Params { ty, peers: 3, msgs: 2, truncated_peer: true, split: true, policy: 0, coop: false, late_few: false, long: 0, hdr_cut: 0, anon: 0, many: 0 });
        if thorough {
            variants.push(Params { ty, peers: 3, msgs: 3, truncated_peer: false, split: false, policy: 0, coop: false, late_few: false, long: 0, hdr_cut: 0, anon: 0, many: 0 });
        }
        // big frames: the peer's stream is cut after 1..8 bytes of the 9-byte header of a 300-byte frame (and after the
        // one flags byte of a 200-byte frame's 2-byte header)
        for hdr_cut in 1..=8usize {
            let pr = Params { ty, peers: 2, msgs: if hdr_cut % 2 == 0 { 2 } else { 3 }, truncated_peer: false, split: true, policy: 0, coop: false, late_few: false, long: 300, hdr_cut, anon: 0, many: 0 };
            let pr2 = pr.clone();
            jobs.push(e3::job(format!("C05/{}/long300/hdr-cut{}", ty.name(), hdr_cut), params_json(&pr), tier.pick(0, 1), 20_000, move || scenario(&pr2)));
        }
        {
            let pr = Params { ty, peers: 2, msgs: 2, truncated_peer: false, split: true, policy: 0, coop: false, late_few: false, long: 200, hdr_cut: 1, anon: 0, many: 0 };
            let pr2 = pr.clone();
            jobs.push(e3::job(format!("C05/{}/long200/hdr-cut1", ty.name()), params_json(&pr), tier.pick(0, 1), 20_000, move || scenario(&pr2)));
            let pr = Params { ty, peers: 2, msgs: 3, truncated_peer: false, split: true, policy: 0, coop: false, late_few: false, long: 70_000, hdr_cut: 5, anon: 0, many: 0 };
            let pr2 = pr.clone();
            jobs.push(e3::job(format!("C05/{}/long70000/hdr-cut5", ty.name()), params_json(&pr), 0, 20_000, move || scenario(&pr2)));
        }
        // a message of very many frames (around a plausible per-call bound of 1024, and far beyond)
        for many in [1030usize, 5000] {
            let pr = Params { ty, peers: 2, msgs: 3, truncated_peer: false, split: false, policy: 0, coop: false, late_few: false, long: 0, hdr_cut: 0, anon: 0, many };
            let pr2 = pr.clone();
            jobs.push(e3::job(format!("C05/{}/many-frames{}", ty.name(), many), params_json(&pr), 0, 20_000, move || scenario(&pr2)));
        }
        // peers that announce an empty identity, or none: still one stream per connection
        for anon in [1u8, 2] {
            for peers in [2usize, 3] {
                let pr = Params { ty, peers, msgs: 2, truncated_peer: false, split: peers == 2, policy: 0, coop: false, late_few: false, long: 0, hdr_cut: 0, anon, many: 0 };
                let pr2 = pr.clone();
                jobs.push(e3::job(format!("C05/{}/{}peers/anon{}", ty.name(), peers, anon), params_json(&pr), tier.pick(1, 2), 100_000, move || scenario(&pr2)));
            }
        }
        let variants: Vec<Params> = variants
            .into_iter()
            .flat_map(|v| (0..3u8).map(move |pol| Params { policy: pol, ..v.clone() }))
            // and once more with cooperative yields on reads (default policy only)
            .flat_map(|v| if v.policy == 0 { vec![v.clone(), Params { coop: true, ..v }] } else { vec![v] })
            .collect();
        for pr in variants {
            let pr2 = pr.clone();
            jobs.push(e3::job(
                format!("C05/socket/{}/{}x{}{}{}/policy{}{}", ty.name(), pr.peers, pr.msgs, if pr.truncated_peer { "/trunc" } else { "" }, if pr.split { "/split" } else { "" }, pr.policy, if pr.coop { "/coop" } else { "" }),
                params_json(&pr),
                tier.pick(2, 3),
                tier.pick(200_000, 3_000_000),
                move || scenario(&pr2),
            ));
            // the same with the peers announcing each of the other legal socket types
            if pr.policy == 0 && !pr.coop {
                for variant in 1..ty.peer_types().len() {
                    let pr2 = pr.clone();
                    let mut pj = params_json(&pr);
                    pj["peer_variant"] = json!(variant);
                    jobs.push(e3::job(format!("C05/socket/{}/{}x{}/peers-announce-{}", ty.name(), pr.peers, pr.msgs, ty.peer_types()[variant]), pj, tier.pick(1, 2), tier.pick(100_000, 1_000_000), move || scenario(&pr2)));
                }
            }
        }
    }
    for ty in [Ty::Pull, Ty::Sub, Ty::Dealer, Ty::Router, Ty::Rep, Ty::XPub] {
        for reset in [false, true] {
            for observed in [true, false] {
                for policy in 0..3u8 {
                    jobs.push(e3::job(
                        format!("C05/generations/{}/{}/{}/policy{}", ty.name(), if reset { "reset" } else { "close" }, if observed { "observed" } else { "unobserved" }, policy),
                        json!({"scenario":"generations","type":ty.name(),"reset":reset,"observed":observed,"policy":policy}),
                        tier.pick(1, 2),
                        tier.pick(200_000, 2_000_000),
                        move || generations_scenario(ty, reset, observed, false, policy),
                    ));
                }
            }
        }
        for policy in 0..3u8 {
            jobs.push(e3::job(
                format!("C05/generations/{}/still-open/policy{}", ty.name(), policy),
                json!({"scenario":"generations","type":ty.name(),"reset":false,"observed":true,"still_open":true,"policy":policy}),
                tier.pick(1, 2),
                tier.pick(200_000, 2_000_000),
                move || generations_scenario(ty, false, true, true, policy),
            ));
        }
    }
    // scale family (not exhaustive in n): many peers under the default schedules
    for ty in [Ty::Pull, Ty::Sub, Ty::Dealer, Ty::Router, Ty::Rep, Ty::XPub] {
        for &peers in tier.pick(&[17usize, 65, 130][..], &[17usize, 65, 130, 257, 520][..]) {
            for (policy, coop) in [(0u8, false), (1, false), (2, false), (0, true)] {
                let pr = Params { ty, peers, msgs: 2, truncated_peer: false, split: peers % 2 == 1, policy, coop, late_few: false, long: 0, hdr_cut: 0, anon: 0, many: 0 };
                let pr2 = pr.clone();
                jobs.push(e3::job(format!("C05/scale/{}/{}peers/policy{}{}", ty.name(), peers, policy, if coop { "/coop" } else { "" }), params_json(&pr), 0, 1000, move || scenario(&pr2)));
            }
            // the same number of connections, nearly all idle: two of them speak once the receiver is parked
            let pr = Params { ty, peers, msgs: 2, truncated_peer: false, split: false, policy: 0, coop: false, late_few: true, long: 0, hdr_cut: 0, anon: 0, many: 0 };
            let pr2 = pr.clone();
            jobs.push(e3::job(format!("C05/scale/{}/{}peers/late-few", ty.name(), peers), params_json(&pr), 0, 1000, move || scenario(&pr2)));
        }
    }
    jobs
}

pub fn replay_socket(v: &serde_json::Value) -> i32 {
    crate::replay::replay_e3(v, |p| {
        if p["scenario"] == "generations" {
            let (ty, reset, observed, policy) = (Ty::from_name(p["type"].as_str()?)?, p["reset"].as_bool()?, p["observed"].as_bool()?, p["policy"].as_u64()? as u8);
            let still_open = p["still_open"].as_bool().unwrap_or(false);
            return Some(std::sync::Arc::new(move || generations_scenario(ty, reset, observed, still_open, policy)) as zvcore::explore::Scenario);
        }
        let pr = params_from(p)?;
        Some(std::sync::Arc::new(move || scenario(&pr)) as zvcore::explore::Scenario)
    })
}

pub fn run(tier: Tier, replay: Option<String>) -> i32 {
    world::install_panic_hook();
    let mut ck = Check::new("C05", tier, "model_checking");
    if let Some(path) = replay {
        let v: serde_json::Value = serde_json::from_str(&std::fs::read_to_string(&path).expect("read")).expect("json");
        if v["replay"]["engine"] == "E2" {
            return e2::replay_file(&v);
        }
        if v["replay"]["engine"] == "E4" {
            let Some(ty) = v["replay"]["type"].as_str().and_then(Ty::from_name) else { return 2 };
            let viol = crate::e4::block_on_deadline(2, crate::e4::CASE_DEADLINE, move || async move { stalled_reader_case(ty).await }).unwrap_or_else(|| vec![("runtime-hung".to_string(), "the case did not come back".to_string())]);
            for (c, m) in &viol {
                println!("replay: VIOLATION {}: {}", c, m);
            }
            if viol.is_empty() {
                println!("replay: holds");
            }
            return if viol.is_empty() { 0 } else { 1 };
        }
        return replay_socket(&v);
    }
    let thorough = tier == Tier::Thorough;
    e2::run_configs(&mut ck, e2::general_configs(thorough), is_c05_class);
    // socket level
    let jobs = socket_jobs(tier);
    e3::run_jobs_into(&mut ck, jobs, false);
    // real time (E4 add-on; the two types whose sends can block on the peer they also receive from)
    let cases: Vec<Ty> = vec![Ty::Router, Ty::Dealer];
    let handles: Vec<_> = cases
        .iter()
        .map(|ty| {
            let ty = *ty;
            std::thread::spawn(move || (ty, crate::e4::block_on_deadline(2, crate::e4::CASE_DEADLINE, move || async move { stalled_reader_case(ty).await })))
        })
        .collect();
    for h in handles {
        if let Ok((ty, r)) = h.join() {
            match r {
                Some(viol) => {
                    for (c, m) in viol {
                        if c.starts_with("machinery/") {
                            ck.machinery_error(m);
                        } else {
                            ck.finding(c, m, json!({"engine":"E4","kind":"stalled-reader","type":ty.name()}));
                        }
                    }
                }
                None => ck.finding(format!("runtime-hung/{}", ty.name()), format!("{}: the stalled-reader case did not come back within {} s", ty.name(), crate::e4::CASE_DEADLINE.as_secs()), json!({"engine":"E4","kind":"stalled-reader","type":ty.name()})),
            }
        }
    }
    ck.cov("e4_stalled_reader_cases", cases.len() as u64);
    let tr = ck.coverage.get("transitions").and_then(|v| v.as_u64()).unwrap_or(0);
    let ex = ck.coverage.get("e3_executions").and_then(|v| v.as_u64()).unwrap_or(0);
    ck.cov("traces_validated_against_impl", tr + ex);
    ck.cov("exhaustive", ck.coverage.get("e2_all_fixpoints").and_then(|v| v.as_bool()).unwrap_or(false) && ck.coverage.get("e3_scenarios_capped").and_then(|v| v.as_u64()) == Some(0));
    ck.cov("explanation", "E2: breadth-first search over event histories of the REAL FairQueue (see C06 for the event alphabet); on every transition: a delivered item is the next undelivered item of its stream (no duplicate, no loss, right key), an item handed out by a stream reaches the receiver, a live stream is never dropped, a closed stream's arrived items are delivered before it disappears. E3: 6 receiving socket types x peer/message/cut variants through the real attach+recv under every schedule within the deviation bound (scheduling order, library yield points, deliveries landing inside pipe reads): per peer, the projection of the recv results equals the reference decode of what that peer wrote (after the type's envelope rule), the message cut by a disconnect never surfaces, and nothing complete is left undelivered at quiescence with a recv pending. Generations family: a peer with an announced identity lives three lives (clean close or reset between them, observed by the receiver before the next life starts or not) next to a peer that stays: every message of every life is delivered, in order, once. Real-time add-on (E4, ROUTER and DEALER over TCP): the peer pipelines five messages and does not read for 2.5 s while the socket's sends to it block; all five are received. Scale family (not exhaustive in n): the same oracle with 17 / 65 / 130 (thorough 257, 520) peers x 2 messages under the default schedules.");
    ck.assume("see C06 for the state-merging argument of E2");
    ck.assume("one poll between two yield points is atomic in E3; parallelism inside a poll is covered at the fair-queue level by E2's window events");
    ck.conclude()
}
