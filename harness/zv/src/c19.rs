//! C19 — endpoint parsing is total, strict and round-trips (engine E5).
//!
//! Bounded-exhaustive enumeration of strings over an 18-symbol alphabet, checked
//! against an independent reference parser (no regex; first "://" split, last
//! colon split, std's address parsers define "literal").

use serde_json::json;
use std::net::{Ipv4Addr, Ipv6Addr};
use std::sync::atomic::{AtomicU64, Ordering};
use std::sync::Mutex;
use zeromq::{Endpoint, Host};
use zvcore::evidence::{Check, Tier};
use zvcore::world;

const SIGMA: [&str; 18] = [
    "t", "c", "p", "i", ":", "/", "[", "]", ".", "0", "1", "9", "a", "\n", "é", "٣", "+", "-",
];

#[derive(Debug, Clone, PartialEq)]
enum RefHost {
    V4(Ipv4Addr),
    V6(Ipv6Addr),
    Domain(String),
}

#[derive(Debug, Clone, PartialEq)]
enum RefEp {
    Tcp(RefHost, u16),
    Ipc(String),
}

#[derive(Debug, Clone, PartialEq)]
enum Expect {
    MustAccept(RefEp),
    MustReject(&'static str),
    /// the statement does not settle accept/reject; if accepted it must be this
    Unsettled(Option<RefEp>, &'static str),
}

fn ref_host(h: &str) -> RefHost {
    if let Ok(a) = h.parse::<Ipv4Addr>() {
        return RefHost::V4(a);
    }
    if let Ok(a) = h.parse::<Ipv6Addr>() {
        return RefHost::V6(a);
    }
    if h.len() >= 2 && h.starts_with('[') && h.ends_with(']') {
        if let Ok(a) = h[1..h.len() - 1].parse::<Ipv6Addr>() {
            return RefHost::V6(a);
        }
    }
    RefHost::Domain(h.to_string())
}

fn reference(s: &str) -> Expect {
    let Some(pos) = s.find("://") else {
        return Expect::MustReject("no scheme separator");
    };
    let scheme = &s[..pos];
    let rest = &s[pos + 3..];
    if scheme != "tcp" && scheme != "ipc" {
        return Expect::MustReject("scheme is not lower-case tcp or ipc");
    }
    if rest.is_empty() {
        return Expect::MustReject("empty address");
    }
    if rest.contains('\n') {
        return Expect::Unsettled(None, "newline inside the address");
    }
    if scheme == "ipc" {
        return Expect::MustAccept(RefEp::Ipc(rest.to_string()));
    }
    let Some(c) = rest.rfind(':') else {
        return Expect::MustReject("no port separator");
    };
    let host = &rest[..c];
    let port = &rest[c + 1..];
    if host.is_empty() {
        return Expect::MustReject("empty host");
    }
    if port.is_empty() {
        return Expect::MustReject("empty port");
    }
    if !port.bytes().all(|b| b.is_ascii_digit()) {
        return Expect::MustReject("port is not ASCII decimal");
    }
    // numeric value with arbitrary precision
    let trimmed = port.trim_start_matches('0');
    let value: Option<u32> = if trimmed.is_empty() {
        Some(0)
    } else if trimmed.len() > 5 {
        None
    } else {
        trimmed.parse::<u32>().ok().filter(|v| *v <= 65535)
    };
    let Some(value) = value else {
        return Expect::MustReject("port out of range");
    };
    let ep = RefEp::Tcp(ref_host(host), value as u16);
    if port.len() > 1 && port.starts_with('0') {
        return Expect::Unsettled(Some(ep), "port with leading zeros");
    }
    Expect::MustAccept(ep)
}

fn lib_to_ref(e: &Endpoint) -> Option<RefEp> {
    match e {
        Endpoint::Tcp(h, p) => Some(RefEp::Tcp(
            match h {
                Host::Ipv4(a) => RefHost::V4(*a),
                Host::Ipv6(a) => RefHost::V6(*a),
                Host::Domain(d) => RefHost::Domain(d.clone()),
            },
            *p,
        )),
        Endpoint::Ipc(Some(p)) => Some(RefEp::Ipc(p.to_str()?.to_string())),
        _ => None,
    }
}

#[derive(Default)]
struct Stats {
    evaluated: AtomicU64,
    accepted: AtomicU64,
    must_accept: AtomicU64,
    must_reject: AtomicU64,
    unsettled: AtomicU64,
    roundtrips: AtomicU64,
    ipv6_printed: AtomicU64,
}

/// Checks one string; returns Some((class, message)) on violation.
fn check_one(s: &str, st: &Stats) -> Option<(String, String)> {
    st.evaluated.fetch_add(1, Ordering::Relaxed);
    let exp = reference(s);
    let got = match world::guarded(|| s.parse::<Endpoint>()) {
        Ok(r) => r,
        Err(p) => return Some(("panic/parse".into(), format!("parse({:?}) panicked: {}", s, p))),
    };
    match &exp {
        Expect::MustAccept(_) => st.must_accept.fetch_add(1, Ordering::Relaxed),
        Expect::MustReject(_) => st.must_reject.fetch_add(1, Ordering::Relaxed),
        Expect::Unsettled(..) => st.unsettled.fetch_add(1, Ordering::Relaxed),
    };
    match (&exp, &got) {
        (Expect::MustAccept(_), Err(e)) => {
            return Some((
                "reject-valid".into(),
                format!("parse({:?}) = Err({}) but the string is a valid endpoint", s, e),
            ))
        }
        (Expect::MustReject(why), Ok(e)) => {
            return Some((
                format!("accept-invalid/{}", why.replace(' ', "-")),
                format!("parse({:?}) = Ok({:?}) but must be rejected: {}", s, e, why),
            ))
        }
        _ => {}
    }
    let Ok(ep) = got else { return None };
    st.accepted.fetch_add(1, Ordering::Relaxed);
    let as_ref = lib_to_ref(&ep);
    let want = match &exp {
        Expect::MustAccept(r) => Some(r.clone()),
        Expect::Unsettled(r, _) => r.clone(),
        _ => None,
    };
    if let Some(want) = want {
        if as_ref.as_ref() != Some(&want) {
            let class = match (&want, &as_ref) {
                (RefEp::Tcp(RefHost::V4(_) | RefHost::V6(_), _), Some(RefEp::Tcp(RefHost::Domain(_), _))) => {
                    "address-as-domain"
                }
                _ => "wrong-value",
            };
            return Some((
                class.into(),
                format!("parse({:?}) = {:?}, reference says {:?}", s, ep, want),
            ));
        }
    }
    // address-shaped hosts are never Domain (holds for every accepted string, settled or not)
    if let Endpoint::Tcp(Host::Domain(d), _) = &ep {
        if !matches!(ref_host(d), RefHost::Domain(_)) {
            return Some((
                "address-as-domain".into(),
                format!("parse({:?}) classified address literal {:?} as a domain name", s, d),
            ));
        }
    }
    // parse . format . parse == parse
    let text = match world::guarded(|| ep.to_string()) {
        Ok(t) => t,
        Err(p) => return Some(("panic/display".into(), format!("Display of {:?} panicked: {}", ep, p))),
    };
    if let Endpoint::Tcp(Host::Ipv6(_), _) = &ep {
        st.ipv6_printed.fetch_add(1, Ordering::Relaxed);
        if !text.starts_with("tcp://[") || !text.contains("]:") {
            return Some((
                "ipv6-not-bracketed".into(),
                format!("{:?} (from {:?}) prints as {:?}: IPv6 host not bracketed", ep, s, text),
            ));
        }
    }
    let back = match world::guarded(|| text.parse::<Endpoint>()) {
        Ok(r) => r,
        Err(p) => return Some(("panic/parse".into(), format!("parse({:?}) panicked: {}", text, p))),
    };
    st.roundtrips.fetch_add(1, Ordering::Relaxed);
    match back {
        Ok(b) if b == ep => None,
        other => Some((
            "roundtrip".into(),
            format!(
                "parse({:?}) = {:?}; its text form {:?} parses to {:?}",
                s, ep, text, other
            ),
        )),
    }
}

fn enumerate(prefix: &str, max_len: usize, st: &Stats, viol: &Mutex<Vec<(String, String, String)>>, threads: usize) {
    // work items: the first two symbols
    let mut firsts: Vec<String> = Vec::new();
    firsts.push(String::new());
    for a in SIGMA {
        firsts.push(a.to_string());
        if max_len >= 2 {
            for b in SIGMA {
                firsts.push(format!("{}{}", a, b));
            }
        }
    }
    let next = AtomicU64::new(0);
    std::thread::scope(|sc| {
        for _ in 0..threads {
            sc.spawn(|| {
                world::install_panic_hook();
                loop {
                    let i = next.fetch_add(1, Ordering::Relaxed) as usize;
                    if i >= firsts.len() {
                        break;
                    }
                    let head = &firsts[i];
                    let head_syms = head.chars().count();
                    let mut buf = format!("{}{}", prefix, head);
                    let mut local: Vec<(String, String, String)> = Vec::new();
                    if head_syms < 2 || max_len == head_syms {
                        // only this exact string
                        if let Some((c, m)) = check_one(&buf, st) {
                            local.push((c, m, buf.clone()));
                        }
                    } else {
                        rec(&mut buf, max_len - head_syms, st, &mut local, true);
                    }
                    if !local.is_empty() {
                        viol.lock().unwrap().extend(local);
                    }
                }
            });
        }
    });
}

fn rec(buf: &mut String, remaining: usize, st: &Stats, out: &mut Vec<(String, String, String)>, check_self: bool) {
    if check_self {
        if let Some((c, m)) = check_one(buf, st) {
            if out.len() < 64 {
                out.push((c, m, buf.clone()));
            }
        }
    }
    if remaining == 0 {
        return;
    }
    for s in SIGMA {
        let l = buf.len();
        buf.push_str(s);
        rec(buf, remaining - 1, st, out, true);
        buf.truncate(l);
    }
}

fn product_family() -> Vec<String> {
    let hosts = [
        "127.0.0.1", "0.0.0.0", "255.255.255.255", "256.1.1.1", "1.2.3", "01.2.3.4", "1.2.3.4.5", "::1", "::",
        "[::1]", "[::]", "[::1", "::1]", "[]", "[", "]", "[[::1]]", "[1.2.3.4]", "::ffff:1.2.3.4",
        "[::ffff:1.2.3.4]", "fe80::1%eth0", "[fe80::1%eth0]", "2001:db8::8a2e:370:7334",
        "[2001:db8::8a2e:370:7334]", "1:2:3:4:5:6:7:8", "1:2:3:4:5:6:7:8:9", "localhost", "example.com",
        "a:b", "a:1", ":", "::::", "*", "é", "host name", "HOST", "a/b", "a//b", "tcp://x", "",
        "[::1]:1", "0", "0x7f.1", "١٢٧.٠.٠.١",
    ];
    let ports = [
        "0", "1", "80", "5555", "65535", "65536", "99999", "100000", "4294967296", "00", "01", "0080", "065535",
        "", "-1", "+1", "1 ", " 1", "a", "1a", "٣", "1٣", "0x10", "1.0", "18446744073709551616",
    ];
    let schemes = ["tcp://", "ipc://", "TCP://", "Tcp://", "tcp:/", "tcp:", "udp://", "://", "tcpx://", "é://", ""];
    let mut v = Vec::new();
    for sc in schemes {
        for h in hosts {
            for p in ports {
                v.push(format!("{}{}:{}", sc, h, p));
            }
            v.push(format!("{}{}", sc, h));
        }
    }
    v
}

/// (d) address spellings: every way of writing an address that the short-string enumerations cannot reach - each group
/// of an IPv6 literal in several widths and cases, `::` at every position and of every length, an embedded dotted quad
/// behind 6 groups or behind `::`, the longest spellings there are (45 bytes bare, 47 bracketed), near misses (a ninth
/// group, a five-digit group, an octet of 256, a zone), IPv4 octets in every width - bare and bracketed, plus hosts of
/// every length from 1 to 300 in three shapes (letters, digits, dotted labels). The reference classifies each with std's
/// address parsers, so nothing here is an expectation written by hand.
fn address_family() -> Vec<String> {
    let mut hosts: Vec<String> = Vec::new();
    let spell = ["0", "00", "000", "0000", "1", "01", "0001", "ffff", "FFFF", "fFfF", "abcd", "a", "00a", "12345", "g"];
    let quads = ["1.2.3.4", "0.0.0.0", "255.255.255.255", "10.10.10.10", "192.168.001.1", "256.1.1.1", "1.2.3", "1.2.3.4.5", "100.100.100.100"];
    // full 8-group forms: one spelling everywhere, and every single-position deviation from it
    for b in spell {
        hosts.push(vec![b; 8].join(":"));
        hosts.push(vec![b; 7].join(":"));
        hosts.push(vec![b; 9].join(":"));
        for i in 0..8 {
            for a in spell {
                if a != b {
                    let mut g = vec![b; 8];
                    g[i] = a;
                    hosts.push(g.join(":"));
                }
            }
        }
        // 6 groups and a dotted quad; 5 and 7 groups and a quad (invalid)
        for q in quads {
            hosts.push(format!("{}:{}", vec![b; 6].join(":"), q));
            hosts.push(format!("{}:{}", vec![b; 5].join(":"), q));
            hosts.push(format!("{}:{}", vec![b; 7].join(":"), q));
            hosts.push(format!("{}:ffff:{}", vec![b; 5].join(":"), q));
            hosts.push(format!("::{}:{}", b, q));
            hosts.push(format!("{}::{}", b, q));
            hosts.push(format!("{}:{}::{}", b, b, q));
        }
        // `::` standing for k groups with l groups before it
        for before in 0..=8usize {
            for after in 0..=(8 - before) {
                let l = vec![b; before].join(":");
                let r = vec![b; after].join(":");
                hosts.push(format!("{}::{}", l, r));
            }
        }
        hosts.push(format!("{}::{}::{}", b, b, b));
        hosts.push(format!("{}:::{}", b, b));
        hosts.push(format!("{}%eth0", vec![b; 8].join(":")));
    }
    // IPv4 octets in every width
    let oct = ["0", "1", "9", "10", "99", "100", "199", "255", "256", "00", "01", "001", "0255", "1000", ""];
    for a in oct {
        for i in 0..4 {
            let mut o = vec!["1"; 4];
            o[i] = a;
            hosts.push(o.join("."));
        }
        hosts.push(vec![a; 4].join("."));
    }
    // every length from 1 to 300 in three shapes
    for n in 1..=300usize {
        hosts.push("a".repeat(n));
        hosts.push("1".repeat(n));
        let mut d = String::new();
        while d.len() < n {
            d.push_str("ab.");
        }
        d.truncate(n);
        hosts.push(d);
        // an IPv6 literal padded to that length where a legal spelling of that length exists (up to 39 hex, 45 mixed)
        hosts.push(format!("{}::1", "0:".repeat(n.min(6))));
    }
    hosts.sort();
    hosts.dedup();
    let mut v = Vec::new();
    for h in &hosts {
        for p in ["0", "5555", "65535"] {
            v.push(format!("tcp://{}:{}", h, p));
            v.push(format!("tcp://[{}]:{}", h, p));
        }
        v.push(format!("tcp://{}", h));
        v.push(format!("tcp://[{}]", h));
        v.push(format!("ipc://{}", h));
    }
    v
}

pub fn run(tier: Tier, replay: Option<String>) -> i32 {
    world::install_panic_hook();
    let mut ck = Check::new("C19", tier, "model_checking");
    let st = Stats::default();
    if let Some(path) = replay {
        let v: serde_json::Value =
            serde_json::from_str(&std::fs::read_to_string(&path).expect("read replay")).expect("parse replay");
        let s = v["replay"]["input"].as_str().expect("replay.input").to_string();
        match check_one(&s, &st) {
            Some((c, m)) => {
                println!("replay {:?}: VIOLATION {}: {}", s, c, m);
                return 1;
            }
            None => {
                println!("replay {:?}: holds (parse = {:?})", s, s.parse::<Endpoint>());
                return 0;
            }
        }
    }
    let viol: Mutex<Vec<(String, String, String)>> = Mutex::new(Vec::new());
    let threads = ck.threads;
    let (whole_len, pre_len) = tier.pick((5, 5), (6, 6));
    // (a) every string over SIGMA up to whole_len
    enumerate("", whole_len, &st, &viol, threads);
    let a_count = st.evaluated.load(Ordering::Relaxed);
    // (b) scheme-like prefixes followed by every string up to pre_len
    let prefixes = ["tcp://", "ipc://", "TCP://", "tcp:/", "udp://"];
    for p in prefixes {
        enumerate(p, pre_len, &st, &viol, threads);
    }
    let b_count = st.evaluated.load(Ordering::Relaxed) - a_count;
    // (c) host x port x scheme product
    let fam = product_family();
    for s in &fam {
        if let Some((c, m)) = check_one(s, &st) {
            viol.lock().unwrap().push((c, m, s.clone()));
        }
    }
    // (d) address spellings and host lengths
    let fam_d = address_family();
    for s in &fam_d {
        if let Some((c, m)) = check_one(s, &st) {
            viol.lock().unwrap().push((c, m, s.clone()));
        }
    }
    ck.cov("address_spelling_inputs", fam_d.len() as u64);
    let mut vs = viol.into_inner().unwrap();
    // shortest input first per class
    vs.sort_by(|a, b| (a.2.len(), &a.2).cmp(&(b.2.len(), &b.2)));
    for (class, msg, input) in vs {
        ck.finding(class, msg, json!({"engine": "E5", "input": input}));
    }
    let ev = st.evaluated.load(Ordering::Relaxed);
    ck.cov("evaluations", ev);
    ck.cov("distinct_nontrivial", st.accepted.load(Ordering::Relaxed));
    ck.cov(
        "rule",
        format!(
            "all strings over the 18-symbol alphabet {:?} up to length {} ({}), the 5 prefixes {:?} followed by all strings up to length {} ({}), a {}-string scheme x host x port product, and an address-spelling family (IPv6 groups in every width and case, `::` at every position, embedded dotted quads, the longest spellings, near misses, IPv4 octet widths, hosts of every length 1..=300; bare and bracketed; see coverage.address_spelling_inputs); all inputs are distinct by construction; non-trivial = the library accepted the string (so value comparison, address classification, Display bracket rule and parse-format-parse were all exercised)",
            SIGMA, whole_len, a_count, prefixes, pre_len, b_count, fam.len()
        ),
    );
    ck.cov("must_accept_inputs", st.must_accept.load(Ordering::Relaxed));
    ck.cov("must_reject_inputs", st.must_reject.load(Ordering::Relaxed));
    ck.cov("unsettled_inputs", st.unsettled.load(Ordering::Relaxed));
    ck.cov("roundtrips_checked", st.roundtrips.load(Ordering::Relaxed));
    ck.cov("ipv6_hosts_printed", st.ipv6_printed.load(Ordering::Relaxed));
    ck.cov("exhaustive", true);
    ck.cov("traces_validated_against_impl", ev);
    ck.sample(json!({"input": "tcp://[::1]:9", "reference": format!("{:?}", reference("tcp://[::1]:9")), "library": format!("{:?}", world::guarded(|| "tcp://[::1]:9".parse::<Endpoint>()))}));
    ck.sample(json!({"input": "tcp://a:٣", "reference": format!("{:?}", reference("tcp://a:٣")), "library": format!("{:?}", world::guarded(|| "tcp://a:٣".parse::<Endpoint>().map_err(|e| e.to_string())))}));
    ck.sample(json!({"input": "ipc://\n", "reference": format!("{:?}", reference("ipc://\n")), "library": format!("{:?}", world::guarded(|| "ipc://\n".parse::<Endpoint>().map_err(|e| e.to_string())))}));
    ck.assume("std's Ipv4Addr/Ipv6Addr parsers define what an address literal is");
    ck.assume("strings outside the alphabet / longer than the bound are not covered");
    ck.conclude()
}
