//! C14 — dropping a pending recv loses nothing and leaves the socket usable (E3, cancellation points).

use crate::e1::{frames_of, msg};
use crate::e3::{self, AnySocket, Ty};
use serde_json::{json, Value};
use std::future::Future;
use std::pin::Pin;
use std::task::{Context, Poll};
use zeromq::ZmqError;
use zvcore::evidence::{Check, Tier};
use zvcore::explore::Verdict;
use zvcore::refcodec as rc;
use zvcore::world;

struct PollOnce<'a, F: Future>(Pin<&'a mut F>);
impl<'a, F: Future> Future for PollOnce<'a, F> {
    type Output = Option<F::Output>;
    fn poll(mut self: Pin<&mut Self>, cx: &mut Context<'_>) -> Poll<Self::Output> {
        match self.0.as_mut().poll(cx) {
            Poll::Ready(v) => Poll::Ready(Some(v)),
            Poll::Pending => Poll::Ready(None),
        }
    }
}

#[derive(Clone, Debug)]
struct Params {
    ty: Ty,
    /// cut offset inside the two-message region (0 = not cut)
    cut: usize,
    /// action string over P (poll the recv future once, creating it if none is open), D (next chunk arrives), X (drop the open future)
    actions: String,
    /// what has not arrived by the end of the action string arrives only once the final recv call is
    /// parked (it then depends on being woken through the waker of THAT call)
    late: bool,
    /// 0 = the peer sends its two messages only. Otherwise an item that is NOT a message of the shape the socket type
    /// expects stands in front of each of them: 1 = a one-frame message (for REQ/REP: no delimiter), 2 = a two-frame
    /// message whose first frame is not empty, 3 = a command (a second READY). `cut` then selects the chunking: 1 =
    /// [junk][m1 junk m2], 2 = [junk m1][junk m2], 3 = [junk m1 junk][m2]. What the library makes of such items is not
    /// judged; the oracle is differential: with the X actions (drops of the pending recv) the completed calls must
    /// return exactly what they return with the X actions removed, i.e. as if the abandoned calls had not been made.
    junk: u8,
}

fn scenario(pr: &Params) -> Verdict {
    if pr.junk == 0 {
        return e3::finish(scenario_run(pr, None).0);
    }
    let mut reference = pr.clone();
    reference.actions = pr.actions.replace('X', "");
    let (_, want) = scenario_run(&reference, Some(None));
    e3::finish(scenario_run(pr, Some(Some(want))).0)
}

/// `differential`: None = compare with the fixed expectation; Some(None) = reference run, nothing compared;
/// Some(Some(want)) = compare the completed calls' results with `want`
fn scenario_run(pr: &Params, differential: Option<Option<Vec<String>>>) -> (Verdict, Vec<String>) {
    world::reset(world::WorldCfg { nested_env: false, yields: false, select: false, policy: 0, coop: false });
    let ty = pr.ty;
    let (stream, wire, expect) = crate::c02::socket_stream(ty);
    let hs_len = rc::handshake(ty.peer_type(), Some(b"P1")).len();
    let c = e3::raw_conn("p");
    c.send(&stream[..hs_len]);
    let region = &stream[hs_len..];
    let n_chunks = if pr.junk > 0 {
        let junk: Vec<u8> = match pr.junk {
            1 => rc::encode_message(&[b"stray".to_vec()]),
            2 => rc::encode_message(&[b"stray".to_vec(), b"y".to_vec()]),
            _ => rc::encode_ready(ty.peer_type(), None),
        };
        let (m1, m2) = (rc::encode_message(&wire[0]), rc::encode_message(&wire[1]));
        let parts: [&[u8]; 4] = [&junk, &m1, &junk, &m2];
        let first_n = pr.cut.clamp(1, 3);
        c.gate(world::MANUAL_GATE);
        c.send(&parts[..first_n].concat());
        c.gate(world::MANUAL_GATE);
        c.send(&parts[first_n..].concat());
        2
    } else if pr.cut == 0 || pr.cut >= region.len() {
        c.gate(world::MANUAL_GATE);
        c.send(region);
        1
    } else {
        // (each chunk behind a gate of its own that only a D action opens: the scheduler never delivers them)
        c.gate(world::MANUAL_GATE);
        c.send(&region[..pr.cut]);
        c.gate(world::MANUAL_GATE);
        c.send(&region[pr.cut..]);
        2
    };
    if n_chunks == 1 {
        // keep the single chunk from being delivered by the scheduler: the actor delivers it
        // (re-push behind a gate)
    }
    let results = std::rc::Rc::new(std::cell::RefCell::new(Vec::<String>::new()));
    let viol = std::rc::Rc::new(std::cell::RefCell::new(Vec::<(String, String)>::new()));
    let (res2, viol2) = (results.clone(), viol.clone());
    let actions: Vec<char> = pr.actions.chars().collect();
    let to_lib = c.to_lib;
    let late = pr.late;
    world::spawn_app("app", async move {
        let mut sock = AnySocket::new(ty, None);
        // the handshake chunk is delivered by the scheduler; the message chunks only by D actions
        let r = e3::attach_raw(sock.backend(), c).await;
        if r.is_err() {
            viol2.borrow_mut().push(("attach-failed".into(), "attach failed".into()));
            return;
        }
        world::set_cond("go");
        let mut req_outstanding = false;
        let mut req_i = 0usize;
        if ty == Ty::Req {
            let s = sock.send(msg(&[b"q0".to_vec()])).await;
            if s.is_err() {
                viol2.borrow_mut().push(("req-send-failed".into(), "first request refused".into()));
                return;
            }
            req_outstanding = true;
        }
        let mut i = 0;
        let mut abandoned = 0usize;
        while i < actions.len() {
            match actions[i] {
                'D' => {
                    world::force_deliver(to_lib);
                    i += 1;
                }
                'P' if ty == Ty::Req && !req_outstanding => {
                    // nothing is owed: a recv now would be an out-of-turn call (C08's business)
                    i += 1;
                }
                'P' => {
                    // one recv call: polled at the P actions, deliveries at the D actions, dropped at X (or at the end)
                    let mut completed: Option<zeromq::ZmqResult<zeromq::ZmqMessage>> = None;
                    {
                        let mut fut = Box::pin(world::own_waker(sock.recv()));
                        while i < actions.len() && actions[i] != 'X' {
                            if actions[i] == 'D' {
                                world::force_deliver(to_lib);
                            } else if let Some(r) = PollOnce(fut.as_mut()).await {
                                completed = Some(r);
                                i += 1;
                                break;
                            }
                            i += 1;
                        }
                        if i < actions.len() && actions[i] == 'X' && completed.is_none() {
                            i += 1;
                        }
                        drop(fut);
                    }
                    match completed {
                        Some(r) => {
                            res2.borrow_mut().push(e3::show_result(&r));
                            if ty == Ty::Req {
                                req_outstanding = false;
                            }
                        }
                        None => {
                            abandoned += 1;
                            world::log(format!("recv future #{} dropped while pending", abandoned));
                        }
                    }
                }
                _ => i += 1, // X without an open call
            }
            if ty == Ty::Req && !req_outstanding && req_i == 0 {
                // first exchange finished inside the action phase: issue the second request
                req_i = 1;
                let s = sock.send(msg(&[b"q1".to_vec()])).await;
                if s.is_err() {
                    viol2.borrow_mut().push(("req/second-request-refused-after-completed-recv".into(), "send after a completed recv failed".into()));
                    return;
                }
                req_outstanding = true;
            }
        }
        // REQ: an abandoned recv still owes the recv for the outstanding request
        if ty == Ty::Req && req_outstanding && abandoned > 0 {
            let probe = vec![b"probe".to_vec()];
            let before = world::tap_len(c.from_lib);
            let s = sock.send(msg(&probe)).await;
            match &s {
                Err(ZmqError::ReturnToSender { message, .. }) => {
                    if frames_of(message) != probe {
                        viol2.borrow_mut().push(("req/returned-message-not-intact".into(), "refused send handed back a different message".into()));
                    }
                }
                Ok(()) => {
                    viol2.borrow_mut().push((
                        "req/abandoned-recv-forgot-outstanding-request".into(),
                        format!("after {} abandoned recv call(s) with request #{} unanswered, a new send was accepted ({} bytes written): the later request will be paired with the earlier request's reply", abandoned, req_i, world::tap_len(c.from_lib) - before),
                    ));
                    return;
                }
                Err(e) => viol2.borrow_mut().push(("req/unexpected-error".into(), e3::err_class(e))),
            }
        }
        // everything arrives now (or, in the late variant, while the next recv is parked); recv to completion
        if !late {
            while world::force_deliver(to_lib) {}
        } else {
            // from here on the scheduler delivers what is left - which it can only do once this actor is parked
            world::release_manual_gates(to_lib);
        }
        for _ in 0..3 {
            if ty == Ty::Req && !req_outstanding {
                if req_i >= 1 {
                    break;
                }
                req_i = 1;
                let s = sock.send(msg(&[b"q1".to_vec()])).await;
                if s.is_err() {
                    viol2.borrow_mut().push(("req/second-request-refused".into(), format!("{}", e3::ok_or_err(&s))));
                    break;
                }
                req_outstanding = true;
            }
            match world::until_idle(sock.recv()).await {
                Some(r) => {
                    res2.borrow_mut().push(e3::show_result(&r));
                    if ty == Ty::Req {
                        req_outstanding = false;
                    }
                }
                None => break,
            }
        }
        world::set_cond("done");
        world::wait_cond("never").await;
        drop(sock);
    });
    let end = world::run(e3::HORIZON);
    let mut v = Verdict::default();
    v.truncated = end != world::RunEnd::Quiescent;
    let what = if pr.junk > 0 {
        format!("{} socket, the peer sends {} in front of each of its two messages (chunking {}), actions {:?} (P poll recv once, D next chunk arrives, X drop the pending recv){}", ty.name(), ["", "a stray one-frame message", "a stray two-frame message", "a second READY command"][pr.junk as usize % 4], pr.cut, pr.actions, if pr.late { ", the rest arriving only while the final recv is parked" } else { "" })
    } else {
        format!("{} socket, peer's two messages cut at offset {}, actions {:?} (P poll recv once, D next chunk arrives, X drop the pending recv){}", ty.name(), pr.cut, pr.actions, if pr.late { ", the rest arriving only while the final recv is parked" } else { "" })
    };
    for p in world::panics() {
        v.violate("panic", format!("{}: {}", what, p));
    }
    if v.truncated {
        v.violate("spin", format!("{}: no quiescence", what));
    }
    for (c, m) in viol.borrow().iter() {
        v.violate(c.clone(), format!("{}: {}", what, m));
    }
    let got = results.borrow().clone();
    let want: Vec<String> = match &differential {
        None => expect.iter().map(|m| format!("Ok{}", rc::show_frames(m))).collect(),
        Some(None) => got.clone(),
        Some(Some(w)) => w.clone(),
    };
    if viol.borrow().is_empty() && world::panics().is_empty() && !v.truncated && got != want {
        let class = if got.len() < want.len() {
            "message-lost-after-abandoned-recv"
        } else if got.len() > want.len() {
            "message-duplicated-after-abandoned-recv"
        } else {
            "messages-differ-after-abandoned-recv"
        };
        v.violate(format!("{}/{}", class, if ty == Ty::Req { "REQ" } else { "fair-queue-types" }), format!("{}: recv calls returned {:?}, {} {:?}", what, got, if differential.is_some() { "with the drops of the pending recv removed from the same history they return" } else { "the peer sent" }, want));
    }
    v.outcome_hash = rc::fnv(got.join("|").as_bytes()) ^ rc::fnv(e3::canon_log().join("|").as_bytes());
    v.trivial = !world::log_snapshot().iter().any(|l| l.contains("dropped while pending"));
    (v, got)
}

/// REP protocol state: a request has been received and its reply is owed; recv futures are then
/// polled / dropped per the action string; the reply must still be accepted and reach the requester,
/// and a request arriving meanwhile must still be delivered afterwards.
fn rep_state_scenario(actions: &str, second_request_early: bool) -> Verdict {
    world::reset(world::WorldCfg { nested_env: false, yields: false, select: false, policy: 0, coop: false });
    let c = e3::raw_conn("req");
    c.send(&rc::handshake("REQ", Some(b"R")));
    c.send(&rc::encode_message(&[vec![], b"q1".to_vec()]));
    c.gate("second");
    c.send(&rc::encode_message(&[vec![], b"q2".to_vec()]));
    let viol = std::rc::Rc::new(std::cell::RefCell::new(Vec::<(String, String)>::new()));
    let viol2 = viol.clone();
    let acts: Vec<char> = actions.chars().collect();
    world::spawn_app("app", async move {
        let mut sock = AnySocket::new(Ty::Rep, None);
        let _ = e3::attach_raw(sock.backend(), c).await;
        let r = world::until_idle(sock.recv()).await;
        let rs = r.as_ref().map(e3::show_result).unwrap_or_else(|| "pending".into());
        if rs != format!("Ok{}", rc::show_frames(&[b"q1".to_vec()])) {
            viol2.borrow_mut().push(("rep/first-request".into(), format!("first recv returned {}", rs)));
            return;
        }
        if second_request_early {
            world::set_cond("second");
            world::idle().await;
        }
        // abandoned recv calls while the reply to q1 is owed
        let mut i = 0;
        let mut early: Option<String> = None;
        while i < acts.len() {
            if acts[i] == 'P' {
                let mut fut = Box::pin(sock.recv());
                while i < acts.len() && acts[i] == 'P' {
                    if let Some(r) = PollOnce(fut.as_mut()).await {
                        early = Some(e3::show_result(&r));
                        i = acts.len();
                        break;
                    }
                    i += 1;
                }
                drop(fut);
            }
            i += 1;
        }
        if let Some(e) = early {
            // the second request was delivered by one of the polls: then the socket owes THAT reply
            if e != format!("Ok{}", rc::show_frames(&[b"q2".to_vec()])) {
                viol2.borrow_mut().push(("rep/second-request".into(), format!("a polled recv returned {}", e)));
            }
            return;
        }
        let before = c.tap_messages().len();
        let s = sock.send(msg(&[b"a1".to_vec()])).await;
        let wire = c.tap_messages();
        match &s {
            Ok(()) => {
                if wire.len() != before + 1 || wire.last() != Some(&vec![vec![], b"a1".to_vec()]) {
                    viol2.borrow_mut().push(("rep/reply-after-abandoned-recv-misrouted".into(), format!("reply accepted but the requester's wire carries {:?}", wire.iter().map(|m| rc::show_frames(m)).collect::<Vec<_>>())));
                }
            }
            Err(e) => viol2.borrow_mut().push((
                "rep/abandoned-recv-forgot-owed-reply".into(),
                format!("after recv returned request q1, recv futures were polled and dropped ({}); the reply to q1 was then refused: {}", if acts.is_empty() { "none".to_string() } else { acts.iter().collect::<String>() }, e3::err_class(e)),
            )),
        }
        world::set_cond("second");
        let r = world::until_idle(sock.recv()).await;
        let rs = r.as_ref().map(e3::show_result).unwrap_or_else(|| "pending".into());
        if rs != format!("Ok{}", rc::show_frames(&[b"q2".to_vec()])) {
            viol2.borrow_mut().push(("rep/request-lost-after-abandoned-recv".into(), format!("the second request came out as {}", rs)));
        }
        world::wait_cond("never").await;
        drop(sock);
    });
    let end = world::run(e3::HORIZON);
    let mut v = Verdict::default();
    v.truncated = end != world::RunEnd::Quiescent;
    let what = format!("REP socket owing a reply, recv actions {:?}{}", actions, if second_request_early { ", second request already on the wire" } else { "" });
    for p in world::panics() {
        v.violate("panic", format!("{}: {}", what, p));
    }
    for (c, m) in viol.borrow().iter() {
        v.violate(c.clone(), format!("{}: {}", what, m));
    }
    v.outcome_hash = rc::fnv(e3::canon_log().join("|").as_bytes()) ^ rc::fnv(actions.as_bytes());
    e3::finish(v)
}

/// Burst family (not exhaustive in n): the peer sends `n` messages; the application polls each recv call
/// at most `k` times and drops it if it is still pending (`now_or_never` / a zero timeout in a loop), letting the
/// world run dry between attempts. Every message must come out, in order, once - also the one a recv call had
/// already taken out of the queue when it was dropped at some internal suspension point.
fn burst_scenario(ty: Ty, n: usize, k: usize) -> Verdict {
    world::reset(world::WorldCfg { nested_env: false, yields: false, select: false, policy: 0, coop: false });
    let c = e3::raw_conn("p");
    c.send(&rc::handshake(ty.peer_type(), Some(b"P1")));
    let mut want: Vec<String> = Vec::new();
    let mut all = Vec::new();
    for i in 0..n {
        let body = format!("m{:05}", i).into_bytes();
        let wire: Vec<Vec<u8>> = match ty {
            Ty::XPub => {
                let mut f = vec![1u8];
                f.extend(body.clone());
                vec![f]
            }
            _ => vec![body.clone(), vec![], b"t".to_vec()],
        };
        let exp: Vec<Vec<u8>> = if ty == Ty::Router {
            let mut e = vec![b"P1".to_vec()];
            e.extend(wire.clone());
            e
        } else {
            wire.clone()
        };
        want.push(format!("Ok{}", rc::show_frames(&exp)));
        all.extend(rc::encode_message(&wire));
    }
    c.send(&all);
    let results = std::rc::Rc::new(std::cell::RefCell::new(Vec::<String>::new()));
    let res2 = results.clone();
    world::spawn_app("app", async move {
        let mut sock = AnySocket::new(ty, None);
        sock.subscribe_all().await;
        if e3::attach_raw(sock.backend(), c).await.is_err() {
            return;
        }
        let mut dry = 0;
        for _ in 0..(4 * n + 20) {
            match world::poll_k_then_drop(sock.recv(), k).await {
                Some(r) => {
                    res2.borrow_mut().push(e3::show_result(&r));
                    dry = 0;
                }
                None => {
                    // nothing this time: let everything else run until nothing can happen any more
                    world::idle().await;
                    dry += 1;
                    if dry > 3 {
                        break;
                    }
                }
            }
            if res2.borrow().len() >= n {
                break;
            }
        }
        world::set_cond("done");
        world::wait_cond("never").await;
        drop(sock);
    });
    let end = world::run(e3::HORIZON * (10 + n as u64 / 2));
    let mut v = Verdict::default();
    v.truncated = end != world::RunEnd::Quiescent;
    let what = format!("{} socket, {} messages from one peer, every recv call polled at most {} time(s) and dropped if still pending", ty.name(), n, k);
    for p in world::panics() {
        v.violate("panic", format!("{}: {}", what, p));
    }
    let got = results.borrow().clone();
    if world::panics().is_empty() && !v.truncated && got != want {
        let missing: Vec<usize> = (0..n).filter(|i| !got.contains(&want[*i])).take(8).collect();
        let class = if got.len() < want.len() { "burst/message-lost-after-abandoned-recv" } else if got.len() > want.len() { "burst/message-duplicated-after-abandoned-recv" } else { "burst/messages-differ-after-abandoned-recv" };
        v.violate(class, format!("{}: {} of {} messages came out; first missing indices {:?}", what, got.len(), n, missing));
    }
    v.outcome_hash = rc::fnv(format!("{}:{}", got.len(), n).as_bytes());
    e3::finish(v)
}

fn pj(p: &Params) -> Value {
    json!({"type": p.ty.name(), "cut": p.cut, "actions": p.actions, "late": p.late, "junk": p.junk})
}

fn pf(v: &Value) -> Option<Params> {
    Some(Params {
        ty: Ty::from_name(v["type"].as_str()?)?,
        cut: v["cut"].as_u64()? as usize,
        actions: v["actions"].as_str()?.to_string(),
        late: v["late"].as_bool().unwrap_or(false),
        junk: v["junk"].as_u64().unwrap_or(0) as u8,
    })
}

/// well-formed action strings: at most `chunks` D's; X only while a call is open; no leading X
fn action_strings(max_len: usize, chunks: usize, max_calls: usize) -> Vec<String> {
    let mut out = Vec::new();
    fn rec(cur: &mut String, open: bool, ds: usize, calls: usize, max_len: usize, chunks: usize, max_calls: usize, out: &mut Vec<String>) {
        if cur.contains('P') {
            out.push(cur.clone());
        }
        if cur.len() == max_len {
            return;
        }
        // P
        if open || calls < max_calls {
            cur.push('P');
            rec(cur, true, ds, if open { calls } else { calls + 1 }, max_len, chunks, max_calls, out);
            cur.pop();
        }
        if ds < chunks {
            cur.push('D');
            rec(cur, open, ds + 1, calls, max_len, chunks, max_calls, out);
            cur.pop();
        }
        if open {
            cur.push('X');
            rec(cur, false, ds, calls, max_len, chunks, max_calls, out);
            cur.pop();
        }
    }
    rec(&mut String::new(), false, 0, 0, max_len, chunks, max_calls, &mut out);
    out
}

pub fn run(tier: Tier, replay: Option<String>) -> i32 {
    world::install_panic_hook();
    let mut ck = Check::new("C14", tier, "model_checking");
    if let Some(path) = replay {
        let v: Value = serde_json::from_str(&std::fs::read_to_string(&path).expect("read")).expect("json");
        return crate::replay::replay_e3(&v, |p| {
            if p["scenario"] == "burst" {
                let (ty, n, k) = (Ty::from_name(p["type"].as_str()?)?, p["n"].as_u64()? as usize, p["k"].as_u64()? as usize);
                return Some(std::sync::Arc::new(move || burst_scenario(ty, n, k)) as zvcore::explore::Scenario);
            }
            if p["scenario"] == "rep-state" {
                let (a, e) = (p["actions"].as_str()?.to_string(), p["early"].as_bool()?);
                return Some(std::sync::Arc::new(move || rep_state_scenario(&a, e)) as zvcore::explore::Scenario);
            }
            let pr = pf(p)?;
            Some(std::sync::Arc::new(move || scenario(&pr)) as zvcore::explore::Scenario)
        });
    }
    let (max_len, max_calls) = tier.pick((7, 3), (8, 3));
    let two = action_strings(max_len, 2, max_calls);
    let one = action_strings(max_len, 1, max_calls);
    let mut jobs = Vec::new();
    let mut n = 0u64;
    for ty in [Ty::Pull, Ty::Sub, Ty::Dealer, Ty::Router, Ty::Rep, Ty::XPub, Ty::Req] {
        let (stream, _, _) = crate::c02::socket_stream(ty);
        let hs_len = rc::handshake(ty.peer_type(), Some(b"P1")).len();
        let region = stream.len() - hs_len;
        for cut in 0..region {
            let acts = if cut == 0 { &one } else { &two };
            for a in acts {
                for late in [false, true] {
                    // the late variant differs only if something is left to arrive
                    if late && a.matches('D').count() >= if cut == 0 { 1 } else { 2 } {
                        continue;
                    }
                    let pr = Params { ty, cut, actions: a.clone(), late, junk: 0 };
                    let pr2 = pr.clone();
                    n += 1;
                    jobs.push(e3::job(format!("C14/{}/{}/{}/{}", ty.name(), cut, a, late), pj(&pr), 0, 4, move || scenario(&pr2)));
                }
            }
        }
    }
    // stray items in front of the messages; differential oracle (same history without the drops)
    let with_x: Vec<&String> = two.iter().filter(|a| a.contains('X')).collect();
    for ty in [Ty::Req, Ty::Rep, Ty::Dealer, Ty::Pull, Ty::Router, Ty::Sub, Ty::XPub] {
        for junk in 1..=3u8 {
            for cut in 1..=3usize {
                for a in &with_x {
                    for late in [false, true] {
                        if late && a.matches('D').count() >= 2 {
                            continue;
                        }
                        let pr = Params { ty, cut, actions: (*a).clone(), late, junk };
                        let pr2 = pr.clone();
                        n += 1;
                        jobs.push(e3::job(format!("C14/{}/junk{}/{}/{}/{}", ty.name(), junk, cut, a, late), pj(&pr), 0, 4, move || scenario(&pr2)));
                    }
                }
            }
        }
    }
    // REP protocol state after abandoned recv calls
    let mut rep_strings: Vec<String> = vec![String::new()];
    for len in 1..=tier.pick(5usize, 6usize) {
        for bits in 0..(1u32 << len) {
            let a: String = (0..len).map(|i| if bits >> i & 1 == 1 { 'P' } else { 'X' }).collect();
            if !a.starts_with('X') && !a.contains("XX") {
                rep_strings.push(a);
            }
        }
    }
    for a in &rep_strings {
        for early in [false, true] {
            let a2 = a.clone();
            n += 1;
            jobs.push(e3::job(format!("C14/REP-state/{}/{}", a, early), json!({"scenario":"rep-state","actions":a,"early":early}), 0, 4, move || rep_state_scenario(&a2, early)));
        }
    }
    for ty in [Ty::Pull, Ty::Sub, Ty::Dealer, Ty::Router, Ty::XPub] {
        for &nm in tier.pick(&[40usize, 140, 300][..], &[40usize, 140, 300, 1100, 2100][..]) {
            for k in 1..=tier.pick(2usize, 3usize) {
                n += 1;
                jobs.push(e3::job(format!("C14/burst/{}/{}/{}", ty.name(), nm, k), json!({"scenario":"burst","type":ty.name(),"n":nm,"k":k}), 0, 4, move || burst_scenario(ty, nm, k)));
            }
        }
    }
    e3::run_jobs_into(&mut ck, jobs, false);
    ck.cov("d_actions_that_delivered_a_chunk", world::FORCED_DELIVERIES.load(std::sync::atomic::Ordering::Relaxed));
    ck.cov("d_actions_and_final_drains_with_nothing_left", world::FORCED_DELIVERIES_WITH_NOTHING_TO_DELIVER.load(std::sync::atomic::Ordering::Relaxed));
    let ex = ck.coverage.get("e3_executions").and_then(|v| v.as_u64()).unwrap_or(0);
    ck.cov("states", n);
    ck.cov("transitions", ex);
    ck.cov("traces_validated_against_impl", ex);
    ck.cov("action_strings", (two.len() + one.len()) as u64);
    ck.cov("exhaustive", true);
    ck.cov("explanation", format!("for PULL, SUB, DEALER, ROUTER, REP, XPUB and REQ: the peer's two messages (one multipart) are cut at EVERY byte offset into two chunks; the application runs EVERY well-formed action string of length <= {} over {{P: poll the recv future once (creating it if none is open), D: the next chunk arrives, X: drop the pending future}} with at most {} recv calls ({} strings) — i.e. every cancellation point relative to every arrival position — then lets everything arrive — before the next recv call, or (second variant) only once that call is parked — and calls recv to completion; every recv call runs under a waker of its own that is dead once the call has been dropped (as when the socket moves to another task), and the final calls are re-polled only when that waker fires: the results must be exactly the peer's messages, in order, once. REQ: after send(q0), abandoned recv calls must leave the socket owing that recv: a new send must fail with ReturnToSender (message intact) and recv must return reply 0; with the reply arriving before / during / after the abandoned call. REP: with a request received and its reply owed, every string of polled-and-dropped recv calls (with or without the next request already on the wire) must leave the reply acceptable and routed to the requester, and the next request deliverable. Burst family (not exhaustive in n): 40 / 140 / 300 (thorough 1100, 2100) messages from one peer to PULL, SUB, DEALER, ROUTER, XPUB with every recv call polled at most 1..2 (3) times and dropped if still pending: every message comes out, in order, once. The fair queue's part (a stream is checked out and returned within one synchronous poll) is additionally covered by the always-enabled spurious Poll in E2 (C05/C06).", max_len, max_calls, two.len() + one.len()));
    ck.assume("the cancellation point of a future is between two polls; each poll is atomic");
    ck.conclude()
}
