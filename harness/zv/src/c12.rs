//! C12 — a slow subscriber never blocks the publisher or corrupts its own stream (E3, fault sequences).

use crate::e1::msg;
use crate::e3::{self, AnySocket, Ty};
use serde_json::{json, Value};
use zvcore::evidence::{Check, Tier};
use zvcore::explore::Verdict;
use zvcore::refcodec as rc;
use zvcore::world::{self, WMode};

const HWM: usize = 131_072;
const SIZES: [usize; 6] = [1, 1000, 65_536, 131_072 - 9, 131_072, 200_000];

/// per-publish mode of the slow connection: 0 open, 1 stalled, 2 accepts 1000 more bytes then stalls, 3 broken pipe (absorbing)
#[derive(Clone, Debug)]
struct Params {
    ty: Ty,
    modes: Vec<u8>,
    /// index into SIZES per publish
    sizes: Vec<u8>,
    two_slow: bool,
    bound_policy: u8,
    /// hash key of the subscriber table (iteration order of the publish loop)
    hash_key: u64,
    /// what a broken connection answers writes with: 0 BrokenPipe, 1 ConnectionReset, 2 TimedOut
    err_kind: u8,
    /// 255 = never; k = right after publish #k the slow subscribers' READ side ends cleanly (a half-close: the peer
    /// has shut down its sending direction) while their connections stay in whatever write mode they are in - stalled,
    /// with a backlog. The publisher must go on returning and the healthy subscriber must miss nothing.
    eof_after: u8,
}

fn publish_msg(i: usize, size: usize) -> Vec<Vec<u8>> {
    // (the topic frame once more at the end: frames of equal content within one message)
    vec![format!("t{}", i).into_bytes(), rc::pattern(size, i as u64 + 1, 0), format!("t{}", i).into_bytes()]
}

fn scenario(pr: &Params) -> Verdict {
    e3::set_hash_key(pr.hash_key);
    world::reset(world::WorldCfg { nested_env: false, yields: true, select: true, policy: pr.bound_policy, coop: false });
    let ty = pr.ty;
    let n_slow = if pr.two_slow { 2 } else { 1 };
    let slow: Vec<e3::RawConn> = (0..n_slow).map(|i| e3::raw_conn(&format!("slow{}", i))).collect();
    let healthy = e3::raw_conn("healthy");
    for (i, c) in slow.iter().chain(std::iter::once(&healthy)).enumerate() {
        c.send(&rc::handshake("SUB", Some(format!("S{}", i).as_bytes())));
        c.send(&rc::encode_message(&[vec![1u8]]));
        world::reserve_tap(c.from_lib, 2_000_000);
    }
    let npub = pr.modes.len();
    let msgs: Vec<Vec<Vec<u8>>> = (0..npub).map(|i| publish_msg(i, SIZES[pr.sizes[i] as usize])).collect();
    let sentinels: Vec<Vec<Vec<u8>>> = (0..2).map(|i| vec![format!("sentinel{}", i).into_bytes()]).collect();
    #[derive(Default, Clone)]
    struct StepObs {
        completed: bool,
        accepted_app: Vec<usize>,
        heap: isize,
    }
    let obs = std::rc::Rc::new(std::cell::RefCell::new(Vec::<StepObs>::new()));
    let obs2 = obs.clone();
    let (slow2, msgs2, sent2, modes) = (slow.clone(), msgs.clone(), sentinels.clone(), pr.modes.clone());
    let eof_after = pr.eof_after;
    let err_kind = pr.err_kind;
    let hs_len = std::rc::Rc::new(std::cell::Cell::new(0usize));
    let hs_len2 = hs_len.clone();
    world::spawn_app("publisher", async move {
        let mut sock = AnySocket::new(ty, None);
        for c in slow2.iter().chain(std::iter::once(&healthy)) {
            let _ = e3::attach_raw(sock.backend(), *c).await;
        }
        if ty == Ty::XPub {
            for _ in 0..slow2.len() + 1 {
                let _ = world::until_idle(sock.recv()).await;
            }
        } else {
            world::idle().await;
        }
        hs_len2.set(world::tap_len(slow2[0].from_lib));
        crate::alloc::mark();
        let mut broken = false;
        for (i, m) in msgs2.iter().enumerate() {
            // time passes between two publishes: reader tasks and everything else may run here
            world::yield_now().await;
            let mode = if broken { 3 } else { modes[i] };
            if mode == 3 {
                broken = true;
            }
            for c in &slow2 {
                world::set_wmode(
                    c.from_lib,
                    match mode {
                        0 => WMode::Open,
                        1 => WMode::Stalled,
                        2 => WMode::Budget(1000),
                        _ => WMode::Fail([std::io::ErrorKind::BrokenPipe, std::io::ErrorKind::ConnectionReset, std::io::ErrorKind::TimedOut][err_kind as usize % 3]),
                    },
                );
            }
            let r = world::until_idle(sock.send(msg(m))).await;
            let completed = r.is_some();
            if let Some(Err(e)) = &r {
                world::log(format!("publish#{} -> Err({})", i, e3::err_class(e)));
            }
            obs2.borrow_mut().push(StepObs {
                completed,
                accepted_app: slow2.iter().map(|c| world::tap_len(c.from_lib)).collect(),
                heap: crate::alloc::net(),
            });
            if !completed {
                world::log(format!("publish#{} never completed while the slow connection made no progress", i));
                return;
            }
            if i as u8 == eof_after {
                for c in &slow2 {
                    c.eof();
                }
                // the publisher's reader tasks (PUB) see the end; an XPUB sees it in its next recv
                if ty == Ty::XPub {
                    let _ = world::until_idle(sock.recv()).await;
                } else {
                    world::idle().await;
                }
            }
        }
        // open the pipe; sentinel publishes give the best-effort flush a chance
        if !broken {
            for c in &slow2 {
                world::set_wmode(c.from_lib, WMode::Open);
            }
        }
        for s in &sent2 {
            let _ = world::until_idle(sock.send(msg(s))).await;
        }
        world::set_cond("done");
        world::wait_cond("never").await;
        drop(sock);
    });
    let end = world::run(e3::HORIZON * 10);
    e3::set_hash_key(0);
    let mut v = Verdict::default();
    v.truncated = end != world::RunEnd::Quiescent;
    let what = format!(
        "{} with {} slow + 1 healthy subscriber, publishes of sizes {:?}, slow connection mode per publish {:?} (0 open, 1 stalled, 2 accepts 1000 B then stalls, 3 broken){}",
        ty.name(),
        n_slow,
        pr.sizes.iter().map(|s| SIZES[*s as usize]).collect::<Vec<_>>(),
        pr.modes,
        if pr.eof_after != 255 { format!(", the slow subscriber's read side ending (half-close) right after publish #{}", pr.eof_after) } else { String::new() }
    );
    for p in world::panics() {
        v.violate("panic", format!("{}: {}", what, p));
    }
    if v.truncated {
        v.violate("spin", format!("{}: no quiescence", what));
    }
    let obs = obs.borrow().clone();
    if let Some(i) = obs.iter().position(|o| !o.completed) {
        v.violate("publisher-blocked-on-slow-subscriber", format!("{}: publish #{} did not return while the slow subscriber's connection accepted nothing", what, i));
        v.outcome_hash = 1;
        return e3::finish(v);
    }
    // (a subscriber whose read side has ended is gone as far as its own stream is concerned)
    let broken = pr.modes.contains(&3) || pr.eof_after != 255;
    let mut all_published: Vec<Vec<Vec<u8>>> = msgs.clone();
    all_published.extend(sentinels.clone());
    // healthy subscriber misses none
    let hgot = healthy.tap_messages();
    if hgot != all_published && v.violations.is_empty() {
        v.violate(
            "healthy-subscriber-affected",
            format!("{}: the healthy subscriber received {} of {} messages (first frames {:?})", what, hgot.len(), all_published.len(), hgot.iter().map(|m| String::from_utf8_lossy(&m[0]).to_string()).collect::<Vec<_>>()),
        );
    }
    let max_msg = msgs.iter().map(|m| rc::encode_message(m).len()).max().unwrap_or(0);
    let mut canon = Vec::new();
    for (si, c) in slow.iter().enumerate() {
        let tap = c.tap();
        let d = rc::decode_stream(&tap, true);
        if d.error.is_some() {
            v.violate("slow-stream-malformed", format!("{}: slow subscriber {}'s wire is not well-formed ZMTP: {:?}", what, si, d.error));
            continue;
        }
        let got = d.messages();
        // order-preserving subsequence of what was published
        let mut k = 0;
        let mut delivered_idx: Vec<usize> = Vec::new();
        let mut bad = false;
        for g in &got {
            while k < all_published.len() && all_published[k] != *g {
                k += 1;
            }
            if k == all_published.len() {
                bad = true;
                break;
            }
            delivered_idx.push(k);
            k += 1;
        }
        if bad {
            v.violate("slow-stream-not-a-subsequence", format!("{}: slow subscriber {} received messages that are not an order-preserving subsequence of the publishes (duplicate, reordering or corruption): first frames {:?}", what, si, got.iter().map(|m| String::from_utf8_lossy(&m[0]).to_string()).collect::<Vec<_>>()));
            continue;
        }
        if !broken {
            if d.consumed != tap.len() {
                v.violate("slow-stream-partial-message", format!("{}: after the connection was opened and flushed, slow subscriber {}'s wire ends with {} bytes of an incomplete message", what, si, tap.len() - d.consumed));
            }
            if pr.modes.iter().all(|m| *m == 0) && got != all_published {
                v.violate("open-subscriber-missed-messages", format!("{}: a subscriber whose connection accepted every write received {} of {} messages", what, got.len(), all_published.len()));
            }
            // buffered bytes at every step: wire size of the messages that eventually made it minus bytes accepted so far
            let hs = hs_len.get();
            for (i, o) in obs.iter().enumerate() {
                let queued: usize = delivered_idx.iter().filter(|j| **j <= i).map(|j| rc::encode_message(&all_published[*j]).len()).sum();
                let accepted = o.accepted_app[si].saturating_sub(hs);
                let buffered = queued.saturating_sub(accepted);
                if buffered > HWM + max_msg {
                    v.violate("buffer-above-high-water-mark", format!("{}: after publish #{} the library held {} bytes for slow subscriber {} (high-water mark {} + one message of {} bytes)", what, i, buffered, si, HWM, max_msg));
                    break;
                }
            }
        }
        canon.push(format!("{}:{:?}", si, delivered_idx));
    }
    // heap growth across the publishes (taps are pre-allocated): bounded by HWM + one message per slow subscriber, with slack for buffer capacity doubling
    let bound = (n_slow as isize) * (2 * (HWM + max_msg) as isize + 65_536) + 2 * max_msg as isize + 65_536;
    if let Some((i, o)) = obs.iter().enumerate().find(|(_, o)| o.heap > bound) {
        v.violate("heap-growth-unbounded", format!("{}: net heap growth after publish #{} is {} bytes (bound {} = {} x (2 x (HWM + largest message) + 64 KiB) + slack)", what, i, o.heap, bound, n_slow));
    }
    if !world::cond("done") && v.violations.is_empty() {
        v.violate("publisher-stuck", format!("{}: publisher did not finish", what));
    }
    v.outcome_hash = rc::fnv(canon.join("|").as_bytes());
    e3::finish(v)
}

fn pj(p: &Params) -> Value {
    json!({"type": p.ty.name(), "modes": p.modes, "sizes": p.sizes, "two_slow": p.two_slow, "policy": p.bound_policy, "hash_key": p.hash_key, "err_kind": p.err_kind, "eof_after": p.eof_after})
}

fn pf(v: &Value) -> Option<Params> {
    let arr = |x: &Value| -> Vec<u8> { x.as_array().map(|a| a.iter().map(|y| y.as_u64().unwrap_or(0) as u8).collect()).unwrap_or_default() };
    Some(Params {
        ty: Ty::from_name(v["type"].as_str()?)?,
        modes: arr(&v["modes"]),
        sizes: arr(&v["sizes"]),
        two_slow: v["two_slow"].as_bool()?,
        bound_policy: v["policy"].as_u64().unwrap_or(0) as u8,
        hash_key: v["hash_key"].as_u64().unwrap_or(0),
        err_kind: v["err_kind"].as_u64().unwrap_or(0) as u8,
        eof_after: v["eof_after"].as_u64().unwrap_or(255) as u8,
    })
}

pub fn run(tier: Tier, replay: Option<String>) -> i32 {
    world::install_panic_hook();
    let mut ck = Check::new("C12", tier, "model_checking");
    if let Some(path) = replay {
        let v: Value = serde_json::from_str(&std::fs::read_to_string(&path).expect("read")).expect("json");
        return crate::replay::replay_e3(&v, |p| {
            let pr = pf(p)?;
            Some(std::sync::Arc::new(move || scenario(&pr)) as zvcore::explore::Scenario)
        });
    }
    // all mode sequences with "broken" absorbing
    let len = 6usize;
    let mut seqs: Vec<Vec<u8>> = vec![vec![]];
    for _ in 0..len {
        let mut next = Vec::new();
        for s in &seqs {
            if s.last() == Some(&3) {
                let mut t = s.clone();
                t.push(3);
                next.push(t);
                continue;
            }
            for m in 0..4u8 {
                let mut t = s.clone();
                t.push(m);
                next.push(t);
            }
        }
        seqs = next;
    }
    seqs.sort();
    seqs.dedup();
    let profiles: Vec<Vec<u8>> = match tier {
        Tier::Quick => vec![vec![1, 2, 5, 1, 3, 4], vec![5, 5, 5, 5, 5, 5], vec![3, 0, 4, 0, 5, 1], vec![4, 4, 4, 3, 3, 3]],
        Tier::Thorough => vec![
            vec![1, 2, 5, 1, 3, 4],
            vec![5, 5, 5, 5, 5, 5],
            vec![0, 0, 0, 0, 0, 0],
            vec![2, 2, 2, 2, 2, 2],
            vec![3, 0, 4, 0, 5, 1],
            vec![4, 4, 4, 3, 3, 3],
        ],
    };
    let mut jobs = Vec::new();
    let mut n = 0u64;
    for ty in [Ty::Pub, Ty::XPub] {
        for prof in &profiles {
            for s in &seqs {
                if ty == Ty::XPub && tier == Tier::Quick && s.iter().filter(|m| **m != 0).count() > 3 && prof[0] != 5 {
                    continue;
                }
                // the iteration order of the subscriber table matters once a subscriber is removed mid-loop
                let keys: Vec<u64> = if s.contains(&3) { vec![0, 1, 2] } else { vec![0] };
                for hash_key in keys {
                    // a connection that breaks: also with the other error kinds a write can fail with
                    let kinds: Vec<u8> = if s.contains(&3) { vec![0, 1, 2] } else { vec![0] };
                    for err_kind in kinds {
                        let pr = Params { ty, modes: s.clone(), sizes: prof.clone(), two_slow: false, bound_policy: 0, hash_key, err_kind, eof_after: 255 };
                        let pr2 = pr.clone();
                        n += 1;
                        jobs.push(e3::job(format!("C12/{}/{:?}/{:?}/key{}/err{}", ty.name(), prof, s, hash_key, err_kind), pj(&pr), 0, 1000, move || scenario(&pr2)));
                    }
                }
            }
        }
        // schedule deviations and two slow subscribers on a subset: sequences of length 6 with at most 2 distinct modes
        for s in seqs.iter().filter(|s| {
            let mut d = (*s).clone();
            d.sort();
            d.dedup();
            d.len() <= 2 && s.windows(2).filter(|w| w[0] != w[1]).count() <= 1
        }) {
            for two in [false, true] {
                if !two && tier == Tier::Quick {
                    continue;
                }
                let pr = Params { ty, modes: s.clone(), sizes: profiles[0].clone(), two_slow: two, bound_policy: 0, hash_key: 0, err_kind: 0, eof_after: 255 };
                let pr2 = pr.clone();
                n += 1;
                jobs.push(e3::job(format!("C12/{}/dev/{:?}/{}", ty.name(), s, two), pj(&pr), 1, 5000, move || scenario(&pr2)));
            }
        }
    }
    // a stalled subscriber with a backlog half-closes
    for ty in [Ty::Pub, Ty::XPub] {
        for modes in [vec![2u8, 1, 1, 1, 1, 1], vec![1, 1, 1, 1, 1, 1], vec![2, 2, 1, 1, 0, 0], vec![0, 2, 1, 1, 1, 1]] {
            for eof_after in 0..4u8 {
                for hash_key in 0..2u64 {
                    let pr = Params { ty, modes: modes.clone(), sizes: vec![1; 6], two_slow: hash_key == 1, bound_policy: 0, hash_key, err_kind: 0, eof_after };
                    let pr2 = pr.clone();
                    n += 1;
                    jobs.push(e3::job(format!("C12/{}/half-close/{:?}/after{}/key{}", ty.name(), modes, eof_after, hash_key), pj(&pr), tier.pick(1, 2), 20_000, move || scenario(&pr2)));
                }
            }
        }
    }
    // the same scenarios with peers that announce an Identity of length 0 / no Identity (every 30th job): the oracle
    // never looks at the peers' identities, and every connection must still be kept apart
    let anon: Vec<zvcore::explore::Job> = jobs.iter().filter(|j| true).step_by(30).flat_map(|j| [e3::anon_copy(j, 1), e3::anon_copy(j, 2)]).collect();
    ck.cov("scenarios_repeated_with_anonymous_peers", anon.len() as u64);
    let mut jobs = jobs;
    jobs.extend(anon);
    e3::run_jobs_into(&mut ck, jobs, false);
    let ex = ck.coverage.get("e3_executions").and_then(|v| v.as_u64()).unwrap_or(0);
    ck.cov("states", n);
    ck.cov("transitions", ex);
    ck.cov("traces_validated_against_impl", ex);
    ck.cov("mode_sequences", seqs.len() as u64);
    ck.cov("size_profiles", profiles.len() as u64);
    ck.cov("exhaustive", true);
    ck.cov("explanation", format!("PUB and XPUB with one slow and one healthy subscriber (both subscribed to everything): ALL sequences of the slow connection's behaviour over 6 publishes ({{open, stalled, accepts 1000 more bytes then stalls, broken pipe (absorbing)}}: {} sequences) x {} size profiles over {{1 B, 1 kB, 64 KiB, 128 KiB-9, 128 KiB, 200 kB}}; the stall pattern IS the enumerated space. Oracle: every publish returns while the slow pipe makes no progress (quiescence with the send still pending = publisher blocked); the healthy subscriber receives everything; after the pipe is opened and flushed by two sentinel publishes the slow wire is a well-formed stream of complete messages forming an order-preserving subsequence of the publishes, nothing missing if it never stalled; bytes held for the slow subscriber (wire size of messages that eventually made it, published so far, minus bytes accepted so far) never exceed the 131072-byte high-water mark plus one message; net heap growth (counting allocator, taps pre-allocated) stays below n_slow x (2 x (HWM + largest message) + 64 KiB) + slack. A subset additionally with two slow subscribers and every single schedule deviation.", seqs.len(), profiles.len()));
    ck.assume("the pipe's write half is the harness's: 'not accepting data' = poll_write returns Pending (waker registered)");
    ck.assume("bytes queued for a subscriber below the high-water mark are only written from inside a later publish (the library flushes a subscriber's buffer with a no-op waker from send()); the statement does not say when a queued tail must go out, so every history is followed by two sentinel publishes after the connection re-opens and the stream is judged after them - a tail that would sit in the buffer for ever if nothing were published again is not reported");
    ck.conclude()
}
