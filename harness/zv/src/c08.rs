//! C08 — REQ/REP lock-step: one outstanding request, reply goes to its requester (E3).

use crate::e1::{frames_of, msg};
use crate::e3::{self, AnySocket, Ty};
use serde_json::{json, Value};
use zeromq::ZmqError;
use zvcore::evidence::{Check, Tier};
use zvcore::explore::Verdict;
use zvcore::refcodec as rc;
use zvcore::world;

/// (a) one call sequence on a REQ with `peers` echo peers. ops: true = send, false = recv.
/// `dead_first`: the first peer's connection fails every write (the socket has not noticed yet).
fn req_sequence(ops: &[bool], peers: usize, dead_first: bool) -> Verdict {
    world::reset(world::WorldCfg { nested_env: false, yields: false, select: false, policy: 0, coop: false });
    let conns: Vec<e3::RawConn> = (0..peers).map(|i| e3::raw_conn(&format!("rep{}", i))).collect();
    for c in &conns {
        c.send(&rc::handshake("REP", None));
        e3::make_echo_peer(*c);
    }
    let viol = std::rc::Rc::new(std::cell::RefCell::new(Vec::<(String, String)>::new()));
    let obs = std::rc::Rc::new(std::cell::RefCell::new(Vec::<String>::new()));
    let (viol2, obs2) = (viol.clone(), obs.clone());
    let ops: Vec<bool> = ops.to_vec();
    let what = format!("REQ with {} echo peers{}, calls {:?}", peers, if dead_first { " (the first one's connection fails every write)" } else { "" }, ops_show(&ops));
    let conns2 = conns.clone();
    world::spawn_app("app", async move {
        let mut s = AnySocket::new(Ty::Req, None);
        for c in &conns2 {
            let _ = e3::attach_raw(s.backend(), *c).await;
        }
        if dead_first {
            world::set_wmode(conns2[0].from_lib, world::WMode::Fail(std::io::ErrorKind::BrokenPipe));
        }
        // a send that fails on the dead connection is allowed once; it must leave the socket idle
        let mut dead_observed = !dead_first;
        // reference machine
        let mut awaiting: Option<Vec<Vec<u8>>> = None;
        let mut sent_ok = 0usize;
        let mut last_target: Option<usize> = None;
        let mut refused_since_last_accepted = 0usize;
        for (i, op) in ops.iter().enumerate() {
            let taps_before: Vec<usize> = conns2.iter().map(|c| world::tap_len(c.from_lib)).collect();
            let grew = |before: &Vec<usize>| -> Vec<usize> { conns2.iter().zip(before).map(|(c, b)| world::tap_len(c.from_lib) - b).collect() };
            if *op {
                let m = vec![format!("q{}", i).into_bytes(), vec![], b"2nd".to_vec()];
                let r = s.send(msg(&m)).await;
                obs2.borrow_mut().push(format!("send#{} -> {}", i, e3::ok_or_err(&r)));
                let must_fail = awaiting.is_some() || conns2.is_empty();
                match (&r, must_fail) {
                    (Ok(()), true) => viol2.borrow_mut().push((
                        if awaiting.is_some() { "req/out-of-turn-send-accepted" } else { "req/send-without-peers-accepted" }.into(),
                        format!("call #{} send succeeded although {}", i, if awaiting.is_some() { "a request is outstanding" } else { "no peer is connected" }),
                    )),
                    (Err(e), false) if !dead_observed && !matches!(e, ZmqError::ReturnToSender { .. }) => {
                        // the write to the dead connection failed: that is how the socket notices; state stays idle
                        dead_observed = true;
                    }
                    (Err(e), false) => viol2.borrow_mut().push((
                        if dead_first { "req/in-turn-send-refused-after-failed-send" } else { "req/in-turn-send-refused" }.into(),
                        format!("call #{} send failed in the idle state with a healthy peer connected: {}", i, e3::err_class(e)),
                    )),
                    (Err(ZmqError::ReturnToSender { message, .. }), true) => {
                        refused_since_last_accepted += 1;
                        if frames_of(message) != m {
                            viol2.borrow_mut().push(("req/returned-message-not-intact".into(), format!("call #{}: message handed back as {} instead of {}", i, rc::show_frames(&frames_of(message)), rc::show_frames(&m))));
                        }
                        if grew(&taps_before).iter().any(|g| *g != 0) {
                            viol2.borrow_mut().push(("req/failed-send-wrote-bytes".into(), format!("call #{}: refused send put bytes on the wire", i)));
                        }
                    }
                    (Err(e), true) => viol2.borrow_mut().push(("req/refusal-does-not-return-message".into(), format!("call #{}: out-of-turn send failed with {} which does not hand the message back", i, e3::err_class(e)))),
                    (Ok(()), false) => {
                        let g = grew(&taps_before);
                        if g.iter().filter(|x| **x > 0).count() != 1 {
                            viol2.borrow_mut().push(("req/send-not-on-exactly-one-peer".into(), format!("call #{}: wire growth per peer {:?}", i, g)));
                        }
                        // "an out-of-turn call ... leaves the state unchanged": with a stable set of peers the accepted
                        // requests take turns strictly, whatever refused calls were made in between
                        if let Some(to) = g.iter().position(|x| *x > 0) {
                            if !dead_first {
                                if let Some(prev) = last_target {
                                    if refused_since_last_accepted > 0 && to != (prev + 1) % conns2.len() {
                                        viol2.borrow_mut().push(("req/refused-call-changed-the-rotation".into(), format!("call #{}: the previous accepted request went to peer {}, then {} out-of-turn call(s) were refused, and this request went to peer {} instead of peer {}", i, prev, refused_since_last_accepted, to, (prev + 1) % conns2.len())));
                                    }
                                }
                            }
                            last_target = Some(to);
                        }
                        refused_since_last_accepted = 0;
                        awaiting = Some(m);
                        sent_ok += 1;
                    }
                }
            } else {
                let r = world::until_idle(s.recv()).await;
                let rs = r.as_ref().map(e3::show_result).unwrap_or_else(|| "pending".into());
                obs2.borrow_mut().push(format!("recv#{} -> {}", i, rs));
                if grew(&taps_before).iter().any(|g| *g != 0) {
                    viol2.borrow_mut().push(("req/recv-wrote-bytes".into(), format!("call #{}: recv put bytes on the wire", i)));
                }
                match (&awaiting, &r) {
                    (None, Some(Ok(_))) | (None, None) => viol2.borrow_mut().push(("req/out-of-turn-recv-accepted".into(), format!("call #{} recv without an outstanding request returned {}", i, rs))),
                    (None, Some(Err(_))) => {}
                    (Some(q), Some(Ok(m))) => {
                        if frames_of(m) != *q {
                            viol2.borrow_mut().push(("req/reply-mismatch".into(), format!("call #{}: echo of {} came back as {}", i, rc::show_frames(q), rs)));
                        }
                        awaiting = None;
                    }
                    (Some(_), other) => {
                        viol2.borrow_mut().push(("req/in-turn-recv-failed".into(), format!("call #{} recv with an outstanding request and an echoing peer returned {:?}", i, other.as_ref().map(|_| rs.clone()))));
                        return;
                    }
                }
            }
        }
        let _ = sent_ok;
        world::wait_cond("never").await;
        drop(s);
    });
    finish_seq(viol, obs, what)
}

fn ops_show(ops: &[bool]) -> String {
    ops.iter().map(|o| if *o { 's' } else { 'r' }).collect()
}

/// (a) one call sequence on a REP with `peers` peers that each have queued 3 requests
/// `junk`: one more peer has queued three ill-formed requests (a single frame without delimiter, an envelope with
/// nothing after its delimiter, a delimiter alone): a recv that fails on one of them must leave the lock-step
/// state exactly as it was.
/// routing frames in front of the delimiter of peer p's requests
fn hops(p: usize) -> Vec<Vec<u8>> {
    (0..p % 3).map(|h| format!("hop{}-{}", p, h).into_bytes()).collect()
}

fn rep_sequence(ops: &[bool], peers: usize, junk: bool) -> Verdict {
    world::reset(world::WorldCfg { nested_env: false, yields: false, select: false, policy: 0, coop: false });
    let conns: Vec<e3::RawConn> = (0..peers + junk as usize).map(|i| e3::raw_conn(&format!("req{}", i))).collect();
    for (p, c) in conns.iter().enumerate() {
        c.send(&rc::handshake("DEALER", Some(format!("C{}", p).as_bytes())));
        if junk && p == peers {
            c.send(&rc::encode_message(&[b"junk".to_vec()]));
            c.send(&rc::encode_message(&[b"hop".to_vec(), vec![]]));
            c.send(&rc::encode_message(&[vec![]]));
            continue;
        }
        for j in 0..3 {
            // peer p's requests come through p % 3 intermediaries (peer 0: a plain REQ client; peer 1: one routing frame
            // in front of the delimiter; peer 2: two), so that one REP socket serves both kinds of client
            let mut req = hops(p);
            req.push(vec![]);
            req.push(format!("c{}q{}", p, j).into_bytes());
            c.send(&rc::encode_message(&req));
        }
    }
    let viol = std::rc::Rc::new(std::cell::RefCell::new(Vec::<(String, String)>::new()));
    let obs = std::rc::Rc::new(std::cell::RefCell::new(Vec::<String>::new()));
    let (viol2, obs2) = (viol.clone(), obs.clone());
    let ops_v: Vec<bool> = ops.to_vec();
    let conns2 = conns.clone();
    world::spawn_app("app", async move {
        let mut s = AnySocket::new(Ty::Rep, None);
        for c in &conns2 {
            let _ = e3::attach_raw(s.backend(), *c).await;
        }
        world::idle().await;
        let mut current: Option<usize> = None;
        let mut next_req: Vec<usize> = vec![0; conns2.len()];
        for (i, op) in ops_v.iter().enumerate() {
            let taps_before: Vec<usize> = conns2.iter().map(|c| world::tap_len(c.from_lib)).collect();
            let grew = || -> Vec<usize> { conns2.iter().zip(&taps_before).map(|(c, b)| world::tap_len(c.from_lib) - b).collect() };
            if *op {
                let m = vec![format!("a{}", i).into_bytes(), b"x".to_vec()];
                let r = s.send(msg(&m)).await;
                obs2.borrow_mut().push(format!("send#{} -> {}", i, e3::ok_or_err(&r)));
                match (current, &r) {
                    (None, Ok(())) => viol2.borrow_mut().push(("rep/reply-without-request-accepted".into(), format!("call #{}: send succeeded although no request is pending a reply", i))),
                    (None, Err(ZmqError::ReturnToSender { message, .. })) => {
                        if frames_of(message) != m {
                            viol2.borrow_mut().push(("rep/returned-message-not-intact".into(), format!("call #{}: message handed back as {}", i, rc::show_frames(&frames_of(message)))));
                        }
                        if grew().iter().any(|g| *g != 0) {
                            viol2.borrow_mut().push(("rep/failed-send-wrote-bytes".into(), format!("call #{}: refused reply put bytes on the wire", i)));
                        }
                    }
                    (None, Err(e)) => viol2.borrow_mut().push(("rep/refusal-does-not-return-message".into(), format!("call #{}: {}", i, e3::err_class(e)))),
                    (Some(p), Ok(())) => {
                        let g = grew();
                        let mut reply = hops(p);
                        reply.extend([vec![], m[0].clone(), m[1].clone()]);
                        let want_bytes = rc::encode_message(&reply);
                        let want = want_bytes.len();
                        for (q, gq) in g.iter().enumerate() {
                            if (q == p && *gq != want) || (q != p && *gq != 0) {
                                viol2.borrow_mut().push(("rep/reply-to-wrong-connection".into(), format!("call #{}: reply to the request of peer {} changed the wires by {:?} bytes (expected {} on peer {} only)", i, p, g, want, p)));
                                break;
                            }
                        }
                        let wrote = world::tap(conns2[p].from_lib)[taps_before[p]..].to_vec();
                        if g[p] == want && wrote != want_bytes {
                            viol2.borrow_mut().push(("rep/reply-not-the-one-for-this-request".into(), format!("call #{}: the reply to the request of peer {} went out as {:?}, expected {}", i, p, rc::decode_stream(&wrote, false).messages().iter().map(|m| rc::show_frames(m)).collect::<Vec<_>>(), rc::show_frames(&reply))));
                        }
                        current = None;
                    }
                    (Some(_), Err(e)) => viol2.borrow_mut().push(("rep/in-turn-reply-refused".into(), format!("call #{}: {}", i, e3::err_class(e)))),
                }
            } else {
                let r = world::until_idle(s.recv()).await;
                let rs = r.as_ref().map(e3::show_result).unwrap_or_else(|| "pending".into());
                obs2.borrow_mut().push(format!("recv#{} -> {}", i, rs));
                match r {
                    Some(Ok(m)) => {
                        let f = frames_of(&m);
                        let txt = String::from_utf8_lossy(&f[0]).to_string();
                        let p = txt.as_bytes().get(1).map(|b| (b - b'0') as usize).unwrap_or(99);
                        if f.len() != 1 || p >= conns2.len() - junk as usize || txt != format!("c{}q{}", p, next_req[p]) {
                            viol2.borrow_mut().push(("rep/request-mismatch".into(), format!("call #{}: recv returned {} (next expected per peer {:?})", i, rs, next_req)));
                            return;
                        }
                        next_req[p] += 1;
                        current = Some(p);
                    }
                    // an ill-formed request is consumed as one error; the lock-step state stays as it was
                    Some(Err(_)) if junk => {}
                    Some(Err(e)) => viol2.borrow_mut().push(("rep/recv-failed".into(), format!("call #{}: recv with requests queued failed: {}", i, e3::err_class(&e)))),
                    None => {
                        if next_req.iter().sum::<usize>() < 3 * (conns2.len() - junk as usize) {
                            viol2.borrow_mut().push(("rep/recv-pending-with-requests-queued".into(), format!("call #{}: recv did not complete although requests are queued", i)));
                        }
                        return;
                    }
                }
            }
        }
        world::wait_cond("never").await;
        drop(s);
    });
    finish_seq(viol, obs, format!("REP with {} peers{}, calls {:?}", peers, if junk { " and one peer that queued three ill-formed requests" } else { "" }, ops_show(ops)))
}

fn finish_seq(viol: std::rc::Rc<std::cell::RefCell<Vec<(String, String)>>>, obs: std::rc::Rc<std::cell::RefCell<Vec<String>>>, what: String) -> Verdict {
    let end = world::run(e3::HORIZON);
    let mut v = Verdict::default();
    v.truncated = end != world::RunEnd::Quiescent;
    for p in world::panics() {
        v.violate("panic", format!("{}: {}", what, p));
    }
    for (c, m) in viol.borrow().iter() {
        v.violate(c.clone(), format!("{}: {}", what, m));
    }
    let o = obs.borrow().clone();
    for l in &o {
        world::log(l.clone());
    }
    v.outcome_hash = rc::fnv(o.join("|").as_bytes());
    e3::finish(v)
}

/// (b) k real REQ clients against one real REP, `rounds` requests each
fn clients_scenario(k: usize, rounds: usize, policy: u8) -> Verdict {
    world::reset(world::WorldCfg { nested_env: true, yields: true, select: false, policy, coop: false });
    let viol = std::rc::Rc::new(std::cell::RefCell::new(Vec::<(String, String)>::new()));
    let obs = std::rc::Rc::new(std::cell::RefCell::new(Vec::<String>::new()));
    let rep = AnySocket::new(Ty::Rep, None);
    let rep_be = rep.backend();
    let mut server_ends = Vec::new();
    for c in 0..k {
        let (a, b) = e3::lib_conn(&format!("c{}", c));
        server_ends.push((c, b));
        let (viol2, obs2) = (viol.clone(), obs.clone());
        world::spawn_app(&format!("client{}", c), async move {
            let mut s = AnySocket::new(Ty::Req, None);
            let (r, w) = a.halves();
            let at = zeromq::__verif::attach(s.backend(), r, w).await;
            if at.is_err() {
                viol2.borrow_mut().push(("clients/attach-failed".into(), format!("client {} attach failed", c)));
                return;
            }
            for j in 0..rounds {
                // every other request ends with an empty frame
                let q = if j % 2 == 1 { vec![format!("c{}r{}", c, j).into_bytes(), vec![]] } else { vec![format!("c{}r{}", c, j).into_bytes(), b"body".to_vec()] };
                let r = s.send(msg(&q)).await;
                if let Err(e) = &r {
                    viol2.borrow_mut().push(("clients/send-failed".into(), format!("client {} request {}: {}", c, j, e3::err_class(e))));
                    return;
                }
                let r = world::until_idle(s.recv()).await;
                let rs = r.as_ref().map(e3::show_result).unwrap_or_else(|| "pending".into());
                obs2.borrow_mut().push(format!("client{} recv#{} -> {}", c, j, rs));
                world::log(format!("client{} recv#{} -> {}", c, j, rs));
                let mut want = vec![b"re".to_vec()];
                want.extend(q.clone());
                if rs != format!("Ok{}", rc::show_frames(&want)) {
                    let class = if rs.starts_with("Ok") { "clients/foreign-or-wrong-reply" } else if rs == "pending" { "clients/reply-never-arrived" } else { "clients/recv-error" };
                    viol2.borrow_mut().push((class.into(), format!("client {} round {}: expected the echo of its own request {}, got {}", c, j, rc::show_frames(&want), rs)));
                    return;
                }
            }
            world::set_cond(&format!("client{}-done", c));
            world::wait_cond("never").await;
            drop(s);
        });
    }
    for (c, b) in server_ends {
        let be = rep_be.clone();
        world::spawn_app(&format!("accept{}", c), async move {
            let (r, w) = b.halves();
            let _ = zeromq::__verif::attach(be, r, w).await;
        });
    }
    let viol3 = viol.clone();
    world::spawn_app("server", async move {
        let mut rep = rep;
        for _ in 0..(k * rounds) {
            let r = world::until_idle(rep.recv()).await;
            let Some(r) = r else { break };
            match r {
                Ok(m) => {
                    let mut f = vec![b"re".to_vec()];
                    f.extend(frames_of(&m));
                    if let Err(e) = rep.send(msg(&f)).await {
                        viol3.borrow_mut().push(("clients/server-send-failed".into(), e3::err_class(&e)));
                    }
                }
                Err(e) => {
                    viol3.borrow_mut().push(("clients/server-recv-error".into(), e3::err_class(&e)));
                }
            }
        }
        world::wait_cond("never").await;
        drop(rep);
    });
    let end = world::run(e3::HORIZON * (1 + k as u64 / 2));
    let mut v = Verdict::default();
    v.truncated = end != world::RunEnd::Quiescent;
    let what = format!("{} REQ clients x {} rounds against one REP (default policy {})", k, rounds, policy);
    for p in world::panics() {
        v.violate("panic", format!("{}: {}", what, p));
    }
    if v.truncated {
        v.violate("spin", format!("{}: no quiescence", what));
    }
    for (c, m) in viol.borrow().iter() {
        v.violate(c.clone(), format!("{}: {}", what, m));
    }
    if viol.borrow().is_empty() && !v.truncated && world::panics().is_empty() {
        for c in 0..k {
            if !world::cond(&format!("client{}-done", c)) {
                v.violate("clients/not-all-served", format!("{}: client {} did not complete its rounds", what, c));
            }
        }
    }
    let mut o = obs.borrow().clone();
    o.sort();
    v.outcome_hash = rc::fnv(o.join("|").as_bytes()) ^ rc::fnv(e3::canon_log().join("|").as_bytes());
    e3::finish(v)
}

/// Two live connections announce the same identity (a client restarted while the REP still holds its
/// idle old connection): the reply to a request must go to the connection the request came from.
fn rep_same_identity_scenario(first_exchanges: usize, policy: u8) -> Verdict {
    world::reset(world::WorldCfg { nested_env: true, yields: true, select: false, policy, coop: false });
    let c1 = e3::raw_conn("old");
    let c2 = e3::raw_conn("new");
    c1.send(&rc::handshake("REQ", Some(b"worker-7")));
    for j in 0..first_exchanges {
        c1.send(&rc::encode_message(&[vec![], format!("old-q{}", j).into_bytes()]));
    }
    // the second connection starts its handshake only after the first one is registered and served
    // (otherwise "which one is the newer connection" is up to the scheduler)
    c2.gate("old-attached");
    c2.gate("old-served");
    c2.send(&rc::handshake("REQ", Some(b"worker-7")));
    c2.send(&rc::encode_message(&[vec![], b"new-q0".to_vec()]));
    let sock = AnySocket::new(Ty::Rep, None);
    let (be, be2) = (sock.backend(), sock.backend());
    world::spawn_app("attach-old", async move {
        let _ = e3::attach_raw(be, c1).await;
        world::set_cond("old-attached");
    });
    world::spawn_app("attach-new", async move {
        let _ = e3::attach_raw(be2, c2).await;
        world::set_cond("new-attached");
    });
    let viol = std::rc::Rc::new(std::cell::RefCell::new(Vec::<(String, String)>::new()));
    let viol2 = viol.clone();
    world::spawn_app("server", async move {
        let mut sock = sock;
        for j in 0..first_exchanges {
            let r = world::until_idle(sock.recv()).await;
            if !matches!(&r, Some(Ok(m)) if frames_of(m) == vec![format!("old-q{}", j).into_bytes()]) {
                viol2.borrow_mut().push(("same-identity/first-client".into(), format!("request {} of the first client came out as {:?}", j, r.as_ref().map(e3::show_result))));
                return;
            }
            let _ = sock.send(msg(&[format!("old-a{}", j).into_bytes()])).await;
        }
        world::set_cond("old-served");
        world::wait_cond("new-attached").await;
        let (b1, b2) = (c1.tap_messages().len(), c2.tap_messages().len());
        let r = world::until_idle(sock.recv()).await;
        if !matches!(&r, Some(Ok(m)) if frames_of(m) == vec![b"new-q0".to_vec()]) {
            viol2.borrow_mut().push(("same-identity/request-of-second-connection-not-delivered".into(), format!("recv returned {:?}", r.as_ref().map(e3::show_result))));
            return;
        }
        let s = sock.send(msg(&[b"new-a0".to_vec()])).await;
        let (t1, t2) = (c1.tap_messages(), c2.tap_messages());
        let on_new = t2.len() == b2 + 1 && t2.last() == Some(&vec![vec![], b"new-a0".to_vec()]);
        if s.is_err() || !on_new || t1.len() != b1 {
            viol2.borrow_mut().push((
                "same-identity/reply-not-on-the-requesting-connection".into(),
                format!("two live connections announce identity worker-7; the request came in on the second one; send -> {}; the reply is on the old connection: {}, on the new connection: {}", e3::ok_or_err(&s), t1.len() != b1, on_new),
            ));
        }
        world::wait_cond("never").await;
        drop(sock);
    });
    let end = world::run(e3::HORIZON);
    let mut v = Verdict::default();
    v.truncated = end != world::RunEnd::Quiescent;
    let what = format!("REP with two connections announcing the same identity ({} exchanges on the first before the second connects, policy {})", first_exchanges, policy);
    for p in world::panics() {
        v.violate("panic", format!("{}: {}", what, p));
    }
    for (c, m) in viol.borrow().iter() {
        v.violate(c.clone(), format!("{}: {}", what, m));
    }
    v.outcome_hash = rc::fnv(e3::canon_log().join("|").as_bytes());
    e3::finish(v)
}

fn build(p: &Value) -> Option<zvcore::explore::Scenario> {
    let ops = |v: &Value| -> Vec<bool> { v.as_str().unwrap_or("").chars().map(|c| c == 's').collect() };
    match p["case"].as_str()? {
        "req-seq" => {
            let o = ops(&p["ops"]);
            let n = p["peers"].as_u64()? as usize;
            let d = p["dead_first"].as_bool().unwrap_or(false);
            Some(std::sync::Arc::new(move || req_sequence(&o, n, d)))
        }
        "rep-seq" => {
            let o = ops(&p["ops"]);
            let n = p["peers"].as_u64()? as usize;
            let j = p["junk"].as_bool().unwrap_or(false);
            Some(std::sync::Arc::new(move || rep_sequence(&o, n, j)))
        }
        "rep-same-identity" => {
            let (n, pol) = (p["first_exchanges"].as_u64()? as usize, p["policy"].as_u64()? as u8);
            Some(std::sync::Arc::new(move || rep_same_identity_scenario(n, pol)))
        }
        "clients" => {
            let k = p["k"].as_u64()? as usize;
            let r = p["rounds"].as_u64()? as usize;
            let pol = p["policy"].as_u64().unwrap_or(0) as u8;
            Some(std::sync::Arc::new(move || clients_scenario(k, r, pol)))
        }
        _ => None,
    }
}

pub fn run(tier: Tier, replay: Option<String>) -> i32 {
    world::install_panic_hook();
    let mut ck = Check::new("C08", tier, "model_checking");
    if let Some(path) = replay {
        let v: Value = serde_json::from_str(&std::fs::read_to_string(&path).expect("read")).expect("json");
        return crate::replay::replay_e3(&v, build);
    }
    let mut jobs = Vec::new();
    let mut n_seq = 0;
    for len in 1..=6usize {
        for bits in 0..(1u32 << len) {
            let ops: Vec<bool> = (0..len).map(|i| bits >> i & 1 == 1).collect();
            for peers in 0..=2usize {
                for dead_first in [false, true] {
                    if dead_first && peers != 2 {
                        continue;
                    }
                    let p = json!({"case":"req-seq","ops":ops_show(&ops),"peers":peers,"dead_first":dead_first});
                    let o = ops.clone();
                    jobs.push(e3::job(format!("C08/req-seq/{}/{}/{}", ops_show(&ops), peers, dead_first), p, 0, 4, move || req_sequence(&o, peers, dead_first)));
                    n_seq += 1;
                }
            }
            for peers in 0..=2usize {
                for junk in [false, true] {
                    if peers == 0 && !junk {
                        continue;
                    }
                    let p = json!({"case":"rep-seq","ops":ops_show(&ops),"peers":peers,"junk":junk});
                    let o = ops.clone();
                    jobs.push(e3::job(format!("C08/rep-seq/{}/{}/{}", ops_show(&ops), peers, junk), p, 0, 4, move || rep_sequence(&o, peers, junk)));
                    n_seq += 1;
                }
            }
        }
    }
    let (k, rounds, bound, cap) = tier.pick((2, 2, 3, 1_000_000u64), (3, 2, 3, 6_000_000u64));
    for policy in 0..3u8 {
        jobs.push(e3::job(format!("C08/clients/{}x{}/policy{}", k, rounds, policy), json!({"case":"clients","k":k,"rounds":rounds,"policy":policy}), bound, cap, move || clients_scenario(k, rounds, policy)));
        if tier == Tier::Thorough {
            jobs.push(e3::job(format!("C08/clients/2x3/policy{}", policy), json!({"case":"clients","k":2,"rounds":3,"policy":policy}), 3, cap, move || clients_scenario(2, 3, policy)));
        }
    }
    // scale family (not exhaustive in k): many concurrent clients under the default schedules
    for &kk in tier.pick(&[9usize, 17, 33, 70][..], &[9usize, 17, 33, 70, 140, 270][..]) {
        for policy in 0..3u8 {
            jobs.push(e3::job(format!("C08/clients-scale/{}x3/policy{}", kk, policy), json!({"case":"clients","k":kk,"rounds":3,"policy":policy}), 0, 1000, move || clients_scenario(kk, 3, policy)));
        }
    }
    for first_exchanges in 0..=1usize {
        for policy in 0..3u8 {
            jobs.push(e3::job(format!("C08/rep-same-identity/{}/policy{}", first_exchanges, policy), json!({"case":"rep-same-identity","first_exchanges":first_exchanges,"policy":policy}), tier.pick(2, 3), 300_000, move || rep_same_identity_scenario(first_exchanges, policy)));
        }
    }
    // the same scenarios with peers that announce an Identity of length 0 / no Identity (every 7th job): the oracle
    // never looks at the peers' identities, and every connection must still be kept apart
    let anon: Vec<zvcore::explore::Job> = jobs.iter().filter(|j| !j.name.contains("same-identity")).step_by(7).flat_map(|j| [e3::anon_copy(j, 1), e3::anon_copy(j, 2)]).collect();
    ck.cov("scenarios_repeated_with_anonymous_peers", anon.len() as u64);
    let mut jobs = jobs;
    jobs.extend(anon);
    e3::run_jobs_into(&mut ck, jobs, false);
    let ex = ck.coverage.get("e3_executions").and_then(|v| v.as_u64()).unwrap_or(0);
    ck.cov("states", n_seq as u64 + ck.coverage.get("e3_distinct_outcomes").and_then(|v| v.as_u64()).unwrap_or(0));
    ck.cov("transitions", ex);
    ck.cov("traces_validated_against_impl", ex);
    ck.cov("call_sequences", n_seq as u64);
    ck.cov("exhaustive", ck.coverage.get("e3_scenarios_capped").and_then(|v| v.as_u64()) == Some(0));
    ck.cov("explanation", format!("(a) every call sequence over {{send, recv}} of length <= 6 on a real REQ with 0/1/2 echo peers (also with the first of two peers' connections failing every write: the failed send must leave the socket idle and the next send go to the healthy peer) and on a real REP with requests queued by 1/2 peers ({} sequences), each step compared with a 2-state reference machine: out-of-turn call fails, ReturnToSender carries the argument frame for frame, the wires are untouched by a failed call, later behaviour shows the state unchanged, a reply lands on exactly the requester's connection; (b) {} real REQ sockets x {} rounds against one real REP over in-memory pipes under every schedule with <= {} deviations: each client receives exactly the echoes of its own requests, in order. (c) two live connections announcing the same identity to one REP (a restarted client): the reply must land on the connection the request came from.", n_seq, k, rounds, bound));
    ck.assume("echo peers answer instantly (harness state machines); REP.recv in the have-request state is allowed by the statement (only replies are gated)");
    ck.conclude()
}
