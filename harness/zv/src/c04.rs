//! C04 — the handshake admits exactly the well-formed, RFC-compatible peers (E3).
//!
//! Complete product of handshake configurations, each run as a real handshake
//! over in-memory pipes, against a reference admission predicate; admitted
//! peers are probed behaviourally for "registered exactly once".

use crate::e3::{self, AnySocket, Ty, ALL_TYPES};
use serde_json::{json, Value};
use zeromq::SocketType;
use zvcore::evidence::{Check, Tier};
use zvcore::explore::Verdict;
use zvcore::refcodec as rc;
use zvcore::world;

const TYPE_NAMES: [&str; 12] = [
    "PAIR", "PUB", "SUB", "REQ", "REP", "DEALER", "ROUTER", "PULL", "PUSH", "XPUB", "XSUB", "STREAM",
];

/// RFC 23 / 28 / 29 / 30 socket compatibility (STREAM speaks raw TCP, not ZMTP: compatible with nothing).
fn rfc_compatible(a: &str, b: &str) -> bool {
    matches!(
        (a, b),
        ("PAIR", "PAIR")
            | ("PUB", "SUB")
            | ("PUB", "XSUB")
            | ("SUB", "PUB")
            | ("SUB", "XPUB")
            | ("XPUB", "SUB")
            | ("XPUB", "XSUB")
            | ("XSUB", "PUB")
            | ("XSUB", "XPUB")
            | ("REQ", "REP")
            | ("REQ", "ROUTER")
            | ("REP", "REQ")
            | ("REP", "DEALER")
            | ("DEALER", "REP")
            | ("DEALER", "DEALER")
            | ("DEALER", "ROUTER")
            | ("ROUTER", "REQ")
            | ("ROUTER", "DEALER")
            | ("ROUTER", "ROUTER")
            | ("PULL", "PUSH")
            | ("PUSH", "PULL")
    )
}

#[derive(Clone, Debug)]
struct Cfg {
    local: Ty,
    /// index into PEER_TYPES
    peer_type: usize,
    version: (u8, u8),
    mech: usize,
    sig: u8,
    identity: usize,
    first: u8,
    /// run the behavioural registration probe (only meaningful when admitted)
    probe: bool,
    /// Some(k): the peer's bytes reach the socket in two pieces, the first of k bytes (0 = one piece)
    cut: usize,
}

const PEER_TYPES: [Option<&str>; 15] = [
    Some("PAIR"),
    Some("PUB"),
    Some("SUB"),
    Some("REQ"),
    Some("REP"),
    Some("DEALER"),
    Some("ROUTER"),
    Some("PULL"),
    Some("PUSH"),
    Some("XPUB"),
    Some("XSUB"),
    Some("STREAM"),
    Some("FOO"),
    Some("req"),
    None,
];
const VERSIONS: [(u8, u8); 5] = [(1, 0), (2, 1), (3, 0), (3, 1), (4, 0)];
const MECHS: [&[u8]; 5] = [b"NULL", b"PLAIN", b"CURVE", b"FOO", b""];
const ID_LENS: [Option<usize>; 5] = [None, Some(0), Some(1), Some(255), Some(256)];
/// identity option by index: the five of the complete product, then every other length 2..=254 and 257..=300
fn id_len(idx: usize) -> Option<usize> {
    if idx < ID_LENS.len() {
        ID_LENS[idx]
    } else if idx <= 257 {
        Some(idx - 3)
    } else {
        Some(idx - 1)
    }
}

impl Cfg {
    fn to_json(&self) -> Value {
        json!({"local": self.local.name(), "peer_type": self.peer_type, "version": [self.version.0, self.version.1], "mech": self.mech, "sig": self.sig, "identity": self.identity, "first": self.first, "probe": self.probe, "cut": self.cut})
    }
    fn from_json(v: &Value) -> Option<Cfg> {
        Some(Cfg {
            local: Ty::from_name(v["local"].as_str()?)?,
            peer_type: v["peer_type"].as_u64()? as usize,
            version: (v["version"][0].as_u64()? as u8, v["version"][1].as_u64()? as u8),
            mech: v["mech"].as_u64()? as usize,
            sig: v["sig"].as_u64()? as u8,
            identity: v["identity"].as_u64()? as usize,
            first: v["first"].as_u64()? as u8,
            probe: v["probe"].as_bool()?,
            cut: v["cut"].as_u64().unwrap_or(0) as usize,
        })
    }
    fn describe(&self) -> String {
        format!(
            "local {} <- peer Socket-Type {:?}, version {}.{}, mechanism {:?}, signature {}, identity {:?}, first item {}",
            self.local.name(),
            PEER_TYPES[self.peer_type],
            self.version.0,
            self.version.1,
            String::from_utf8_lossy(MECHS[self.mech]),
            ["ok", "byte0!=FF", "byte9!=7F"][self.sig as usize],
            id_len(self.identity),
            ["READY", "other command", "message", "PING command, then READY", "SUBSCRIBE command, then READY"][self.first as usize]
        ) + &(if self.cut > 0 { format!(", delivered in two pieces (first piece {} bytes)", self.cut) } else { String::new() })
    }
    fn identity_bytes(&self) -> Option<Vec<u8>> {
        id_len(self.identity).map(|l| (0..l).map(|i| b'A' + (i % 23) as u8).collect())
    }
    fn should_admit(&self) -> bool {
        self.sig == 0
            && self.version.0 >= 3
            && self.mech < 3
            && self.first == 0
            && PEER_TYPES[self.peer_type]
                .map(|t| TYPE_NAMES.contains(&t) && rfc_compatible(self.local.name(), t))
                .unwrap_or(false)
            && id_len(self.identity).map(|l| l <= 255).unwrap_or(true)
    }
    fn peer_bytes(&self) -> Vec<u8> {
        let mut g = rc::encode_greeting(self.version, MECHS[self.mech], false);
        match self.sig {
            1 => g[0] = 0xfe,
            2 => g[9] = 0x7e,
            _ => {}
        }
        let mut v = g;
        let ready = || {
            let mut props: Vec<(Vec<u8>, Vec<u8>)> = Vec::new();
            if let Some(t) = PEER_TYPES[self.peer_type] {
                props.push((b"Socket-Type".to_vec(), t.as_bytes().to_vec()));
            }
            if let Some(id) = self.identity_bytes() {
                props.push((b"Identity".to_vec(), id));
            }
            rc::encode_command(b"READY", &props)
        };
        match self.first {
            0 => v.extend(ready()),
            1 => v.extend(rc::encode_command(b"ERROR", &[])),
            2 => v.extend(rc::encode_message(&[b"x".to_vec()])),
            // another well-formed command FIRST, and the READY this configuration would otherwise send right behind
            // it (PING carries a 2-byte TTL in ZMTP 3.1; a property-less body is well-formed for the 3.0 command grammar)
            3 => {
                v.extend(rc::encode_command(b"PING", &[]));
                v.extend(ready());
            }
            _ => {
                v.extend(rc::encode_command(b"SUBSCRIBE", &[]));
                v.extend(ready());
            }
        }
        v
    }
    /// the application message the peer sends right after its handshake bytes
    fn trailing(&self) -> Vec<Vec<u8>> {
        match self.local {
            Ty::Rep => vec![vec![], b"PROBE".to_vec()],
            Ty::Pub | Ty::XPub => vec![vec![1u8]],
            _ => vec![b"PROBE".to_vec()],
        }
    }
}

/// "An admitted peer is registered exactly once, under the identity it announced" - also when that identity is already
/// in the socket's table: a first connection announces an identity and is admitted; a second one announces the same
/// identity while the first is still open (`first_open`) or after it has closed without the socket having noticed.
/// Both must be admitted, and the second must be REGISTERED: the socket type's own traffic works with it.
fn twin_scenario(local: Ty, id_len: usize, first_open: bool) -> Verdict {
    world::reset(world::WorldCfg { nested_env: false, yields: false, select: false, policy: 0, coop: false });
    let id: Vec<u8> = (0..id_len).map(|i| b'a' + (i % 26) as u8).collect();
    let v1 = e3::raw_conn("V1");
    let v2 = e3::raw_conn("V2");
    for c in [v1, v2] {
        c.send(&rc::handshake(local.peer_type(), Some(&id)));
    }
    // what the second connection says once it is in
    match local {
        Ty::Pub | Ty::XPub => v2.send(&rc::encode_message(&[vec![1u8]])),
        Ty::Pull | Ty::Dealer | Ty::Router | Ty::Sub => v2.send(&rc::encode_message(&[b"from-second".to_vec()])),
        Ty::Rep => v2.send(&rc::encode_message(&[vec![], b"from-second".to_vec()])),
        Ty::Req => e3::make_echo_peer(v2),
        Ty::Push => {}
    }
    if !first_open {
        v1.eof();
    }
    let obs = std::rc::Rc::new(std::cell::RefCell::new(Vec::<String>::new()));
    let obs2 = obs.clone();
    let id2 = id.clone();
    world::spawn_app("app", async move {
        let mut sock = AnySocket::new(local, None);
        for (name, c) in [("first", v1), ("second", v2)] {
            let r = e3::attach_raw(sock.backend(), c).await;
            obs2.borrow_mut().push(format!("attach({}) -> {}{}", name, e3::ok_or_err(&r), match &r { Ok(i) if i.to_vec() != id2 => " under another identity", _ => "" }));
        }
        let before = (world::tap_len(v1.from_lib), world::tap_len(v2.from_lib));
        match local {
            Ty::Router => {
                if let Some(r) = world::until_idle(sock.recv()).await {
                    obs2.borrow_mut().push(format!("recv -> {}", e3::show_result(&r)));
                }
                let s = sock.send(crate::e1::msg(&[id2.clone(), b"x".to_vec()])).await;
                obs2.borrow_mut().push(format!("send(to the identity) -> {}", e3::ok_or_err(&s)));
            }
            Ty::Push | Ty::Dealer => {
                if local == Ty::Dealer {
                    if let Some(r) = world::until_idle(sock.recv()).await {
                        obs2.borrow_mut().push(format!("recv -> {}", e3::show_result(&r)));
                    }
                }
                for i in 0..3 {
                    let s = sock.send(crate::e1::msg(&[format!("m{}", i).into_bytes()])).await;
                    obs2.borrow_mut().push(format!("send#{} -> {}", i, e3::ok_or_err(&s)));
                }
            }
            Ty::Req => {
                let s = sock.send(crate::e1::msg(&[b"q".to_vec()])).await;
                obs2.borrow_mut().push(format!("send -> {}", e3::ok_or_err(&s)));
                let r = world::until_idle(sock.recv()).await;
                obs2.borrow_mut().push(format!("recv -> {}", r.as_ref().map(e3::show_result).unwrap_or_else(|| "pending".into())));
            }
            Ty::Pub | Ty::XPub => {
                if local == Ty::XPub {
                    let _ = world::until_idle(sock.recv()).await;
                } else {
                    world::idle().await;
                }
                let s = sock.send(crate::e1::msg(&[b"news".to_vec()])).await;
                obs2.borrow_mut().push(format!("publish -> {}", e3::ok_or_err(&s)));
            }
            Ty::Rep => {
                let r = world::until_idle(sock.recv()).await;
                obs2.borrow_mut().push(format!("recv -> {}", r.as_ref().map(e3::show_result).unwrap_or_else(|| "pending".into())));
                let s = sock.send(crate::e1::msg(&[b"a".to_vec()])).await;
                obs2.borrow_mut().push(format!("reply -> {}", e3::ok_or_err(&s)));
            }
            Ty::Pull => {
                let r = world::until_idle(sock.recv()).await;
                obs2.borrow_mut().push(format!("recv -> {}", r.as_ref().map(e3::show_result).unwrap_or_else(|| "pending".into())));
            }
            Ty::Sub => {
                if let AnySocket::Sub(s) = &mut sock {
                    let r = s.subscribe("t").await;
                    obs2.borrow_mut().push(format!("subscribe -> {}", e3::ok_or_err(&r)));
                }
                let r = world::until_idle(sock.recv()).await;
                obs2.borrow_mut().push(format!("recv -> {}", r.as_ref().map(e3::show_result).unwrap_or_else(|| "pending".into())));
            }
        }
        world::idle().await;
        obs2.borrow_mut().push(format!("wires: first+{} second+{}", world::tap_len(v1.from_lib) - before.0, if world::tap_len(v2.from_lib) > before.1 { "some" } else { "0" }));
        world::set_cond("done");
        world::wait_cond("never").await;
        drop(sock);
    });
    let end = world::run(e3::HORIZON);
    let mut v = Verdict::default();
    v.truncated = end != world::RunEnd::Quiescent;
    let what = format!("local {}: a second connection announces the {}-byte identity of a first one that {}", local.name(), id_len, if first_open { "is still open" } else { "has closed without the socket having noticed" });
    for p in world::panics() {
        v.violate("panic", format!("{}: {}", what, p));
    }
    if v.truncated {
        v.violate("spin", format!("{}: no quiescence", what));
    }
    let o = obs.borrow().clone();
    if world::panics().is_empty() && !v.truncated {
        if !world::cond("done") {
            v.violate("twin/app-stuck", format!("{}: {:?}", what, o));
        } else {
            if o.iter().take(2).any(|l| !l.ends_with("-> Ok")) {
                v.violate("twin/not-admitted-under-its-identity", format!("{}: {:?}", what, &o[..2.min(o.len())]));
            }
            // the second connection is registered: what the socket sends reaches it / what it sent is received
            let sends_ok = o.iter().filter(|l| l.starts_with("send") || l.starts_with("publish") || l.starts_with("reply") || l.starts_with("subscribe")).all(|l| l.ends_with("-> Ok"));
            let wrote_to_second = o.last().map(|l| l.ends_with("second+some")).unwrap_or(false);
            let wrote_to_first = !o.last().map(|l| l.contains("first+0")).unwrap_or(true);
            let received_from_second = o.iter().any(|l| l.starts_with("recv -> Ok") && l.contains("66726f6d2d7365636f6e64")) || (local == Ty::Req && o.iter().any(|l| l.starts_with("recv -> Ok")));
            let sends = !matches!(local, Ty::Pull);
            let receives = matches!(local, Ty::Pull | Ty::Dealer | Ty::Router | Ty::Rep | Ty::Req | Ty::Sub);
            if (sends && (!sends_ok || !wrote_to_second)) || (receives && !received_from_second) || (sends && wrote_to_first && !first_open) {
                v.violate("twin/admitted-but-not-registered", format!("{}: both were admitted, but the socket's own traffic does not work with the second one: {:?}", what, o));
            }
        }
    }
    v.outcome_hash = rc::fnv(o.join("|").as_bytes());
    e3::finish(v)
}

/// "A rejected connection ... leaves the socket's peer set unchanged" - also when the rejected peer ANNOUNCES THE IDENTITY
/// OF A LIVE PEER: a compatible peer with identity I is admitted and works; a second connection sends a fully valid
/// greeting and READY with the same identity I but a Socket-Type that is not compatible (PAIR), or not a type at all;
/// it must be refused, and the first peer must go on working.
fn impostor_scenario(local: Ty, id_len: usize, bad_type: &'static str) -> Verdict {
    world::reset(world::WorldCfg { nested_env: false, yields: false, select: false, policy: 0, coop: false });
    let id: Vec<u8> = (0..id_len).map(|i| b'k' + (i % 13) as u8).collect();
    let v1 = e3::raw_conn("V1");
    let v2 = e3::raw_conn("V2");
    v1.send(&rc::handshake(local.peer_type(), Some(&id)));
    if matches!(local, Ty::Pub | Ty::XPub) {
        v1.send(&rc::encode_message(&[vec![1u8]]));
    }
    v1.gate("impostor-refused");
    match local {
        Ty::Pull | Ty::Dealer | Ty::Router | Ty::Sub => v1.send(&rc::encode_message(&[b"still-here".to_vec()])),
        Ty::Rep => v1.send(&rc::encode_message(&[vec![], b"still-here".to_vec()])),
        Ty::Req => e3::make_echo_peer(v1),
        _ => {}
    }
    v2.send(&rc::handshake(bad_type, Some(&id)));
    let obs = std::rc::Rc::new(std::cell::RefCell::new(Vec::<String>::new()));
    let obs2 = obs.clone();
    let id2 = id.clone();
    world::spawn_app("app", async move {
        let mut sock = AnySocket::new(local, None);
        let r = e3::attach_raw(sock.backend(), v1).await;
        obs2.borrow_mut().push(format!("attach(first) -> {}", e3::ok_or_err(&r)));
        if local == Ty::XPub {
            let _ = world::until_idle(sock.recv()).await;
        } else {
            world::idle().await;
        }
        let r = e3::attach_raw(sock.backend(), v2).await;
        obs2.borrow_mut().push(format!("attach(impostor) -> {}", if r.is_ok() { "Ok" } else { "Err" }));
        world::set_cond("impostor-refused");
        let before = (world::tap_len(v1.from_lib), world::tap_len(v2.from_lib));
        let mut ok = true;
        match local {
            Ty::Router => {
                let r = world::until_idle(sock.recv()).await;
                ok &= matches!(r, Some(Ok(_)));
                let s = sock.send(crate::e1::msg(&[id2.clone(), b"x".to_vec()])).await;
                obs2.borrow_mut().push(format!("send(to the identity) -> {}", e3::ok_or_err(&s)));
                ok &= s.is_ok();
            }
            Ty::Push | Ty::Dealer => {
                if local == Ty::Dealer {
                    let r = world::until_idle(sock.recv()).await;
                    ok &= matches!(r, Some(Ok(_)));
                }
                for i in 0..2 {
                    let s = sock.send(crate::e1::msg(&[format!("m{}", i).into_bytes()])).await;
                    obs2.borrow_mut().push(format!("send#{} -> {}", i, e3::ok_or_err(&s)));
                    ok &= s.is_ok();
                }
            }
            Ty::Req => {
                let s = sock.send(crate::e1::msg(&[b"q".to_vec()])).await;
                obs2.borrow_mut().push(format!("send -> {}", e3::ok_or_err(&s)));
                let r = world::until_idle(sock.recv()).await;
                ok &= s.is_ok() && matches!(r, Some(Ok(_)));
            }
            Ty::Pub | Ty::XPub => {
                let s = sock.send(crate::e1::msg(&[b"news".to_vec()])).await;
                obs2.borrow_mut().push(format!("publish -> {}", e3::ok_or_err(&s)));
                ok &= s.is_ok();
            }
            Ty::Rep => {
                let r = world::until_idle(sock.recv()).await;
                ok &= matches!(r, Some(Ok(_)));
                let s = sock.send(crate::e1::msg(&[b"a".to_vec()])).await;
                obs2.borrow_mut().push(format!("reply -> {}", e3::ok_or_err(&s)));
                ok &= s.is_ok();
            }
            Ty::Pull | Ty::Sub => {
                let r = world::until_idle(sock.recv()).await;
                obs2.borrow_mut().push(format!("recv -> {}", r.as_ref().map(e3::show_result).unwrap_or_else(|| "pending".into())));
                ok &= matches!(r, Some(Ok(_)));
            }
        }
        world::idle().await;
        let wrote_first = world::tap_len(v1.from_lib) > before.0;
        let wrote_impostor = world::tap_len(v2.from_lib) > before.1;
        let sends = !matches!(local, Ty::Pull | Ty::Sub);
        obs2.borrow_mut().push(format!("first peer still served: {}", ok && (!sends || wrote_first)));
        obs2.borrow_mut().push(format!("impostor written to afterwards: {}", wrote_impostor));
        world::set_cond("done");
        world::wait_cond("never").await;
        drop(sock);
    });
    let end = world::run(e3::HORIZON);
    let mut v = Verdict::default();
    v.truncated = end != world::RunEnd::Quiescent;
    let what = format!("local {}: with a peer of {}-byte identity connected and working, a second connection sends a valid greeting and a READY announcing THE SAME identity and Socket-Type {:?}", local.name(), id_len, bad_type);
    for p in world::panics() {
        v.violate("panic", format!("{}: {}", what, p));
    }
    if v.truncated {
        v.violate("spin", format!("{}: no quiescence", what));
    }
    let o = obs.borrow().clone();
    if world::panics().is_empty() && !v.truncated {
        if !world::cond("done") {
            v.violate("impostor/app-stuck", format!("{}: {:?}", what, o));
        } else {
            if !o.iter().any(|l| l == "attach(first) -> Ok") {
                v.violate("impostor/first-not-admitted", format!("{}: {:?}", what, o));
            }
            if !o.iter().any(|l| l == "attach(impostor) -> Err") {
                v.violate("admitted-but-must-reject/socket-type", format!("{}: {:?}", what, o));
            }
            if !o.iter().any(|l| l == "first peer still served: true") || !o.iter().any(|l| l == "impostor written to afterwards: false") {
                v.violate("impostor/refused-peer-changed-the-peer-set", format!("{}: the impostor was refused, but the established peer is no longer served (or the impostor is): {:?}", what, o));
            }
        }
    }
    v.outcome_hash = rc::fnv(o.join("|").as_bytes());
    e3::finish(v)
}

fn scenario(cfg: &Cfg) -> Verdict {
    world::reset(world::WorldCfg {
        nested_env: false,
        yields: false,
        select: false,
        policy: 0,
        coop: false,
    });
    let local = cfg.local;
    let victim = e3::raw_conn("V");
    let mut bytes = cfg.peer_bytes();
    bytes.extend(rc::encode_message(&cfg.trailing()));
    if cfg.cut > 0 && cfg.cut < bytes.len() {
        victim.send_cut(&bytes, &[cfg.cut]);
    } else {
        victim.send(&bytes);
    }
    let admit = cfg.should_admit();
    let probe = cfg.probe && admit;
    let healthy = e3::raw_conn("H");
    if probe {
        healthy.send(&rc::handshake(local.peer_type(), None));
        if matches!(local, Ty::Req) {
            e3::make_echo_peer(victim);
            e3::make_echo_peer(healthy);
        }
    }
    let announced = cfg.identity_bytes().filter(|i| !i.is_empty() && i.len() <= 255);
    let announced_none = announced.is_none();
    let obs = std::rc::Rc::new(std::cell::RefCell::new(Vec::<String>::new()));
    let viol = std::rc::Rc::new(std::cell::RefCell::new(Vec::<(String, String)>::new()));
    let (obs2, viol2) = (obs.clone(), viol.clone());
    let trailing = cfg.trailing();
    let vid_cell = std::rc::Rc::new(std::cell::RefCell::new(None::<Vec<u8>>));
    let vid_cell2 = vid_cell.clone();
    world::spawn_app("app", async move {
        let mut sock = AnySocket::new(local, None);
        let r = e3::attach_raw(sock.backend(), victim).await;
        obs2.borrow_mut().push(format!("attach -> {}", e3::ok_or_err(&r)));
        world::log(format!("attach -> {}", e3::ok_or_err(&r)));
        let vid: Option<Vec<u8>> = r.as_ref().ok().map(|i| i.to_vec());
        *vid_cell2.borrow_mut() = vid.clone();
        if let Some(id) = &vid {
            match &announced {
                Some(a) if a != id => viol2.borrow_mut().push(("identity/not-the-announced-one".into(), format!("peer announced identity of {} bytes, registered under {}", a.len(), rc::hex(id)))),
                // "a fresh unique one": its length is the library's business, but it cannot be empty (every peer without
                // an announced identity would share it) nor longer than an identity may be
                None if id.is_empty() || id.len() > 255 => viol2.borrow_mut().push(("identity/auto-empty-or-oversized".into(), format!("the identity assigned to a peer that announced none has {} bytes", id.len()))),
                _ => {}
            }
        }
        let mut hid: Option<Vec<u8>> = None;
        if probe && vid.is_some() {
            let r2 = e3::attach_raw(sock.backend(), healthy).await;
            hid = r2.ok().map(|i| i.to_vec());
            if hid.is_none() {
                viol2.borrow_mut().push(("probe/healthy-peer-rejected".into(), "a second, well-behaved peer was not admitted".into()));
            } else if hid == vid {
                viol2.borrow_mut().push(("identity/not-unique".into(), "two connections were given the same auto identity".into()));
            }
        }
        // receive side: the peer's trailing message is delivered exactly once iff admitted
        if local.can_recv() && local != Ty::Req {
            let r1 = world::until_idle(sock.recv()).await;
            let s1 = r1.as_ref().map(e3::show_result).unwrap_or_else(|| "pending".into());
            obs2.borrow_mut().push(format!("recv#1 -> {}", s1));
            if r1.is_some() {
                let r2 = world::until_idle(sock.recv()).await;
                let s2 = r2.as_ref().map(e3::show_result).unwrap_or_else(|| "pending".into());
                obs2.borrow_mut().push(format!("recv#2 -> {}", s2));
            }
        }
        if probe && vid.is_some() && hid.is_some() {
            match local {
                Ty::Push | Ty::Dealer => {
                    for i in 0..4 {
                        let s = sock.send(crate::e1::msg(&[format!("m{}", i).into_bytes()])).await;
                        obs2.borrow_mut().push(format!("send#{} -> {}", i, e3::ok_or_err(&s)));
                    }
                }
                Ty::Req => {
                    for i in 0..4 {
                        let s = sock.send(crate::e1::msg(&[format!("m{}", i).into_bytes()])).await;
                        obs2.borrow_mut().push(format!("send#{} -> {}", i, e3::ok_or_err(&s)));
                        let r = world::until_idle(sock.recv()).await;
                        obs2.borrow_mut().push(format!("recv -> {}", r.as_ref().map(e3::show_result).unwrap_or_else(|| "pending".into())));
                    }
                }
                Ty::Pub | Ty::XPub => {
                    world::idle().await;
                    let s = sock.send(crate::e1::msg(&[b"news".to_vec()])).await;
                    obs2.borrow_mut().push(format!("publish -> {}", e3::ok_or_err(&s)));
                }
                Ty::Router => {
                    let s = sock.send(crate::e1::msg(&[vid.clone().unwrap(), b"r".to_vec()])).await;
                    obs2.borrow_mut().push(format!("send(to V) -> {}", e3::ok_or_err(&s)));
                }
                Ty::Rep => {
                    let s = sock.send(crate::e1::msg(&[b"a".to_vec()])).await;
                    obs2.borrow_mut().push(format!("reply -> {}", e3::ok_or_err(&s)));
                }
                _ => {}
            }
        }
        let _ = trailing;
        world::set_cond("done");
        world::wait_cond("never").await;
        drop(sock);
    });
    let end = world::run(e3::HORIZON);
    let mut v = Verdict::default();
    v.truncated = end != world::RunEnd::Quiescent;
    // auto-assigned identities are random: mask them before anything is compared or hashed
    // (whatever their length: the rendering of the identity the socket assigned to a peer that announced none is
    // replaced too, so that a library whose assigned identities differ from run to run stays reproducible)
    let assigned_rendering: Option<String> = if announced_none { vid_cell.borrow().as_ref().filter(|i| !i.is_empty()).map(|i| { let r = rc::show_frames(&[i.clone()]); r[1..r.len() - 1].to_string() }) } else { None };
    let o: Vec<String> = obs.borrow().iter().map(|l| { let l = match &assigned_rendering { Some(r) => l.replace(r.as_str(), "<auto-id>"), None => l.clone() }; mask_auto_ids(&l) }).collect();
    let what = cfg.describe();
    let admitted = o.first().map(|s| s == "attach -> Ok");
    for p in world::panics() {
        v.violate(format!("panic/{}", p.rsplit(" @ ").next().unwrap_or("").split(':').next().unwrap_or("")), format!("{}: {}", what, p));
    }
    if v.truncated {
        v.violate("spin", format!("{}: no quiescence", what));
    }
    match admitted {
        None => {
            if world::panics().is_empty() {
                v.violate(
                    if admit { "hang/compatible-peer-never-admitted" } else { "hang/rejectable-peer-never-rejected" },
                    format!("{}: attach neither succeeded nor failed although the peer sent a complete greeting and first item", what),
                );
            }
        }
        Some(a) if a != admit => {
            let class = if a {
                format!(
                    "admitted-but-must-reject/{}",
                    if cfg.sig != 0 {
                        "signature"
                    } else if cfg.version.0 < 3 {
                        "version"
                    } else if cfg.mech >= 3 {
                        "mechanism"
                    } else if cfg.first != 0 {
                        "first-item"
                    } else if id_len(cfg.identity).map(|l| l > 255).unwrap_or(false) {
                        "identity-length"
                    } else {
                        "socket-type"
                    }
                )
            } else {
                "rejected-but-must-admit".to_string()
            };
            v.violate(class, format!("{}: attach returned {}, reference says {}", what, o[0], if admit { "admit" } else { "reject" }));
        }
        Some(true) => {
            // delivered exactly once
            if local.can_recv() && local != Ty::Req {
                let want: Vec<Vec<u8>> = match local {
                    Ty::Rep => vec![b"PROBE".to_vec()],
                    Ty::Router => {
                        let mut w = vec![];
                        if let Some(a) = cfg.identity_bytes().filter(|i| !i.is_empty()) {
                            w.push(a);
                        }
                        w.push(b"PROBE".to_vec());
                        w
                    }
                    _ => cfg.trailing(),
                };
                let r1 = o.iter().find(|l| l.starts_with("recv#1")).cloned().unwrap_or_default();
                let r2 = o.iter().find(|l| l.starts_with("recv#2")).cloned().unwrap_or_default();
                let ok1 = if local == Ty::Router && cfg.identity_bytes().filter(|i| !i.is_empty()).is_none() {
                    // labelled with whatever identity the socket assigned (as returned by attach), of whatever length
                    r1 == format!("recv#1 -> Ok[<auto-id>,{}]", rc::hex(b"PROBE"))
                } else {
                    // (the log masks every 16-byte frame, so an announced 16-byte identity is compared masked too)
                    r1 == mask_auto_ids(&format!("recv#1 -> Ok{}", rc::show_frames(&want)))
                };
                if !ok1 {
                    v.violate("admitted/message-not-delivered", format!("{}: after admission the peer's message was not returned by recv: {:?}", what, o));
                } else if r2 != "recv#2 -> pending" {
                    v.violate("admitted/registered-twice-or-duplicate-delivery", format!("{}: a second recv returned {:?} although the peer sent one message", what, r2));
                }
            }
            if probe {
                let vt = victim.tap_messages();
                let ht = healthy.tap_messages();
                match local {
                    Ty::Push | Ty::Dealer | Ty::Req => {
                        let strip = |m: &Vec<Vec<u8>>| -> String { String::from_utf8_lossy(m.last().unwrap()).to_string() };
                        let vs: Vec<String> = vt.iter().map(strip).collect();
                        let hs: Vec<String> = ht.iter().map(strip).collect();
                        let alt = (vs == ["m0", "m2"] && hs == ["m1", "m3"]) || (vs == ["m1", "m3"] && hs == ["m0", "m2"]);
                        if !alt {
                            v.violate(
                                "admitted/registration-count",
                                format!("{}: with two admitted peers four sends must alternate strictly; peer V got {:?}, peer H got {:?} ({:?})", what, vs, hs, o),
                            );
                        }
                    }
                    Ty::Pub | Ty::XPub => {
                        if vt != vec![vec![b"news".to_vec()]] {
                            v.violate("admitted/publish-not-exactly-once", format!("{}: subscribed peer's wire carries {:?}", what, vt));
                        }
                    }
                    Ty::Router => {
                        if vt != vec![vec![b"r".to_vec()]] || !ht.is_empty() {
                            v.violate("admitted/router-send", format!("{}: send to V's identity: V wire {:?}, H wire {:?}", what, vt, ht));
                        }
                    }
                    Ty::Rep => {
                        if vt != vec![vec![vec![], b"a".to_vec()]] || !ht.is_empty() {
                            v.violate("admitted/rep-reply", format!("{}: reply: V wire {:?}, H wire {:?}", what, vt, ht));
                        }
                    }
                    _ => {}
                }
            }
        }
        Some(false) => {
            // closed, nothing but greeting (+READY) ever written, later traffic never surfaces
            if !victim.released() {
                v.violate("rejected/connection-not-closed", format!("{}: after the failed handshake the connection halves are still held", what));
            }
            let d = victim.tap_decoded();
            let only_hs = d.error.is_none()
                && d.items.len() <= 2
                && d.messages().is_empty()
                && (d.consumed == victim.tap().len());
            if !only_hs {
                v.violate("rejected/wrote-application-data", format!("{}: bytes written to the rejected peer are not just greeting(+READY): {}", what, rc::hex(&victim.tap())));
            }
            if o.iter().any(|l| l.starts_with("recv#1 -> Ok")) {
                v.violate("rejected/message-delivered", format!("{}: a message of the rejected connection was delivered: {:?}", what, o));
            }
        }
    }
    for (c, m) in viol.borrow().iter() {
        v.violate(c.clone(), format!("{}: {}", what, m));
    }
    v.outcome_hash = rc::fnv(o.join("|").as_bytes());
    v.log = o;
    let mut v = e3::finish(v);
    v.log.extend(obs.borrow().iter().cloned());
    v
}

/// Replaces `#16:xxxxxxxx` renderings (16-byte frames = auto-assigned UUID identities) by a fixed token.
fn mask_auto_ids(l: &str) -> String {
    let mut out = String::new();
    let mut rest = l;
    while let Some(i) = rest.find("#16:") {
        out.push_str(&rest[..i]);
        out.push_str("<auto-id>");
        rest = &rest[(i + 4 + 8).min(rest.len())..];
    }
    out.push_str(rest);
    out
}

pub fn run(tier: Tier, replay: Option<String>) -> i32 {
    world::install_panic_hook();
    let mut ck = Check::new("C04", tier, "model_checking");
    if let Some(path) = replay {
        let v: Value = serde_json::from_str(&std::fs::read_to_string(&path).expect("read")).expect("json");
        if v["replay"]["kind"] == "compat" {
            let a: SocketType = v["replay"]["a"].as_str().unwrap().parse().unwrap();
            let b: SocketType = v["replay"]["b"].as_str().unwrap().parse().unwrap();
            let r = world::guarded(|| a.compatible(b));
            println!("replay: {}.compatible({}) = {:?}; RFC says {}", a, b, r, rfc_compatible(a.as_str(), b.as_str()));
            return if r == Ok(rfc_compatible(a.as_str(), b.as_str())) { 0 } else { 1 };
        }
        return crate::replay::replay_e3(&v, |p| {
            if p["scenario"] == "impostor" {
                let (local, id_len) = (Ty::from_name(p["local"].as_str()?)?, p["id_len"].as_u64()? as usize);
                let bad: &'static str = match p["bad_type"].as_str()? { "FOO" => "FOO", "STREAM" => "STREAM", _ => "PAIR" };
                return Some(std::sync::Arc::new(move || impostor_scenario(local, id_len, bad)) as zvcore::explore::Scenario);
            }
            if p["scenario"] == "twin" {
                let (local, id_len, first_open) = (Ty::from_name(p["local"].as_str()?)?, p["id_len"].as_u64()? as usize, p["first_open"].as_bool()?);
                return Some(std::sync::Arc::new(move || twin_scenario(local, id_len, first_open)) as zvcore::explore::Scenario);
            }
            let cfg = Cfg::from_json(p)?;
            Some(std::sync::Arc::new(move || scenario(&cfg)) as zvcore::explore::Scenario)
        });
    }
    // all 12 x 12 compatibility queries
    let mut n_q = 0;
    for a in TYPE_NAMES {
        for b in TYPE_NAMES {
            n_q += 1;
            let ta: SocketType = a.parse().unwrap();
            let tb: SocketType = b.parse().unwrap();
            let want = rfc_compatible(a, b);
            match world::guarded(|| ta.compatible(tb)) {
                Ok(g) if g == want => {}
                Ok(g) => ck.finding(
                    format!("compat-table/{}-{}", a, b),
                    format!("{}.compatible({}) = {} but the RFC table says {}", a, b, g, want),
                    json!({"engine":"E3","kind":"compat","a":a,"b":b}),
                ),
                Err(p) => ck.finding(
                    "compat-table/panic",
                    format!("{}.compatible({}) panicked: {} (the table must be defined for every pair)", a, b, p),
                    json!({"engine":"E3","kind":"compat","a":a,"b":b}),
                ),
            }
            // symmetry
            if let (Ok(x), Ok(y)) = (world::guarded(|| ta.compatible(tb)), world::guarded(|| tb.compatible(ta))) {
                if x != y {
                    ck.finding(
                        "compat-table/asymmetric",
                        format!("{}.compatible({}) = {} but {}.compatible({}) = {}", a, b, x, b, a, y),
                        json!({"engine":"E3","kind":"compat","a":a,"b":b}),
                    );
                }
            }
        }
    }
    // the complete product
    let mut jobs = Vec::new();
    let mut n_admit = 0u64;
    for local in ALL_TYPES {
        for peer_type in 0..PEER_TYPES.len() {
            for version in VERSIONS {
                for mech in 0..MECHS.len() {
                    for sig in 0..3u8 {
                        for identity in 0..ID_LENS.len() {
                            for first in 0..5u8 {
                                let cfg = Cfg {
                                    local,
                                    peer_type,
                                    version,
                                    mech,
                                    sig,
                                    identity,
                                    first,
                                    probe: false,
                                    cut: 0,
                                };
                                let admit = cfg.should_admit();
                                if admit {
                                    n_admit += 1;
                                }
                                let mut variants = vec![cfg.clone()];
                                if admit {
                                    let mut p = cfg.clone();
                                    p.probe = true;
                                    variants.push(p);
                                }
                                for c in variants {
                                    let c2 = c.clone();
                                    jobs.push(e3::job(
                                        format!("C04/{}/{}/{:?}/{}/{}/{}/{}{}", local.name(), peer_type, version, mech, sig, identity, first, if c.probe { "/probe" } else { "" }),
                                        c.to_json(),
                                        0,
                                        4,
                                        move || scenario(&c2),
                                    ));
                                }
                            }
                        }
                    }
                }
            }
        }
    }
    // the identity axis in full: every length 2..=254 and 257..=300, for every local type against every
    // peer type name, otherwise well-formed (the product above has none / 0 / 1 / 255 / 256)
    let mut n_idsweep = 0u64;
    for local in ALL_TYPES {
        for peer_type in 0..12 {
            let compatible = rfc_compatible(local.name(), PEER_TYPES[peer_type].unwrap());
            for identity in ID_LENS.len()..=301 {
                // incompatible pairs: a sparser grid keeps the quick tier short
                if !compatible && tier == Tier::Quick && identity % 8 != 0 {
                    continue;
                }
                let cfg = Cfg { local, peer_type, version: (3, 0), mech: 0, sig: 0, identity, first: 0, probe: false, cut: 0 };
                let admit = cfg.should_admit();
                if admit {
                    n_admit += 1;
                }
                let mut variants = vec![cfg.clone()];
                if admit {
                    let mut p = cfg.clone();
                    p.probe = true;
                    variants.push(p);
                }
                for c in variants {
                    let c2 = c.clone();
                    n_idsweep += 1;
                    jobs.push(e3::job(format!("C04/idsweep/{}/{}/{}{}", local.name(), peer_type, identity, if c.probe { "/probe" } else { "" }), c.to_json(), 0, 4, move || scenario(&c2)));
                }
            }
        }
    }
    // segmentation axis: admission does not depend on how the peer's bytes are cut. For every local type, its
    // well-formed compatible peers (with and without identity, each first-item kind) and a few that must be refused:
    // the handshake arrives in two pieces, the first of every length 1..len-1
    let mut n_cuts = 0u64;
    for local in ALL_TYPES {
        for peer_type in 0..PEER_TYPES.len() {
            let compatible = PEER_TYPES[peer_type].map(|p| rfc_compatible(local.name(), p)).unwrap_or(false);
            // all compatible peers; of the others one wrong type, the unknown name and the missing property
            if !compatible && !(peer_type == 0 || peer_type >= 12) {
                continue;
            }
            for (version, identity, first) in [((3u8, 0u8), 0usize, 0u8), ((3, 1), 2, 3), ((4, 0), 3, 0), ((2, 1), 0, 0)] {
                if !compatible && version != (3, 0) {
                    continue;
                }
                let base = Cfg { local, peer_type, version, mech: 0, sig: 0, identity, first, probe: false, cut: 0 };
                let len = base.peer_bytes().len();
                let cuts: Vec<usize> = if tier == Tier::Thorough || (compatible && version == (3, 0)) { (1..len).collect() } else { (1..len).filter(|c| *c <= 12 || (60..=70).contains(c) || c % 7 == 0 || *c + 3 >= len).collect() };
                for cut in cuts {
                    let mut c = base.clone();
                    c.cut = cut;
                    c.probe = c.should_admit() && cut % 5 == 0;
                    let c2 = c.clone();
                    n_cuts += 1;
                    jobs.push(e3::job(format!("C04/cut/{}/{}/{:?}/{}/{}/{}", local.name(), peer_type, version, identity, first, cut), c.to_json(), 0, 4, move || scenario(&c2)));
                }
            }
        }
    }
    ck.cov("handshakes_delivered_in_two_pieces", n_cuts);
    // a refused peer that announces the identity of a live one
    for local in ALL_TYPES {
        for id_len in [1usize, 16, 255] {
            for bad in ["PAIR", "FOO", "STREAM"] {
                jobs.push(e3::job(format!("C04/impostor/{}/{}/{}", local.name(), id_len, bad), json!({"scenario":"impostor","local":local.name(),"id_len":id_len,"bad_type":bad}), 0, 4, move || impostor_scenario(local, id_len, bad)));
            }
        }
    }
    // an identity that is already in the table
    for local in ALL_TYPES {
        for id_len in [1usize, 16, 255] {
            for first_open in [true, false] {
                jobs.push(e3::job(format!("C04/twin/{}/{}/{}", local.name(), id_len, first_open), json!({"scenario":"twin","local":local.name(),"id_len":id_len,"first_open":first_open}), 0, 4, move || twin_scenario(local, id_len, first_open)));
            }
        }
    }
    let n_jobs = jobs.len() as u64;
    e3::run_jobs_into(&mut ck, jobs, false);
    let ex = ck.coverage.get("e3_executions").and_then(|v| v.as_u64()).unwrap_or(0);
    ck.cov("states", n_jobs + n_q);
    ck.cov("transitions", ex + n_q);
    ck.cov("traces_validated_against_impl", ex + n_q);
    ck.cov("configurations", n_jobs - n_admit);
    ck.cov("configurations_reference_admits", n_admit);
    ck.cov("registration_probes", n_admit);
    ck.cov("compat_queries", n_q);
    ck.cov("identity_length_sweep_handshakes", n_idsweep);
    ck.cov("exhaustive", true);
    ck.cov("explanation", "complete product 9 local types x 15 peer Socket-Type values (12 names, FOO, req, missing) x 5 versions x 5 mechanisms x 3 signature variants x 5 identity options x 5 first items (READY / another command / a message / PING then READY / SUBSCRIBE then READY) = 253125 real handshakes over in-memory pipes, each compared with the reference admission predicate; every configuration the reference admits is run a second time with a behavioural registration probe (second peer, strict alternation of 4 sends / exactly-once publish / routed send / reply); plus the identity axis in full (every Identity length 2..=254 and 257..=300 for every local type against each of the 12 peer type names, otherwise well-formed; admitted ones with the registration probe); plus a segmentation axis (for every local type its compatible peers in 4 version/identity/first-item combinations and a few that must be refused: the peer's bytes arrive in two pieces, the first of every length; coverage.handshakes_delivered_in_two_pieces); plus, for every local type, a second connection announcing an identity (1 / 16 / 255 bytes) that is already in the table (first connection still open, or closed unnoticed): both admitted, and the socket's own traffic works with the second; and a REFUSED peer (valid greeting + READY with Socket-Type PAIR / FOO / STREAM) that announces the identity of a live, working peer: refused, and the live peer goes on being served; plus all 144 compatible() queries under catch_unwind against the RFC table, incl. symmetry. states = configurations; transitions = handshake executions.");
    ck.assume("the handshake code is sequential: no scheduling choice influences admission (one execution per configuration, default schedule)");
    ck.assume("RFC compatibility table transcribed in c04.rs::rfc_compatible");
    ck.conclude()
}
