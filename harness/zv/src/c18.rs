//! C18 — bind/unbind manage independent listeners with exact endpoint bookkeeping (E4).
//! All operation sequences up to a bounded length on the real runtime against a
//! reference model of the bind set.

use crate::e3::{AnySocket, Ty};
use crate::e4::{self, RawStream};
use serde_json::{json, Value};
use zeromq::{Endpoint, ZmqError};
use zvcore::evidence::{Check, Tier};
use zvcore::refcodec as rc;

const OPS: [&str; 15] = ["bind-tcp4", "bind-tcp6", "bind-localhost", "bind-ipc", "bind-duplicate", "unbind-oldest", "unbind-unknown", "connect-in-each", "exchange-established", "rebind-last-unbound", "150-failed-handshakes-on-oldest", "MODE:back-to-back-on-current-thread-runtime", "silent-client-stays-on-oldest", "bind-ipc-unusual-name", "bind-ipc-in-missing-directory"];
/// Not an operation: as the first element of a sequence it selects the back-to-back mode - the calls follow each other
/// with no suspension point of the application between them (on the current-thread runtime nothing a call spawned has
/// been polled when the next call starts); the model is compared after the last call only.
const MODE_AT_ONCE: u8 = 11;
/// set once the process has made a private scratch directory its working directory (worker processes only): ipc names
/// that are relative, start with '@', contain spaces or non-ASCII characters, or are very long can then be bound safely
static SCRATCH_CWD: std::sync::atomic::AtomicBool = std::sync::atomic::AtomicBool::new(false);
static UNUSUAL: std::sync::atomic::AtomicU64 = std::sync::atomic::AtomicU64::new(0);
const FAILED_HANDSHAKES: usize = 150;

struct Client {
    s: RawStream,
    via: Endpoint,
    n: usize,
}

async fn exchange(ty: Ty, sock: &mut AnySocket, c: &mut Client, tag: &str) -> Result<(), String> {
    c.n += 1;
    let body = format!("{}-{}", tag, c.n).into_bytes();
    match ty {
        Ty::Rep => {
            c.s.write_all(&rc::encode_message(&[vec![], body.clone()])).await.map_err(|e| format!("client write: {}", e))?;
            let m = tokio::time::timeout(e4::HORIZON, sock.recv()).await.map_err(|_| "server recv timed out".to_string())?.map_err(|e| format!("server recv: {}", e))?;
            if crate::e1::frames_of(&m) != vec![body.clone()] {
                return Err(format!("server received {:?}", crate::e1::frames_of(&m)));
            }
            tokio::time::timeout(e4::HORIZON, sock.send(crate::e1::msg(&[b"pong".to_vec(), body.clone()]))).await.map_err(|_| "server send timed out".to_string())?.map_err(|e| format!("server send: {}", e))?;
            let want = rc::encode_message(&[vec![], b"pong".to_vec(), body]);
            let mut acc = Vec::new();
            let end = c.s.read_until(&mut acc, e4::HORIZON, |b| b.len() >= want.len()).await;
            if acc != want {
                return Err(format!("client read {:?}: {} bytes, expected the reply", end, acc.len()));
            }
            Ok(())
        }
        _ => {
            c.s.write_all(&rc::encode_message(&[body.clone()])).await.map_err(|e| format!("client write: {}", e))?;
            let m = tokio::time::timeout(e4::HORIZON, sock.recv()).await.map_err(|_| "server recv timed out".to_string())?.map_err(|e| format!("server recv: {}", e))?;
            if crate::e1::frames_of(&m) != vec![body] {
                return Err(format!("server received {:?}", crate::e1::frames_of(&m)));
            }
            Ok(())
        }
    }
}

async fn connect_in(ty: Ty, ep_text: &str) -> Result<RawStream, String> {
    let ep: Endpoint = ep_text.parse().map_err(|e| format!("text form {:?} of a bound endpoint does not parse: {}", ep_text, e))?;
    let mut s = tokio::time::timeout(e4::HORIZON, RawStream::connect(&ep)).await.map_err(|_| "connect timed out".to_string())?.map_err(|e| format!("connect: {}", e))?;
    e4::raw_handshake(&mut s, ty.peer_type(), None).await?;
    Ok(s)
}

/// Runs one operation sequence; returns violations (class, message).
async fn run_sequence(ty: Ty, seq: &[u8]) -> Vec<(String, String)> {
    let mut viol: Vec<(String, String)> = Vec::new();
    let names: Vec<&str> = seq.iter().map(|o| OPS[*o as usize]).collect();
    let what = format!("{} socket, operations {:?}", ty.name(), names);
    let mut sock = AnySocket::new_unmonitored(ty, None);
    // a monitor is installed (and kept) so that the event paths run too
    let _monitor = sock.monitor();
    let mut model: Vec<Endpoint> = Vec::new(); // in bind order
    let mut ever: Vec<Endpoint> = Vec::new();
    let mut clients: Vec<Client> = Vec::new();
    let mut silents: Vec<RawStream> = Vec::new();
    let at_once = seq.first() == Some(&MODE_AT_ONCE);
    for (step, op) in seq.iter().enumerate() {
        let at = format!("{} — at step {} ({})", what, step, OPS[*op as usize]);
        if *op == MODE_AT_ONCE {
            continue;
        }
        match *op {
            14 if SCRATCH_CWD.load(std::sync::atomic::Ordering::Relaxed) => {
                // an ipc path whose directory does not exist (and that the harness never creates): the bind may fail - then
                // nothing changes - or succeed - then everything said about a bound endpoint holds for it
                let n = UNUSUAL.fetch_add(1, std::sync::atomic::Ordering::Relaxed);
                let spec = format!("ipc://missing-dir/s{}.sock", n);
                match sock.bind(&spec).await {
                    Ok(ep) => {
                        if model.contains(&ep) {
                            viol.push(("bind/returned-endpoint-already-bound".into(), format!("{}: bind({}) returned {} which was already in the bind set", at, spec, ep)));
                        }
                        model.push(ep.clone());
                        ever.push(ep);
                    }
                    Err(_) => {}
                }
            }
            14 => {}
            0..=3 | 13 => {
                let spec = match *op {
                    0 => "tcp://127.0.0.1:0".to_string(),
                    1 => "tcp://[::1]:0".to_string(),
                    2 => "tcp://localhost:0".to_string(),
                    13 if SCRATCH_CWD.load(std::sync::atomic::Ordering::Relaxed) => {
                        // names relative to the (private) working directory, in five spellings
                        let n = UNUSUAL.fetch_add(1, std::sync::atomic::Ordering::Relaxed);
                        match (step + ever.len()) % 5 {
                            0 => format!("ipc://@zv{}", n),
                            1 => format!("ipc://rel{}.sock", n),
                            2 => format!("ipc://with space {}.sock", n),
                            3 => format!("ipc://\u{fc}n\u{ef}{}.sock", n),
                            _ => format!("ipc://{}{}", "l".repeat(90), n),
                        }
                    }
                    _ => format!("ipc://{}", e4::ipc_path().display()),
                };
                match sock.bind(&spec).await {
                    Ok(ep) => {
                        if let Endpoint::Tcp(_, port) = &ep {
                            if *port == 0 {
                                viol.push(("bind/port-not-resolved".into(), format!("{}: bind({}) returned {}", at, spec, ep)));
                            }
                        }
                        if model.contains(&ep) {
                            viol.push(("bind/returned-endpoint-already-bound".into(), format!("{}: bind({}) returned {} which was already in the bind set", at, spec, ep)));
                        }
                        model.push(ep.clone());
                        ever.push(ep);
                    }
                    Err(e) => viol.push(("bind/failed".into(), format!("{}: bind({}) failed: {}", at, spec, e))),
                }
            }
            4 => {
                if let Some(ep) = model.last().cloned() {
                    match sock.bind(&ep.to_string()).await {
                        Ok(got) => {
                            viol.push(("bind-duplicate/accepted".into(), format!("{}: binding {} a second time succeeded (returned {})", at, ep, got)));
                            if !model.contains(&got) {
                                model.push(got);
                            }
                        }
                        Err(_) => {}
                    }
                }
            }
            5 => {
                if !model.is_empty() {
                    let ep = model.remove(0);
                    match tokio::time::timeout(e4::HORIZON, sock.unbind(ep.clone())).await {
                        Ok(Ok(())) => {
                            // stops accepting on it by the time it returns
                            if !e4::refuses(&ep).await {
                                viol.push(("unbind/still-accepting-at-return".into(), format!("{}: {} accepted a connection right after unbind returned", at, ep)));
                            }
                        }
                        Ok(Err(e)) => viol.push(("unbind/failed".into(), format!("{}: unbind({}) failed: {}", at, ep, e))),
                        Err(_) => viol.push(("unbind/hangs".into(), format!("{}: unbind({}) did not return within {} s", at, ep, e4::HORIZON.as_secs()))),
                    }
                }
            }
            6 => {
                // endpoints that are NOT bound: one that was bound earlier (or a far miss), and near misses of every
                // bound endpoint - same port under another host name or address, same ipc path with a suffix
                let mut unknowns: Vec<Endpoint> = vec![ever.iter().find(|e| !model.contains(e)).cloned().unwrap_or(Endpoint::Tcp(zeromq::Host::Ipv4("127.0.0.1".parse().unwrap()), 1))];
                for ep in model.clone() {
                    match &ep {
                        Endpoint::Tcp(_, port) => {
                            for host in ["localhost", "no-such-host.invalid", "127.0.0.2", "[::1]", "127.0.0.1", "192.0.2.7"] {
                                if let Ok(e) = format!("tcp://{}:{}", host, port).parse::<Endpoint>() {
                                    unknowns.push(e);
                                }
                            }
                        }
                        Endpoint::Ipc(Some(p)) => {
                            if let Ok(e) = format!("ipc://{}.x", p.display()).parse::<Endpoint>() {
                                unknowns.push(e);
                            }
                        }
                        _ => {}
                    }
                }
                unknowns.retain(|u| !model.contains(u));
                for unknown in unknowns {
                    match tokio::time::timeout(e4::HORIZON, sock.unbind(unknown.clone())).await {
                        Ok(Err(ZmqError::NoSuchBind(_))) => {}
                        Ok(Ok(())) => {
                            viol.push(("unbind-unknown/accepted".into(), format!("{}: unbind({}) of an endpoint that is not bound succeeded (bound: {:?})", at, unknown, model.iter().map(|e| e.to_string()).collect::<Vec<_>>())));
                            break;
                        }
                        Ok(Err(e)) => viol.push(("unbind-unknown/wrong-error".into(), format!("{}: unbind({}) failed with {} instead of NoSuchBind", at, unknown, e))),
                        Err(_) => viol.push(("unbind/hangs".into(), format!("{}: unbind of an unknown endpoint did not return", at))),
                    }
                }
            }
            7 => {
                for ep in model.clone() {
                    match connect_in(ty, &ep.to_string()).await {
                        Ok(s) => {
                            let mut c = Client { s, via: ep.clone(), n: 0 };
                            if let Err(e) = exchange(ty, &mut sock, &mut c, "new").await {
                                viol.push(("bound-endpoint/exchange-failed".into(), format!("{}: exchange over a fresh connection to {} failed: {}", at, ep, e)));
                            }
                            clients.push(c);
                        }
                        Err(e) => viol.push(("bound-endpoint/not-connectable".into(), format!("{}: {} is in the bind set but not connectable by its text form: {}", at, ep, e))),
                    }
                }
            }
            10 => {
                // many clients, one after the other, connect to the oldest bound endpoint, send part of a greeting and
                // close: the endpoint stays bound and must go on accepting (checked by the steps that follow)
                if let Some(ep) = model.first().cloned() {
                    for k in 0..FAILED_HANDSHAKES {
                        match tokio::time::timeout(e4::HORIZON, RawStream::connect(&ep)).await {
                            Ok(Ok(mut s)) => {
                                let _ = s.write_all(&rc::default_greeting()[..10 + (k % 3) * 27]).await;
                                drop(s);
                            }
                            _ => {
                                viol.push(("bound-endpoint/not-connectable".into(), format!("{}: raw connect #{} to {} failed", at, k, ep)));
                                break;
                            }
                        }
                    }
                    // and a well-behaved client right behind them
                    match connect_in(ty, &ep.to_string()).await {
                        Ok(s) => {
                            let mut c = Client { s, via: ep.clone(), n: 0 };
                            if let Err(e) = exchange(ty, &mut sock, &mut c, "after-failures").await {
                                viol.push(("bound-endpoint/exchange-failed".into(), format!("{}: exchange over a fresh connection to {} after {} failed handshakes failed: {}", at, ep, FAILED_HANDSHAKES, e)));
                            }
                            clients.push(c);
                        }
                        Err(e) => viol.push(("bound-endpoint/not-connectable".into(), format!("{}: after {} clients that closed in mid-handshake, {} (still bound) is no longer connectable: {}", at, FAILED_HANDSHAKES, ep, e))),
                    }
                }
            }
            12 => {
                // a client connects to the oldest bound endpoint, says nothing and stays: the endpoint goes on accepting
                // everybody else (checked by the bookkeeping below and by the steps that follow)
                if let Some(ep) = model.first().cloned() {
                    match tokio::time::timeout(e4::HORIZON, RawStream::connect(&ep)).await {
                        Ok(Ok(s)) => silents.push(s),
                        _ => viol.push(("bound-endpoint/not-connectable".into(), format!("{}: raw connect to {} failed", at, ep))),
                    }
                    // the endpoint must serve a well-behaved client right behind the silent one
                    match connect_in(ty, &ep.to_string()).await {
                        Ok(s) => {
                            let mut c = Client { s, via: ep.clone(), n: 0 };
                            if let Err(e) = exchange(ty, &mut sock, &mut c, "behind-silent").await {
                                viol.push(("bound-endpoint/exchange-failed".into(), format!("{}: exchange over a fresh connection to {} behind a silent client failed: {}", at, ep, e)));
                            }
                            clients.push(c);
                        }
                        Err(e) => viol.push(("bound-endpoint/not-connectable".into(), format!("{}: with one client sitting silent in its handshake, {} (still bound) does not serve the next client: {}", at, ep, e))),
                    }
                }
            }
            9 => {
                // an endpoint that was unbound is free again: binding its text form must succeed and give the same endpoint
                if let Some(ep) = ever.iter().rev().find(|e| !model.contains(e)).cloned() {
                    match sock.bind(&ep.to_string()).await {
                        Ok(got) => {
                            if got != ep {
                                viol.push(("rebind/different-endpoint".into(), format!("{}: binding {} again returned {}", at, ep, got)));
                            }
                            model.push(got);
                        }
                        Err(e) => viol.push(("rebind/failed".into(), format!("{}: {} was unbound earlier but binding it again failed: {}", at, ep, e))),
                    }
                }
            }
            _ => {
                for c in clients.iter_mut() {
                    if let Err(e) = exchange(ty, &mut sock, c, "old").await {
                        viol.push(("established-connection/broken".into(), format!("{}: the connection made through {} (now {}) no longer works: {}", at, c.via, if model.contains(&c.via) { "still bound" } else { "unbound" }, e)));
                    }
                }
            }
        }
        // bookkeeping after every step (back-to-back mode: after the last one only)
        if at_once && step + 1 < seq.len() {
            continue;
        }
        let mut got = sock.bound();
        let mut want = model.clone();
        got.sort_by_key(|e| e.to_string());
        want.sort_by_key(|e| e.to_string());
        if got != want {
            viol.push((
                "bind-set/differs-from-model".into(),
                format!("{}: binds() = {:?}, reference model = {:?}", at, got.iter().map(|e| e.to_string()).collect::<Vec<_>>(), want.iter().map(|e| e.to_string()).collect::<Vec<_>>()),
            ));
            break;
        }
        // only the unbound endpoint stopped: every other bind still accepts; every unbound endpoint refuses
        for ep in &ever {
            let bound = model.contains(ep);
            // a port released by an earlier unbind may be handed out again by the kernel to a later bind(port 0) of this
            // very sequence under another spelling of the host (tcp://localhost:0 after tcp://127.0.0.1:P was unbound):
            // then the old endpoint "accepts" again, legitimately - not judged
            if !bound {
                if let Endpoint::Tcp(_, port) = ep {
                    if model.iter().any(|m| matches!(m, Endpoint::Tcp(_, p) if p == port)) {
                        continue;
                    }
                }
            }
            let refused = e4::refuses(ep).await;
            if bound && refused {
                viol.push(("bound-endpoint/refuses".into(), format!("{}: {} is bound but refuses connections", at, ep)));
            }
            if !bound && !refused {
                viol.push(("unbound-endpoint/accepts".into(), format!("{}: {} is not bound (any more) but accepts connections", at, ep)));
            }
        }
        if !viol.is_empty() {
            break;
        }
    }
    let _ = sock.close().await;
    drop(silents);
    if SCRATCH_CWD.load(std::sync::atomic::Ordering::Relaxed) {
        let _ = std::fs::remove_dir_all("missing-dir");
    }
    viol
}

// ------------------------------------------------------------------ accept() fails once (descriptor exhaustion)

/// Child process `zv c18-emfile`: with the descriptor limit lowered, every descriptor is used up at the moment a client
/// connects to a bound endpoint, so that endpoint's accept() fails (EMFILE) at least once; the descriptors are freed
/// again. The endpoint was never unbound: it must still be in binds(), a fresh connection to it must be accepted and
/// exchange a message, and the socket's other endpoint must be unaffected.
pub fn child_emfile() -> i32 {
    unsafe {
        let lim = libc::rlimit { rlim_cur: 256, rlim_max: 256 };
        if libc::setrlimit(libc::RLIMIT_NOFILE, &lim) != 0 {
            println!("{}", json!({"finding": ["machinery/setrlimit", "cannot lower RLIMIT_NOFILE"]}));
            return 0;
        }
    }
    let mut cases = 0u64;
    for ty in [Ty::Rep, Ty::Pull] {
        for ipc in [false, true] {
            cases += 1;
            let viol = e4::block_on_deadline(2, e4::CASE_DEADLINE, move || async move { emfile_case(ty, ipc).await }).unwrap_or_else(|| vec![("runtime-hung".to_string(), format!("{} ({}): the case did not come back within {} s", ty.name(), if ipc { "ipc" } else { "tcp" }, e4::CASE_DEADLINE.as_secs()))]);
            for (c, m) in viol {
                println!("{}", json!({"finding": [c, m], "type": ty.name(), "ipc": ipc}));
            }
        }
    }
    println!("{}", json!({"cases": cases}));
    e4::cleanup_ipc_dir();
    0
}

async fn emfile_case(ty: Ty, ipc: bool) -> Vec<(String, String)> {
    let mut viol: Vec<(String, String)> = Vec::new();
    let what = format!("{} socket with two bound endpoints ({} and tcp); accept() on the first fails for lack of descriptors while a client connects, then descriptors are free again", ty.name(), if ipc { "ipc" } else { "tcp" });
    let mut sock = AnySocket::new_unmonitored(ty, None);
    let mut monitor = sock.monitor();
    let spec = if ipc { format!("ipc://{}", e4::ipc_path().display()) } else { "tcp://127.0.0.1:0".to_string() };
    let (ep1, ep2) = match (sock.bind(&spec).await, sock.bind("tcp://127.0.0.1:0").await) {
        (Ok(a), Ok(b)) => (a, b),
        (a, b) => return vec![("machinery/bind-failed".into(), format!("{}: {:?} {:?}", what, a.err().map(|e| e.to_string()), b.err().map(|e| e.to_string())))],
    };
    let mut hog: Vec<std::fs::File> = Vec::new();
    while let Ok(f) = std::fs::File::open("/dev/null") {
        hog.push(f);
        if hog.len() > 4096 {
            break;
        }
    }
    hog.pop();
    let client = RawStream::connect(&ep1).await;
    let t0 = std::time::Instant::now();
    let mut injected = false;
    while t0.elapsed() < std::time::Duration::from_secs(2) && !injected {
        #[allow(deprecated)]
        while let Ok(Some(ev)) = monitor.try_next() {
            if matches!(ev, zeromq::SocketEvent::AcceptFailed(_)) {
                injected = true;
            }
        }
        tokio::time::sleep(std::time::Duration::from_millis(2)).await;
    }
    drop(hog);
    drop(client);
    if !injected {
        return vec![("machinery/accept-did-not-fail".into(), format!("{}: no AcceptFailed event within 2 s", what))];
    }
    let mut got = sock.bound();
    got.sort_by_key(|e| e.to_string());
    let mut want = vec![ep1.clone(), ep2.clone()];
    want.sort_by_key(|e| e.to_string());
    if got != want {
        viol.push(("bind-set/changed-by-a-failed-accept".into(), format!("{}: binds() = {:?}", what, got.iter().map(|e| e.to_string()).collect::<Vec<_>>())));
    }
    for (name, ep) in [("the endpoint whose accept failed", &ep1), ("the other endpoint", &ep2)] {
        match connect_in(ty, &ep.to_string()).await {
            Ok(s) => {
                let mut c = Client { s, via: ep.clone(), n: 0 };
                if let Err(e) = exchange(ty, &mut sock, &mut c, "after-emfile").await {
                    viol.push(("bound-endpoint/exchange-failed".into(), format!("{}: exchange over a fresh connection to {} ({}) failed: {}", what, name, ep, e)));
                }
            }
            Err(e) => viol.push(("bound-endpoint/not-connectable".into(), format!("{}: {} ({}) was never unbound but is no longer connectable: {}", what, name, ep, e))),
        }
    }
    let _ = sock.close().await;
    viol
}

fn sequences(max_len: usize, max_len_with_failures: usize) -> Vec<Vec<u8>> {
    let mut all: Vec<Vec<u8>> = Vec::new();
    let mut level: Vec<Vec<u8>> = vec![vec![]];
    for _ in 0..max_len {
        let mut next = Vec::new();
        for s in &level {
            for op in (0..MODE_AT_ONCE).chain([12u8, 13u8, 14u8]) {
                // operations that need a bound endpoint / a client are no-ops on an empty history: skip the duplicates
                let binds = s.iter().filter(|o| **o <= 3 || **o == 13 || **o == 14).count();
                if (op == 4 || op == 5 || op == 7) && binds == 0 {
                    continue;
                }
                if op == 8 && !s.contains(&7) {
                    continue;
                }
                if op == 9 && !s.contains(&5) {
                    continue;
                }
                // the expensive operation: at most once, in the shorter sequences, and only with something bound
                if op == 10 && (binds == 0 || s.contains(&10)) {
                    continue;
                }
                if op == 12 && (binds == 0 || s.contains(&12)) {
                    continue;
                }
                if op == 14 && s.iter().filter(|o| **o == 14).count() >= 2 {
                    continue;
                }
                // the unusual ipc names: at most twice per sequence
                if op == 13 && s.iter().filter(|o| **o == 13).count() >= 2 {
                    continue;
                }
                if s.len() + 1 > max_len_with_failures && (op == 10 || s.contains(&10)) {
                    continue;
                }
                let mut t = s.clone();
                t.push(op);
                next.push(t);
            }
        }
        all.extend(next.iter().cloned());
        level = next;
    }
    all
}

fn all_cases(tier: Tier) -> Vec<(Ty, Vec<u8>)> {
    let mut v = Vec::new();
    let (l_rep, l_pull) = tier.pick((4, 4), (5, 5));
    let lf = tier.pick(3, 4);
    for s in sequences(l_rep, lf) {
        v.push((Ty::Rep, s));
    }
    for s in sequences(l_pull, lf) {
        v.push((Ty::Pull, s));
    }
    // back-to-back mode: bind/unbind calls only (the other operations wait for clients), on the current-thread runtime
    let l_at_once = tier.pick(3, 4);
    for ty in [Ty::Rep, Ty::Pull] {
        for s in sequences(l_at_once, 0) {
            if s.iter().all(|o| matches!(o, 0 | 3 | 4 | 5 | 6 | 9)) {
                let mut t = vec![MODE_AT_ONCE];
                t.extend(s);
                v.push((ty, t));
            }
        }
    }
    v
}

pub fn shard(tier: Tier, i: usize, n: usize, private_net: bool) -> i32 {
    if private_net && !e4::enter_private_netns() {
        return 77;
    }
    // a private scratch directory as working directory: relative ipc names land (and are cleaned up) there
    {
        let dir = e4::ipc_path();
        if let Some(d) = dir.parent() {
            if std::env::set_current_dir(d).is_ok() {
                SCRATCH_CWD.store(true, std::sync::atomic::Ordering::Relaxed);
            }
        }
    }
    let cases = all_cases(tier);
    let t0 = std::time::Instant::now();
    let budget = std::time::Duration::from_secs(match tier { Tier::Quick => 120, Tier::Thorough => 1500 });
    let mut failing = 0;
    let mut skipped = 0u64;
    for (k, (ty, seq)) in cases.iter().enumerate() {
        if k % n != i {
            continue;
        }
        if failing >= 3 || t0.elapsed() > budget {
            skipped += 1;
            continue;
        }
        let (ty2, seq2) = (*ty, seq.clone());
        let workers = if seq.first() == Some(&MODE_AT_ONCE) { 0 } else { 2 };
        let Some(viol) = e4::block_on_deadline(workers, e4::CASE_DEADLINE, move || async move { run_sequence(ty2, &seq2).await }) else {
            let names: Vec<&str> = seq.iter().map(|o| OPS[*o as usize]).collect();
            let (cl, msg) = e4::hung_or_panicked("runtime-hung".to_string(), format!("{} socket, operations {:?}: the sequence did not come back within {} s although every wait in it has a {} s horizon: a thread of the socket's runtime is blocked for ever", ty.name(), names, e4::CASE_DEADLINE.as_secs(), e4::HORIZON.as_secs()));
            println!("{}", json!({"case": k, "findings": [[cl, msg]]}));
            let rest = cases.iter().enumerate().filter(|(j, _)| j % n == i && *j > k).count() as u64;
            println!("{}", json!({"skipped": rest + skipped, "after_failures": failing + 1, "budget_exhausted": false}));
            use std::io::Write;
            let _ = std::io::stdout().flush();
            e4::cleanup_ipc_dir();
            std::process::exit(0);
        };
        if !viol.is_empty() {
            failing += 1;
        }
        println!("{}", json!({"case": k, "findings": viol}));
    }
    if skipped > 0 {
        println!("{}", json!({"skipped": skipped, "after_failures": failing, "budget_exhausted": t0.elapsed() > budget}));
    }
    e4::cleanup_ipc_dir();
    0
}

pub fn run(tier: Tier, replay: Option<String>) -> i32 {
    zvcore::world::install_panic_hook();
    let mut ck = Check::new("C18", tier, "exploration");
    if let Some(path) = replay {
        let v: Value = serde_json::from_str(&std::fs::read_to_string(&path).expect("read")).expect("json");
        let r = &v["replay"];
        if r["engine"] == "E4-emfile" {
            // the whole (small) family is re-run in its child process
            return match e4::child_output(&["c18-emfile"], std::time::Duration::from_secs(900)) {
                Ok((_, out)) => {
                    let bad = out.lines().filter(|l| l.contains("\"finding\"") && !l.contains("machinery/")).count();
                    print!("{}", out);
                    println!("{}", if bad == 0 { "replay: holds" } else { "replay: VIOLATION (see the findings above)" });
                    if bad == 0 { 0 } else { 1 }
                }
                Err(e) => {
                    eprintln!("MACHINERY: {}", e);
                    2
                }
            };
        }
        let ty = Ty::from_name(r["type"].as_str().unwrap()).unwrap();
        let seq: Vec<u8> = r["ops"].as_array().unwrap().iter().map(|o| OPS.iter().position(|x| Some(*x) == o.as_str()).unwrap() as u8).collect();
        if let Some(d) = e4::ipc_path().parent() {
            if std::env::set_current_dir(d).is_ok() {
                SCRATCH_CWD.store(true, std::sync::atomic::Ordering::Relaxed);
            }
        }
        let rt = e4::runtime(if seq.first() == Some(&MODE_AT_ONCE) { 0 } else { 2 });
        let viol = rt.block_on(run_sequence(ty, &seq));
        let _ = std::env::set_current_dir("/");
        e4::cleanup_ipc_dir();
        for (c, m) in &viol {
            println!("replay: VIOLATION {}: {}", c, m);
        }
        if viol.is_empty() {
            println!("replay: holds");
        }
        return if viol.is_empty() { 0 } else { 1 };
    }
    let cases = all_cases(tier);
    let shards = ck.threads.min(16).max(1);
    let mut results = e4::run_sharded("C18", tier.as_str(), shards);
    let mut isolated = true;
    if results.is_none() {
        // no private network namespaces: run everything in this process, one sequence at a time
        isolated = false;
        let mut out = Vec::new();
        for (k, (ty, seq)) in cases.iter().enumerate() {
            let rt = e4::runtime(if seq.first() == Some(&MODE_AT_ONCE) { 0 } else { 2 });
            let viol = rt.block_on(run_sequence(*ty, seq));
            out.push(json!({"case": k, "findings": viol}));
        }
        e4::cleanup_ipc_dir();
        results = Some(out);
    }
    let mut results = results.unwrap();
    // simplest (shortest, earliest) case first: the first finding of a class is the one that is kept
    results.sort_by_key(|r| r["case"].as_u64().unwrap_or(u64::MAX));
    let mut done = 0u64;
    let mut lens: std::collections::BTreeMap<usize, u64> = Default::default();
    let mut skipped = 0u64;
    let mut budget_hit = false;
    for r in &results {
        if let Some(m) = r["machinery"].as_str() {
            ck.machinery_error(m.to_string());
            continue;
        }
        if let Some(n) = r["skipped"].as_u64() {
            skipped += n;
            budget_hit |= r["budget_exhausted"].as_bool().unwrap_or(false);
            continue;
        }
        let k = r["case"].as_u64().unwrap_or(0) as usize;
        done += 1;
        *lens.entry(cases[k].1.len()).or_insert(0) += 1;
        for f in r["findings"].as_array().cloned().unwrap_or_default() {
            let (ty, seq) = &cases[k];
            ck.finding(
                f[0].as_str().unwrap_or("?").to_string(),
                f[1].as_str().unwrap_or("").to_string(),
                json!({"engine":"E4","type": ty.name(), "ops": seq.iter().map(|o| OPS[*o as usize]).collect::<Vec<_>>()}),
            );
        }
    }
    if done + skipped != cases.len() as u64 {
        ck.machinery_error(format!("{} of {} sequences reported", done + skipped, cases.len()));
    }
    // accept() failing once on a bound endpoint (a process of its own: the descriptor limit is process-wide)
    let mut emfile_cases = 0u64;
    match e4::child_output(&["c18-emfile"], std::time::Duration::from_secs(900)) {
        Ok((true, stdout)) => {
            for l in stdout.lines() {
                let Ok(v) = serde_json::from_str::<Value>(l) else { continue };
                if let Some(n) = v["cases"].as_u64() {
                    emfile_cases = n;
                    continue;
                }
                if let Some(f) = v["finding"].as_array() {
                    let (c, m) = (f[0].as_str().unwrap_or("?"), f[1].as_str().unwrap_or(""));
                    if c == "machinery/accept-did-not-fail" {
                        ck.cov_add("accept_failure_cases_not_injected", 1);
                    } else if c.starts_with("machinery/") {
                        ck.machinery_error(m.to_string());
                    } else {
                        ck.finding(c.to_string(), m.to_string(), json!({"engine":"E4-emfile","type":v["type"],"ipc":v["ipc"]}));
                    }
                }
            }
        }
        Ok((false, _)) => ck.machinery_error("c18-emfile child exited abnormally".to_string()),
        Err(e) => ck.machinery_error(format!("c18-emfile child: {}", e)),
    }
    ck.cov("accept_failure_cases", emfile_cases);
    ck.cov("sequences_skipped_after_violations_or_budget", skipped);
    ck.cov("wall_budget_exhausted", budget_hit);
    ck.cov("evaluations", done);
    ck.cov("distinct_nontrivial", cases.iter().filter(|(_, s)| s.iter().any(|o| *o <= 3 || *o == 13)).count() as u64);
    ck.cov("sequences_by_length", json!(lens.iter().map(|(k, v)| (k.to_string(), *v)).collect::<std::collections::BTreeMap<_, _>>()));
    ck.cov("isolated_network_namespaces", isolated);
    ck.cov("exhaustive", skipped == 0);
    ck.cov("rule", format!("every sequence of length <= {} over the 11 operations {:?} and two more, \"bind-ipc-unusual-name\" (ipc names relative to a private working directory in five spellings: leading '@', plain relative, with a space, non-ASCII, 90+ characters; at most twice per sequence) \"bind-ipc-in-missing-directory\" (an ipc path whose directory does not exist: the bind may fail, changing nothing, or succeed, and is then an ordinary bound endpoint; at most twice per sequence) and \"silent-client-stays-on-oldest\" (a raw client connects, says nothing and stays; a well-behaved one right behind it must be served; at most once per sequence) (operations that need a bound endpoint or an established client are omitted where they would be no-ops; the last operation - 150 clients that close in mid-handshake one after the other, then a well-behaved one - at most once and in sequences of length <= {}) on a real REP and a real PULL socket on the real tokio runtime (multi-thread), plus every sequence of length <= {} over the bind/unbind operations alone in back-to-back mode on the current-thread runtime (no suspension point of the application between the calls, nothing a call spawned has been polled when the next call starts; model compared after the last call): {} sequences; distinct by construction; non-trivial = contains at least one bind. After EVERY operation: return value as the reference model says (wildcard port resolved non-zero, duplicate bind fails and changes nothing, unbind of anything not bound - an endpoint bound earlier, a far miss, and near misses of every bound endpoint (same port under another host name or address, same ipc path with a suffix) - fails with NoSuchBind and changes nothing), binds() equals the model's set, every bound endpoint accepts a fresh connection by its text form and completes a message exchange, every endpoint not bound (any more) refuses at once, connections established earlier keep working across later unbinds. Additionally, in a child process with a lowered descriptor limit: REP and PULL with two bound endpoints, accept() on one of them failing once for lack of descriptors - the endpoint stays in binds(), accepts a fresh connection afterwards and exchanges a message, the other endpoint is unaffected. Each worker process runs in its own network namespace so that no other process can take a port this check expects to be free.", tier.pick(4, 5), &OPS[..11], tier.pick(3, 4), tier.pick(3, 4), cases.len()));
    ck.sample(json!({"type":"REP","ops":["bind-tcp4","connect-in-each","unbind-oldest","exchange-established"]}));
    ck.assume("OS schedules are not enumerated; conditions the statement ties to a return are tested immediately after the return");
    ck.conclude()
}
