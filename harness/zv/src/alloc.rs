//! Counting global allocator with per-thread counters (used by C03's
//! allocation oracle: peak heap growth while feeding bytes).

use std::alloc::{GlobalAlloc, Layout, System};
use std::cell::Cell;

pub struct Counting;

thread_local! {
    static CUR: Cell<isize> = const { Cell::new(0) };
    static PEAK: Cell<isize> = const { Cell::new(0) };
    static BIGGEST: Cell<usize> = const { Cell::new(0) };
}

#[inline]
fn add(n: usize) {
    let _ = CUR.try_with(|c| {
        let v = c.get() + n as isize;
        c.set(v);
        let _ = PEAK.try_with(|p| {
            if v > p.get() {
                p.set(v);
            }
        });
    });
    let _ = BIGGEST.try_with(|b| {
        if n > b.get() {
            b.set(n);
        }
    });
}

#[inline]
fn sub(n: usize) {
    let _ = CUR.try_with(|c| c.set(c.get() - n as isize));
}

unsafe impl GlobalAlloc for Counting {
    unsafe fn alloc(&self, l: Layout) -> *mut u8 {
        let p = System.alloc(l);
        if !p.is_null() {
            add(l.size());
        }
        p
    }
    unsafe fn dealloc(&self, p: *mut u8, l: Layout) {
        System.dealloc(p, l);
        sub(l.size());
    }
    unsafe fn alloc_zeroed(&self, l: Layout) -> *mut u8 {
        let p = System.alloc_zeroed(l);
        if !p.is_null() {
            add(l.size());
        }
        p
    }
    unsafe fn realloc(&self, p: *mut u8, l: Layout, new: usize) -> *mut u8 {
        let q = System.realloc(p, l, new);
        if !q.is_null() {
            if new >= l.size() {
                add(new - l.size());
            } else {
                sub(l.size() - new);
            }
        }
        q
    }
}

/// Starts a measurement window on this thread.
pub fn mark() {
    CUR.with(|c| c.set(0));
    PEAK.with(|p| p.set(0));
    BIGGEST.with(|b| b.set(0));
}

/// Peak net heap growth (bytes) on this thread since `mark`, and the largest single request.
pub fn peak() -> (usize, usize) {
    (
        PEAK.with(|p| p.get()).max(0) as usize,
        BIGGEST.with(|b| b.get()),
    )
}

/// Net bytes allocated minus freed on this thread since `mark`.
pub fn net() -> isize {
    CUR.with(|c| c.get())
}
