//! C16 — a failed or closed peer is isolated, forgotten, and its connection released (E3).

use crate::e1::{frames_of, msg};
use crate::e3::{self, AnySocket, Ty, ALL_TYPES};
use serde_json::{json, Value};
use zvcore::evidence::{Check, Tier};
use zvcore::explore::{Job, Verdict};
use zvcore::refcodec as rc;
use zvcore::world::{self, Chunk, WMode};

/// 0 Close: end-of-stream towards the socket, writes to the peer fail from then on
/// 1 Reset: read error (connection reset), writes fail with ConnectionReset (not BrokenPipe)
/// 2 WriteFail: nothing to read any more, the next library write fails
/// 4 / 5: like 2, the writes failing with ConnectionReset / TimedOut (what the first write after a peer's RST, or a
///   connection that timed out, answers) - an error kind is not a reason to treat the other peers differently
/// 3 HalfClose: end-of-stream towards the socket while writes are still accepted (what the first writes after a
///   peer's FIN do: the kernel takes them); only the read side tells the socket that the peer is gone
#[derive(Clone, Debug)]
pub struct Params {
    pub ty: Ty,
    pub cut: usize,
    pub fault: u8,
    pub live_first: bool,
    pub policy: u8,
    /// key of the peer table's hasher: decides which of the two peers a walk over the table meets first
    pub hash_key: u64,
    /// the connection ends late: after the live peer's traffic has been received, inside a recv call that then stays
    /// pending and is abandoned (no later recv call follows the one that saw the end)
    pub late: bool,
}

fn victim_messages(ty: Ty) -> Vec<Vec<Vec<u8>>> {
    match ty {
        Ty::Rep | Ty::Req => vec![vec![vec![], b"v0".to_vec()], vec![vec![], b"v1".to_vec(), b"v1b".to_vec()]],
        Ty::Pub | Ty::XPub => vec![vec![vec![1u8]], vec![vec![1u8, b'z'], b"x".to_vec()]],
        _ => vec![vec![b"v0".to_vec()], vec![b"v1".to_vec(), vec![], b"v1c".to_vec()]],
    }
}

fn live_messages(ty: Ty) -> Vec<Vec<Vec<u8>>> {
    match ty {
        Ty::Rep | Ty::Req => vec![vec![vec![], b"l0".to_vec()], vec![vec![], b"l1".to_vec()], vec![vec![], b"l2".to_vec()]],
        Ty::Pub | Ty::XPub => vec![vec![vec![1u8]], vec![vec![1u8, b'l']], vec![vec![1u8, b'm']]],
        _ => vec![vec![b"l0".to_vec()], vec![b"l1".to_vec()], vec![b"l2".to_vec(), b"l2b".to_vec()]],
    }
}

pub fn victim_stream(ty: Ty) -> (Vec<u8>, usize) {
    let hs = rc::handshake(ty.peer_type(), Some(b"V"));
    let hs_len = hs.len();
    let mut s = hs;
    for m in victim_messages(ty) {
        s.extend(rc::encode_message(&m));
    }
    (s, hs_len)
}

pub fn scenario(pr: &Params) -> Verdict {
    world::reset(world::WorldCfg { nested_env: false, yields: false, select: true, policy: pr.policy, coop: false });
    e3::set_hash_key(pr.hash_key);
    let ty = pr.ty;
    let (vs, hs_len) = victim_stream(ty);
    let victim = e3::raw_conn("V");
    let live = e3::raw_conn("L");
    victim.send(&vs[..pr.cut.min(vs.len())]);
    if pr.late {
        victim.gate("late-fault");
    }
    match pr.fault {
        0 | 3 => {
            victim.eof();
        }
        1 => world::push_chunk(victim.to_lib, Chunk::Err(std::io::ErrorKind::ConnectionReset)),
        _ => {}
    }
    // writes fail once the fault has happened: modelled as failing from the moment the cut data has been delivered
    // (the scripted mode change is an environment event that becomes enabled at the start; gate it behind the delivery)
    live.send(&rc::handshake(ty.peer_type(), Some(b"L")));
    let lm = live_messages(ty);
    live.send(&rc::encode_message(&lm[0]));
    live.gate("after-cut");
    live.send(&rc::encode_message(&lm[1]));
    live.send(&rc::encode_message(&lm[2]));
    if ty == Ty::Req {
        e3::make_echo_peer(live);
        e3::make_echo_peer(victim);
    }
    let handshake_stage = pr.cut < hs_len;
    let sock = AnySocket::new(ty, None);
    let be = sock.backend();
    let vid = std::rc::Rc::new(std::cell::RefCell::new(None::<Vec<u8>>));
    let attach_v = {
        let be = be.clone();
        let vid = vid.clone();
        async move {
            let r = e3::attach_raw(be, victim).await;
            world::log(format!("attach(V) -> {}", e3::ok_or_err(&r)));
            if let Ok(id) = r {
                *vid.borrow_mut() = Some(id.to_vec());
            }
            world::set_cond("v-attach-returned");
        }
    };
    let attach_l = {
        let be = be.clone();
        async move {
            let r = e3::attach_raw(be, live).await;
            world::log(format!("attach(L) -> {}", e3::ok_or_err(&r)));
            world::set_cond("l-attached");
        }
    };
    if pr.live_first {
        world::spawn_app("attach-L", attach_l);
        world::spawn_app("attach-V", attach_v);
    } else {
        world::spawn_app("attach-V", attach_v);
        world::spawn_app("attach-L", attach_l);
    }
    let recvs = std::rc::Rc::new(std::cell::RefCell::new(Vec::<Result<Vec<Vec<u8>>, String>>::new()));
    let sends = std::rc::Rc::new(std::cell::RefCell::new(Vec::<(String, bool, usize, usize)>::new()));
    let (recvs2, sends2, vid2) = (recvs.clone(), sends.clone(), vid.clone());
    let fault = pr.fault;
    let late = pr.late;
    world::spawn_app("app", async move {
        let mut sock = sock;
        world::wait_cond("l-attached").await;
        // let the cut happen (everything the victim will ever send has been delivered, the fault too)
        world::idle().await;
        // from now on the victim's connection does not accept writes
        // (after a reset the kernel answers writes with ECONNRESET, after an orderly close with EPIPE)
        if fault != 3 {
            world::set_wmode(victim.from_lib, WMode::Fail(match fault { 1 | 4 => std::io::ErrorKind::ConnectionReset, 5 => std::io::ErrorKind::TimedOut, _ => std::io::ErrorKind::BrokenPipe }));
        }
        let phase = |label: &str| world::log(format!("-- {}", label));
        phase("recv until idle");
        if ty.can_recv() && ty != Ty::Req {
            for _ in 0..12 {
                match world::until_idle(sock.recv()).await {
                    Some(r) => {
                        world::log(format!("recv -> {}", e3::show_result(&r)));
                        recvs2.borrow_mut().push(r.map(|m| frames_of(&m)).map_err(|e| e3::err_class(&e)));
                    }
                    None => break,
                }
            }
        } else {
            world::idle().await;
        }
        world::set_cond("after-cut");
        phase("live peer continues");
        if ty.can_recv() && ty != Ty::Req {
            for _ in 0..12 {
                match world::until_idle(sock.recv()).await {
                    Some(r) => {
                        world::log(format!("recv -> {}", e3::show_result(&r)));
                        recvs2.borrow_mut().push(r.map(|m| frames_of(&m)).map_err(|e| e3::err_class(&e)));
                    }
                    None => break,
                }
            }
        } else {
            world::idle().await;
        }
        if late {
            phase("the connection ends inside a recv call that stays pending and is abandoned");
            world::set_cond("late-fault");
            if ty.can_recv() && ty != Ty::Req {
                match world::until_idle(sock.recv()).await {
                    Some(r) => {
                        world::log(format!("recv -> {}", e3::show_result(&r)));
                        recvs2.borrow_mut().push(r.map(|m| frames_of(&m)).map_err(|e| e3::err_class(&e)));
                    }
                    None => world::log("recv -> pending (abandoned)"),
                }
            } else {
                world::idle().await;
            }
        }
        phase("sends");
        // "victim wire" counts what the library tried to put on the dead connection: bytes accepted plus refused write calls
        let wire = |c: e3::RawConn| world::tap_len(c.from_lib) + world::write_errors(c.from_lib) as usize;
        let do_send = |name: String, r: zeromq::ZmqResult<()>, vb: usize, lb: usize| {
            let vg = wire(victim) - vb;
            let lg = wire(live) - lb;
            world::log(format!("send {} -> {} (victim wire +{}, live wire +{})", name, e3::ok_or_err(&r), vg, lg));
            sends2.borrow_mut().push((name, r.is_ok(), vg, lg));
        };
        match ty {
            Ty::Push | Ty::Dealer => {
                for i in 0..5 {
                    let (vb, lb) = (wire(victim), wire(live));
                    world::yield_now().await; // time passes between two calls of the application
                    let r = sock.send(msg(&[format!("s{}", i).into_bytes()])).await;
                    do_send(format!("#{}", i), r, vb, lb);
                }
            }
            Ty::Req => {
                for i in 0..5 {
                    let (vb, lb) = (wire(victim), wire(live));
                    world::yield_now().await; // time passes between two calls of the application
                    let r = sock.send(msg(&[format!("s{}", i).into_bytes()])).await;
                    let ok = r.is_ok();
                    do_send(format!("#{}", i), r, vb, lb);
                    if ok {
                        let rr = world::until_idle(sock.recv()).await;
                        world::log(format!("recv -> {}", rr.as_ref().map(e3::show_result).unwrap_or_else(|| "pending".into())));
                        match rr {
                            Some(r) => recvs2.borrow_mut().push(r.map(|m| frames_of(&m)).map_err(|e| e3::err_class(&e))),
                            None => recvs2.borrow_mut().push(Err("PENDING-FOREVER".into())),
                        }
                    }
                }
            }
            Ty::Pub | Ty::XPub => {
                for i in 0..3 {
                    let (vb, lb) = (wire(victim), wire(live));
                    world::yield_now().await; // time passes between two calls of the application
                    let r = sock.send(msg(&[format!("news{}", i).into_bytes()])).await;
                    do_send(format!("publish#{}", i), r, vb, lb);
                }
            }
            Ty::Router => {
                let v = vid2.borrow().clone();
                if let Some(v) = v {
                    for i in 0..2 {
                        let (vb, lb) = (wire(victim), wire(live));
                        world::yield_now().await; // time passes between two calls of the application
                        let r = sock.send(msg(&[v.clone(), format!("to-victim{}", i).into_bytes()])).await;
                        do_send(format!("to-victim#{}", i), r, vb, lb);
                    }
                }
                let (vb, lb) = (wire(victim), wire(live));
                world::yield_now().await; // time passes between two calls of the application
                let r = sock.send(msg(&[b"L".to_vec(), b"to-live".to_vec()])).await;
                do_send("to-live".into(), r, vb, lb);
            }
            Ty::Rep => {
                // reply to the last request received (the live peer's)
                let (vb, lb) = (wire(victim), wire(live));
                world::yield_now().await; // time passes between two calls of the application
                let r = sock.send(msg(&[b"reply".to_vec()])).await;
                do_send("reply".into(), r, vb, lb);
            }
            Ty::Sub => {
                // the subscription changes that follow must reach the live publisher whatever happened to the other one
                for (i, (subscribe, topic)) in [(true, "n0"), (true, "n1"), (false, "n0")].into_iter().enumerate() {
                    let (vb, lb) = (wire(victim), wire(live));
                    world::yield_now().await;
                    let r = match &mut sock {
                        AnySocket::Sub(s) => {
                            if subscribe {
                                s.subscribe(topic).await
                            } else {
                                s.unsubscribe(topic).await
                            }
                        }
                        _ => unreachable!(),
                    };
                    do_send(format!("{}#{}({})", if subscribe { "subscribe" } else { "unsubscribe" }, i, topic), r, vb, lb);
                }
            }
            _ => {}
        }
        let _ = fault;
        world::idle().await;
        world::set_cond("done");
        world::wait_cond("never").await;
        drop(sock);
    });
    let end = world::run(e3::HORIZON);
    let mut v = Verdict::default();
    v.truncated = end != world::RunEnd::Quiescent;
    let what = format!(
        "{} socket, victim's stream ({} bytes: handshake {} + 2 messages) cut at offset {} by {}, live peer {}",
        ty.name(),
        vs.len(),
        hs_len,
        pr.cut,
        ["close (EOF, writes fail)", "reset (read error, writes fail)", "silence + failing writes (EPIPE)", "half-close (EOF, writes still accepted)", "silence + failing writes (ECONNRESET)", "silence + failing writes (ETIMEDOUT)"][pr.fault as usize],
        if pr.live_first { "attached first" } else { "attached second" }
    ) + if pr.late { " (the end comes after the live peer's traffic, inside a recv call that stays pending and is abandoned)" } else { "" };
    for p in world::panics() {
        v.violate("panic", format!("{}: {}", what, p));
    }
    if v.truncated {
        v.violate(format!("spin/{}", ty.name()), format!("{}: the socket keeps running without reaching quiescence ({} steps)", what, e3::HORIZON));
    }
    let log = world::log_snapshot();
    let v_attach_ok = log.iter().any(|l| l.contains("attach(V) -> Ok"));
    let v_attach_returned = world::cond("v-attach-returned");
    let recvs = recvs.borrow().clone();
    let sends = sends.borrow().clone();
    let fault_name = ["close", "reset", "writefail", "halfclose", "writefail-reset", "writefail-timedout"][pr.fault as usize];
    if world::panics().is_empty() && !v.truncated {
        if !world::cond("done") {
            v.violate(format!("app-stuck/{}", ty.name()), format!("{}: the application's calls did not all return", what));
        }
        if handshake_stage && !matches!(pr.fault, 2 | 4 | 5) {
            if v_attach_ok {
                v.violate("handshake-cut-admitted", format!("{}: attach succeeded although the peer's handshake was cut short", what));
            } else if !v_attach_returned {
                v.violate("handshake-cut-hangs", format!("{}: attach neither failed nor succeeded after the connection ended", what));
            } else if !victim.released() {
                v.violate("handshake-cut-connection-not-released", format!("{}: attach failed but the connection halves are still held", what));
            }
        }
        // live peer unaffected
        let lm = live_messages(ty);
        let expect_live: Vec<Vec<Vec<u8>>> = lm
            .iter()
            .map(|m| match ty {
                Ty::Rep => m[1..].to_vec(),
                Ty::Router => {
                    let mut x = vec![b"L".to_vec()];
                    x.extend(m.clone());
                    x
                }
                _ => m.clone(),
            })
            .collect();
        if ty.can_recv() && ty != Ty::Req {
            // the live peer's messages must appear, in order, among the successful recv results
            // (the victim may have sent identical-looking ones before it was cut)
            let oks: Vec<&Vec<Vec<u8>>> = recvs.iter().filter_map(|r| r.as_ref().ok()).collect();
            let mut k = 0;
            let mut got_live: Vec<Vec<Vec<u8>>> = Vec::new();
            for m in &oks {
                if k < expect_live.len() && **m == expect_live[k] {
                    got_live.push((*m).clone());
                    k += 1;
                }
            }
            let victim_complete = victim_messages(ty).len();
            if got_live != expect_live || oks.len() > expect_live.len() + victim_complete {
                v.violate(format!("live-peer-affected/{}", ty.name()), format!("{}: of the live peer's {} messages recv returned {:?}", what, expect_live.len(), got_live.iter().map(|m| rc::show_frames(m)).collect::<Vec<_>>()));
            }
            let errs: Vec<&String> = recvs.iter().filter_map(|r| r.as_ref().err()).collect();
            if errs.len() > 1 {
                v.violate(format!("more-than-one-error/{}", ty.name()), format!("{}: recv reported {} errors for one connection event: {:?}", what, errs.len(), errs));
            }
        }
        // sends after the end was observed
        if !handshake_stage || matches!(pr.fault, 2 | 4 | 5) {
            match ty {
                Ty::Push | Ty::Dealer | Ty::Req => {
                    // at most one send may fail on the dead connection (that is how a write-only socket observes it); afterwards everything goes to the live peer
                    let fails = sends.iter().filter(|s| !s.1).count();
                    let to_victim_after_first_failure = sends.iter().skip_while(|s| s.1).skip(1).any(|s| s.2 > 0 || !s.1);
                    // the dead connection is tried at most once (a socket that had no occasion to see the end finds out by
                    // writing); a socket whose recv already saw the end does not try it at all
                    let attempts = sends.iter().filter(|s| s.2 > 0).count();
                    let seen_by_recv = ty == Ty::Dealer && !matches!(pr.fault, 2 | 4 | 5);
                    if fails > 1 || to_victim_after_first_failure || attempts > if seen_by_recv { 0 } else { 1 } {
                        v.violate(format!("send-routed-to-dead-peer/{}", ty.name()), format!("{}: sends after the connection ended: {:?} (name, ok, victim wire growth, live wire growth)", what, sends));
                    }
                    if ty == Ty::Req && recvs.iter().any(|r| r.as_ref().err().map(|e| e == "PENDING-FOREVER").unwrap_or(false)) {
                        v.violate("req-waits-for-dead-peer", format!("{}: a request was sent to the dead connection and recv waits for ever", what));
                    }
                }
                Ty::Pub | Ty::XPub => {
                    // a publisher reads its subscribers' connections all the time, so it has seen a close or reset; failing
                    // writes alone are found out by the first publish
                    if sends.iter().filter(|s| s.2 > 0).count() > if matches!(pr.fault, 2 | 4 | 5) { 1 } else { 0 } {
                        v.violate(format!("publish-written-to-dead-peer/{}", ty.name()), format!("{}: {:?}", what, sends));
                    }
                    // the live subscriber (subscribed to everything) gets every publish
                    if sends.iter().filter(|s| s.0.starts_with("publish")).any(|s| s.3 == 0) {
                        v.violate(format!("live-subscriber-affected/{}", ty.name()), format!("{}: {:?}", what, sends));
                    }
                }
                Ty::Sub => {
                    // every change of the subscription set reaches the live publisher, whatever the call returned
                    if !matches!(pr.fault, 2 | 4 | 5) && sends.iter().any(|s| s.2 > 0) {
                        v.violate("subscription-written-to-dead-peer/SUB", format!("{}: {:?} (call, ok, victim wire growth, live wire growth)", what, sends));
                    }
                    if sends.iter().any(|s| s.3 == 0) {
                        v.violate("live-publisher-not-told/SUB", format!("{}: subscription changes after the connection ended: {:?} (call, ok, victim wire growth, live wire growth)", what, sends));
                    }
                }
                Ty::Router => {
                    // a close or reset has been seen by recv: no send to that identity is accepted any more;
                    // failing writes alone are found out by the first send
                    if sends.iter().filter(|s| s.0.starts_with("to-victim")).skip(if matches!(pr.fault, 2 | 4 | 5) { 1 } else { 0 }).any(|s| s.1) {
                        v.violate("router-send-to-dead-peer-accepted", format!("{}: {:?}", what, sends));
                    }
                    if sends.iter().any(|s| s.0 == "to-live" && (!s.1 || s.3 == 0)) {
                        v.violate("live-peer-affected/ROUTER-send", format!("{}: {:?}", what, sends));
                    }
                }
                _ => {}
            }
        }
        // released
        // what the socket can have observed: a read-side event needs a socket that reads (PUSH never does);
        // a write-side failure needs the library to have written to the dead connection
        let wrote_and_failed = world::write_errors(victim.from_lib) > 0;
        let observable = match (ty, pr.fault) {
            (Ty::Push, _) => wrote_and_failed,
            (_, 2) | (_, 4) | (_, 5) => wrote_and_failed,
            _ => true,
        } && v_attach_ok;
        if observable && !victim.released() && !(handshake_stage && !matches!(pr.fault, 2 | 4 | 5)) {
            let which = match (world::reader_dropped(victim.to_lib).is_some(), world::writer_dropped(victim.from_lib).is_some()) {
                (false, false) => "both-halves",
                (true, false) => "write-half",
                (false, true) => "read-half",
                _ => "",
            };
            v.violate(
                format!("leak/{}/{}/{}/{}", ty.name(), fault_name, if handshake_stage { "handshake" } else if pr.cut == vs.len() || frame_boundary(ty, pr.cut) { "between-messages" } else { "mid-message" }, which),
                format!("{}: at final quiescence the socket still holds the {} of the dead connection", what, which.replace('-', " ")),
            );
        }
    }
    let canon: Vec<String> = recvs.iter().map(|r| match r {
        Ok(m) => rc::show_frames(m),
        Err(e) => format!("E:{}", e),
    }).chain(sends.iter().map(|s| format!("{}:{}:{}:{}", s.0, s.1, s.2 > 0, s.3 > 0))).collect();
    v.outcome_hash = rc::fnv(canon.join("|").as_bytes()) ^ (victim.released() as u64);
    e3::finish(v)
}

fn frame_boundary(ty: Ty, cut: usize) -> bool {
    let (vs, hs_len) = victim_stream(ty);
    if cut == hs_len {
        return true;
    }
    let mut p = hs_len;
    for m in victim_messages(ty) {
        p += rc::encode_message(&m).len();
        if cut == p {
            return true;
        }
    }
    cut >= vs.len()
}

pub fn pj(p: &Params) -> Value {
    json!({"type": p.ty.name(), "cut": p.cut, "fault": p.fault, "live_first": p.live_first, "policy": p.policy, "hash_key": p.hash_key, "late": p.late})
}

pub fn pf(v: &Value) -> Option<Params> {
    Some(Params {
        ty: Ty::from_name(v["type"].as_str()?)?,
        cut: v["cut"].as_u64()? as usize,
        fault: v["fault"].as_u64()? as u8,
        live_first: v["live_first"].as_bool()?,
        policy: v["policy"].as_u64().unwrap_or(0) as u8,
        hash_key: v["hash_key"].as_u64().unwrap_or(0),
        late: v["late"].as_bool().unwrap_or(false),
    })
}

pub fn jobs(tier: Tier) -> Vec<Job> {
    let mut jobs = Vec::new();
    for ty in ALL_TYPES {
        let (vs, hs_len) = victim_stream(ty);
        for cut in 0..=vs.len() {
            for fault in 0..6u8 {
                // a half-close only tells sockets that read, and only once the peer has been admitted
                if fault == 3 && (matches!(ty, Ty::Push | Ty::Req) || cut < hs_len) {
                    continue;
                }
                // the other write-error kinds: for sockets that write, at the cuts between messages
                if fault >= 4 && (!ty.can_send() && ty != Ty::Sub || !(cut == hs_len || cut == vs.len() || frame_boundary(ty, cut))) {
                    continue;
                }
                for live_first in [false, true] {
                    if live_first && tier == Tier::Quick && !(cut >= hs_len) {
                        continue;
                    }
                    // sockets that walk their peer table (publish, subscribe) meet the two peers in hash order: both orders
                    let keys: &[u64] = if matches!(ty, Ty::Sub | Ty::Pub | Ty::XPub) && cut >= hs_len { &[0, 1, 2, 3] } else { &[0] };
                    for &hash_key in keys {
                        let pr = Params { ty, cut, fault, live_first, policy: 0, hash_key, late: false };
                        let pr2 = pr.clone();
                        let bound = if cut >= hs_len { tier.pick(2, 3) } else { tier.pick(1, 2) };
                        let bound = if hash_key > 0 { bound.min(tier.pick(1, 2)) } else { bound };
                        jobs.push(e3::job(format!("C16/{}/cut{}/fault{}/{}/key{}", ty.name(), cut, fault, live_first, hash_key), pj(&pr), bound, tier.pick(30_000, 400_000), move || scenario(&pr2)));
                    }
                }
            }
        }
    }
    // the end comes late, inside the last recv call
    for ty in ALL_TYPES {
        let (vs, hs_len) = victim_stream(ty);
        for cut in hs_len..=vs.len() {
            if !(cut == hs_len || cut == hs_len + 1 || cut == vs.len() || cut + 1 == vs.len() || frame_boundary(ty, cut)) && tier == Tier::Quick {
                continue;
            }
            for fault in [0u8, 1, 3] {
                if fault == 3 && matches!(ty, Ty::Push | Ty::Req) {
                    continue;
                }
                let pr = Params { ty, cut, fault, live_first: false, policy: 0, hash_key: 0, late: true };
                let pr2 = pr.clone();
                jobs.push(e3::job(format!("C16/{}/cut{}/fault{}/late", ty.name(), cut, fault), pj(&pr), tier.pick(1, 2), tier.pick(30_000, 400_000), move || scenario(&pr2)));
            }
        }
    }
    jobs
}

// ------------------------------------------------------------------ E4: descriptor cycles on real transports

fn count_fds() -> usize {
    std::fs::read_dir("/proc/self/fd").map(|d| d.count()).unwrap_or(0)
}

async fn fd_case(ty: Ty, tr: crate::e4::Tr, reset: bool, cycles: usize) -> Option<(String, String)> {
    use crate::e4::{self, RawStream};
    use std::time::Duration;
    let what = format!("{} over {}: {} cycles of connect, handshake, traffic, {}", ty.name(), tr.name(), cycles, if reset { "abortive close (RST)" } else { "orderly close" });
    let mut sock = AnySocket::new_unmonitored(ty, None);
    // a monitor is installed (and kept, never drained) so that the event paths run too
    let _monitor = sock.monitor();
    sock.subscribe_all().await;
    let ep = match sock.bind(&e4::bind_spec(tr)).await {
        Ok(e) => e,
        Err(e) => return Some(("machinery/bind".into(), format!("{}: {}", what, e))),
    };
    let mut baseline = 0usize;
    for cycle in 0..cycles + 3 {
        if cycle == 3 {
            // the first cycles let lazily created descriptors appear
            tokio::time::sleep(Duration::from_millis(30)).await;
            baseline = count_fds();
        }
        let mut c = match RawStream::connect(&ep).await {
            Ok(c) => c,
            Err(e) => return Some(("machinery/connect".into(), format!("{}: {}", what, e))),
        };
        if e4::raw_handshake(&mut c, ty.peer_type(), None).await.is_err() {
            return Some(("machinery/handshake".into(), what));
        }
        if ty.can_recv() && ty != Ty::Req {
            let _ = c.write_all(&rc::encode_message(&e4::peer_message(ty, "x"))).await;
            let _ = tokio::time::timeout(Duration::from_millis(500), sock.recv()).await;
        } else if matches!(ty, Ty::Pub) {
            let _ = c.write_all(&rc::encode_message(&[vec![1u8]])).await;
            tokio::time::sleep(Duration::from_millis(2)).await;
        }
        // the peer goes away
        if reset {
            if let RawStream::Tcp(s) = &c {
                #[allow(deprecated)]
                let _ = s.set_linger(Some(Duration::ZERO));
            }
        }
        drop(c);
        tokio::time::sleep(Duration::from_millis(2)).await;
        // give the socket the chance to observe it the way its type can
        if ty.can_recv() && ty != Ty::Req {
            let _ = tokio::time::timeout(Duration::from_millis(20), sock.recv()).await;
        }
        if matches!(ty, Ty::Push | Ty::Dealer | Ty::Req | Ty::Pub | Ty::XPub) {
            for _ in 0..2 {
                let _ = tokio::time::timeout(Duration::from_millis(200), sock.send(crate::e1::msg(&[b"probe".to_vec()]))).await;
                if ty == Ty::Req {
                    let _ = tokio::time::timeout(Duration::from_millis(20), sock.recv()).await;
                }
            }
        }
    }
    let (ok, _) = e4::await_cond(e4::HORIZON, || count_fds() <= baseline).await;
    let now = count_fds();
    let _ = sock.close().await;
    if !ok {
        return Some((
            format!("fd-leak/{}/{}", ty.name(), if reset { "reset" } else { "close" }),
            format!("{}: {} descriptors open before the cycles, {} afterwards ({} s later): the socket accumulates dead connections", what, baseline, now, e4::HORIZON.as_secs()),
        ));
    }
    None
}

/// The same from the connecting side: the socket connects out to a raw listener, again and again; every other cycle the
/// listener's side closes in mid-handshake instead (connect() must fail), the others handshake, exchange traffic and
/// close. Descriptors must return to the baseline.
async fn fd_case_outbound(ty: Ty, tr: crate::e4::Tr, cycles: usize) -> Option<(String, String)> {
    use crate::e4::{self, RawStream};
    use std::time::Duration;
    let what = format!("{} over {}: {} cycles of connect() out to a raw listener (every other one closing in mid-handshake), traffic, orderly close by the peer", ty.name(), tr.name(), cycles);
    let mut sock = AnySocket::new_unmonitored(ty, None);
    let _monitor = sock.monitor();
    sock.subscribe_all().await;
    let (tcp_l, unix_l, ep_text) = match tr {
        e4::Tr::Ipc => {
            let p = e4::ipc_path();
            let l = tokio::net::UnixListener::bind(&p).expect("raw unix listener");
            (None, Some(l), format!("ipc://{}", p.display()))
        }
        _ => {
            let l = tokio::net::TcpListener::bind(if tr == e4::Tr::Tcp4 { "127.0.0.1:0" } else { "[::1]:0" }).await.expect("raw tcp listener");
            let port = l.local_addr().unwrap().port();
            (Some(l), None, if tr == e4::Tr::Tcp4 { format!("tcp://127.0.0.1:{}", port) } else { format!("tcp://[::1]:{}", port) })
        }
    };
    let mut baseline = 0usize;
    for cycle in 0..cycles + 4 {
        if cycle == 4 {
            tokio::time::sleep(Duration::from_millis(30)).await;
            baseline = count_fds();
        }
        let bad = cycle % 2 == 1;
        let accept = async {
            let mut s = if let Some(l) = &tcp_l { RawStream::Tcp(l.accept().await.expect("accept").0) } else { RawStream::Unix(unix_l.as_ref().unwrap().accept().await.expect("accept").0) };
            if bad {
                let _ = s.write_all(&rc::default_greeting()[..20]).await;
                return None;
            }
            match e4::raw_handshake(&mut s, ty.peer_type(), None).await {
                Ok(_) => Some(s),
                Err(_) => None,
            }
        };
        let (conn, peer) = tokio::join!(tokio::time::timeout(e4::HORIZON, sock.connect(&ep_text)), accept);
        match (bad, &conn) {
            (true, Ok(Ok(()))) => return Some((format!("outbound/connect-succeeded-without-handshake/{}", ty.name()), format!("{}: connect() returned Ok although the listener's side closed after 20 bytes of its greeting", what))),
            (_, Err(_)) => return Some((format!("outbound/connect-hangs/{}", ty.name()), format!("{}: connect() did not return within {} s (cycle {}, peer {})", what, e4::HORIZON.as_secs(), cycle, if bad { "closing in mid-handshake" } else { "well-behaved" }))),
            (false, Ok(Err(e))) => return Some(("machinery/connect-out".into(), format!("{}: connect() to a well-behaved listener failed: {}", what, e))),
            _ => {}
        }
        if let Some(mut c) = peer {
            if ty.can_recv() && ty != Ty::Req {
                let _ = c.write_all(&rc::encode_message(&e4::peer_message(ty, "x"))).await;
                let _ = tokio::time::timeout(Duration::from_millis(500), sock.recv()).await;
            } else if matches!(ty, Ty::Pub) {
                let _ = c.write_all(&rc::encode_message(&[vec![1u8]])).await;
                tokio::time::sleep(Duration::from_millis(2)).await;
            }
            drop(c);
        }
        tokio::time::sleep(Duration::from_millis(2)).await;
        if ty.can_recv() && ty != Ty::Req {
            let _ = tokio::time::timeout(Duration::from_millis(20), sock.recv()).await;
        }
        if matches!(ty, Ty::Push | Ty::Dealer | Ty::Req | Ty::Pub | Ty::XPub) {
            for _ in 0..2 {
                let _ = tokio::time::timeout(Duration::from_millis(200), sock.send(crate::e1::msg(&[b"probe".to_vec()]))).await;
                if ty == Ty::Req {
                    let _ = tokio::time::timeout(Duration::from_millis(20), sock.recv()).await;
                }
            }
        }
    }
    let (ok, _) = e4::await_cond(e4::HORIZON, || count_fds() <= baseline).await;
    let now = count_fds();
    let _ = sock.close().await;
    if !ok {
        return Some((format!("fd-leak/{}/outbound", ty.name()), format!("{}: {} descriptors open before the cycles, {} afterwards ({} s later): the socket accumulates dead connections", what, baseline, now, e4::HORIZON.as_secs())));
    }
    None
}

pub fn child_fd(tier: Tier) -> i32 {
    let cycles = tier.pick(12usize, 50usize);
    let mut n = 0;
    for ty in ALL_TYPES {
        for tr in [crate::e4::Tr::Tcp4, crate::e4::Tr::Tcp6, crate::e4::Tr::Ipc] {
            for reset in [false, true] {
                if reset && tr == crate::e4::Tr::Ipc {
                    continue;
                }
                n += 1;
                let r = crate::e4::block_on_deadline(2, crate::e4::CASE_DEADLINE, move || async move { fd_case(ty, tr, reset, cycles).await });
                let hung = r.is_none();
                let r = r.unwrap_or_else(|| Some((format!("runtime-hung/{}", ty.name()), format!("{} over {}: connect/traffic/disconnect cycles did not come back within {} s: a runtime thread is blocked for ever", ty.name(), tr.name(), crate::e4::CASE_DEADLINE.as_secs()))));
                println!("{}", json!({"type": ty.name(), "transport": tr.name(), "reset": reset, "cycles": cycles, "finding": r}));
                if hung {
                    // descriptor counts are meaningless with a stuck runtime in the process: stop here
                    crate::e4::cleanup_ipc_dir();
                    println!("{}", json!({"cases": n}));
                    use std::io::Write;
                    let _ = std::io::stdout().flush();
                    std::process::exit(0);
                }
            }
        }
    }
    // the connecting side
    for ty in ALL_TYPES {
        for tr in [crate::e4::Tr::Tcp4, crate::e4::Tr::Tcp6, crate::e4::Tr::Ipc] {
            n += 1;
            let r = crate::e4::block_on_deadline(2, crate::e4::CASE_DEADLINE, move || async move { fd_case_outbound(ty, tr, cycles).await });
            let hung = r.is_none();
            let r = r.unwrap_or_else(|| Some((format!("runtime-hung/{}", ty.name()), format!("{} over {}: outbound connect cycles did not come back within {} s: a runtime thread is blocked for ever", ty.name(), tr.name(), crate::e4::CASE_DEADLINE.as_secs()))));
            println!("{}", json!({"type": ty.name(), "transport": tr.name(), "reset": false, "outbound": true, "cycles": cycles, "finding": r}));
            if hung {
                crate::e4::cleanup_ipc_dir();
                println!("{}", json!({"cases": n}));
                use std::io::Write;
                let _ = std::io::stdout().flush();
                std::process::exit(0);
            }
        }
    }
    crate::e4::cleanup_ipc_dir();
    println!("{}", json!({"cases": n}));
    0
}

pub fn run(tier: Tier, replay: Option<String>) -> i32 {
    world::install_panic_hook();
    let mut ck = Check::new("C16", tier, "model_checking");
    if let Some(path) = replay {
        let v: Value = serde_json::from_str(&std::fs::read_to_string(&path).expect("read")).expect("json");
        if v["replay"]["engine"] == "E4" {
            let r = &v["replay"];
            let rt = crate::e4::runtime(2);
            let out = rt.block_on(fd_case(Ty::from_name(r["type"].as_str().unwrap()).unwrap(), crate::e4::Tr::from_name(r["transport"].as_str().unwrap()).unwrap(), r["reset"].as_bool().unwrap(), r["cycles"].as_u64().unwrap() as usize));
            crate::e4::cleanup_ipc_dir();
            return match out {
                Some((c, m)) => {
                    println!("replay: VIOLATION {}: {}", c, m);
                    1
                }
                None => {
                    println!("replay: holds");
                    0
                }
            };
        }
        return crate::replay::replay_e3(&v, |p| {
            let pr = pf(p)?;
            Some(std::sync::Arc::new(move || scenario(&pr)) as zvcore::explore::Scenario)
        });
    }
    let js = jobs(tier);
    let n = js.len() as u64;
    e3::run_jobs_into(&mut ck, js, true);
    // E4: descriptor cycles on the real transports, in a child process (descriptor counts are per process)
    let mut fd_cases = 0u64;
    {
        match crate::e4::child_output(&["c16-fd", tier.as_str()], std::time::Duration::from_secs(1800)) {
            Ok((true, stdout)) => {
                for l in stdout.lines() {
                    let Ok(v) = serde_json::from_str::<Value>(l) else { continue };
                    if let Some(n) = v["cases"].as_u64() {
                        fd_cases = n;
                        continue;
                    }
                    if let Some(f) = v["finding"].as_array() {
                        let (c, m) = (f[0].as_str().unwrap_or("?"), f[1].as_str().unwrap_or(""));
                        if c.starts_with("machinery/") {
                            ck.machinery_error(m.to_string());
                        } else {
                            ck.finding(c.to_string(), m.to_string(), json!({"engine":"E4","type":v["type"],"transport":v["transport"],"reset":v["reset"],"outbound":v["outbound"],"cycles":v["cycles"]}));
                        }
                    }
                }
            }
            Ok((false, _)) => ck.machinery_error("c16-fd child exited abnormally".to_string()),
            Err(e) => ck.machinery_error(format!("c16-fd child: {}", e)),
        }
    }
    ck.cov("e4_descriptor_cycle_cases", fd_cases);
    let ex = ck.coverage.get("e3_executions").and_then(|v| v.as_u64()).unwrap_or(0);
    ck.cov("states", n);
    ck.cov("transitions", ex);
    ck.cov("traces_validated_against_impl", ex);
    ck.cov("exhaustive", ck.coverage.get("e3_scenarios_capped").and_then(|v| v.as_u64()) == Some(0));
    ck.cov("explanation", "for each of the 9 socket types: a victim peer whose byte stream (greeting + READY + message + multipart message) is cut at EVERY byte offset by {close: end-of-stream and failing writes; reset: read error and failing writes; silence with failing writes}, next to a live peer attached before or after it that keeps sending; every schedule within the deviation bound. Oracle: a cut inside the handshake makes attach fail and both halves of the connection are dropped; later cuts: every message of the live peer is delivered, recv reports at most one error for the event and then parks or delivers (step horizon = spin), no send after the end was observed grows the victim's wire (write-only sockets observe it through one failing send), the live peer still receives what is sent to it, and at final quiescence BOTH halves of the victim's connection have been dropped (peer-table entry, buffers, transport handle released). states = scenarios (type x offset x fault x attach order); transitions = executions. Additionally (E4, real runtime, OS schedules not enumerated): for each type x {TCP v4, TCP v6, IPC} x {orderly close, abortive close (RST, TCP only)} a series of connect / handshake / traffic / disconnect cycles, after which the process's open-descriptor count must return to its value before the cycles; and the same from the connecting side (the socket connect()s out to a raw listener again and again, every other time to one that closes in mid-handshake: connect() must fail then, never hang).");
    ck.assume("'connection released' = the harness pipe halves handed to the library have been dropped");
    ck.conclude()
}
