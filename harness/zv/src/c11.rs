//! C11 — PUB/XPUB deliver a message to a subscriber iff a subscription is a prefix (E3, exhaustive histories).

use crate::e1::{frames_of, msg};
use crate::e3::{self, AnySocket, Ty};
use serde_json::{json, Value};
use zvcore::evidence::{Check, Tier};
use zvcore::explore::Verdict;
use zvcore::refcodec as rc;
use zvcore::world;

const TOPICS: [&[u8]; 4] = [b"", b"a", b"ab", b"b"];
const PUBLISHED: [&[u8]; 6] = [b"", b"a", b"ab", b"abc", b"b", b"c"];
/// operations 0..4 sub t, 4..8 unsub t, 8 empty frame, 9 `02 a`, 10 two-frame [01 a][x]
const NOPS: u8 = 11;

fn op_message(op: u8) -> Vec<Vec<u8>> {
    match op {
        0..=3 => {
            let mut f = vec![1u8];
            f.extend_from_slice(TOPICS[op as usize]);
            vec![f]
        }
        4..=7 => {
            let mut f = vec![0u8];
            f.extend_from_slice(TOPICS[(op - 4) as usize]);
            vec![f]
        }
        8 => vec![vec![]],
        9 => vec![vec![2u8, b'a']],
        _ => vec![vec![1u8, b'a'], b"x".to_vec()],
    }
}

fn op_name(op: u8) -> String {
    match op {
        0..=3 => format!("sub({:?})", String::from_utf8_lossy(TOPICS[op as usize])),
        4..=7 => format!("unsub({:?})", String::from_utf8_lossy(TOPICS[(op - 4) as usize])),
        8 => "garbage(empty frame)".into(),
        9 => "garbage(02 a)".into(),
        _ => "garbage(two frames)".into(),
    }
}

/// reference model: multiset of prefixes
fn reference(hist: &[u8]) -> Vec<Vec<u8>> {
    let mut subs: Vec<Vec<u8>> = Vec::new();
    for &op in hist {
        match op {
            0..=3 => subs.push(TOPICS[op as usize].to_vec()),
            4..=7 => {
                let t = TOPICS[(op - 4) as usize];
                if let Some(i) = subs.iter().position(|s| s == t) {
                    subs.remove(i);
                }
            }
            _ => {}
        }
    }
    subs
}

fn matches(subs: &[Vec<u8>], first: &[u8]) -> bool {
    subs.iter().any(|s| first.len() >= s.len() && &first[..s.len()] == &s[..])
}

#[derive(Clone, Debug)]
struct Params {
    ty: Ty,
    hists: Vec<Vec<u8>>,
    policy: u8,
}

fn is_interleaving(seq: &[Vec<Vec<u8>>], a: &[Vec<Vec<u8>>], b: &[Vec<Vec<u8>>]) -> bool {
    if seq.len() != a.len() + b.len() {
        return false;
    }
    // dp[i][j]: seq[..i+j] is an interleaving of a[..i], b[..j]
    let mut dp = vec![vec![false; b.len() + 1]; a.len() + 1];
    dp[0][0] = true;
    for i in 0..=a.len() {
        for j in 0..=b.len() {
            if !dp[i][j] {
                continue;
            }
            if i < a.len() && seq[i + j] == a[i] {
                dp[i + 1][j] = true;
            }
            if j < b.len() && seq[i + j] == b[j] {
                dp[i][j + 1] = true;
            }
        }
    }
    dp[a.len()][b.len()]
}

fn scenario(pr: &Params) -> Verdict {
    world::reset(world::WorldCfg { nested_env: false, yields: true, select: true, policy: pr.policy, coop: false });
    let ty = pr.ty;
    let n = pr.hists.len();
    let conns: Vec<e3::RawConn> = (0..n).map(|p| e3::raw_conn(&format!("S{}", p))).collect();
    for (p, c) in conns.iter().enumerate() {
        c.send(&rc::handshake(ty.peer_type(), Some(format!("S{}", p).as_bytes())));
        for &op in &pr.hists[p] {
            c.send(&rc::encode_message(&op_message(op)));
        }
    }
    let total_msgs: usize = pr.hists.iter().map(|h| h.len()).sum();
    let recvd = std::rc::Rc::new(std::cell::RefCell::new(Vec::<Vec<Vec<u8>>>::new()));
    let recvd2 = recvd.clone();
    let conns2 = conns.clone();
    world::spawn_app("app", async move {
        let mut sock = AnySocket::new(ty, None);
        for c in &conns2 {
            let r = e3::attach_raw(sock.backend(), *c).await;
            world::log(format!("attach -> {}", e3::ok_or_err(&r)));
        }
        if ty == Ty::XPub {
            // the application receives the subscription messages (which also updates the socket's tables)
            for _ in 0..total_msgs + 2 {
                match world::until_idle(sock.recv()).await {
                    Some(Ok(m)) => recvd2.borrow_mut().push(frames_of(&m)),
                    Some(Err(e)) => world::log(format!("recv -> Err({})", e3::err_class(&e))),
                    None => break,
                }
            }
        } else {
            // PUB: reader tasks process the subscriptions in the background
            world::idle().await;
        }
        for (i, f) in PUBLISHED.iter().enumerate() {
            // time passes between two publishes: reader tasks and everything else may run here
            world::yield_now().await;
            // (the first frame once more at the end: frames of equal content within one message)
            let r = sock.send(msg(&[f.to_vec(), vec![b'0' + i as u8], f.to_vec()])).await;
            if r.is_err() {
                world::log(format!("publish#{} -> {}", i, e3::ok_or_err(&r)));
            }
        }
        world::set_cond("published");
        world::wait_cond("never").await;
        drop(sock);
    });
    let end = world::run(e3::HORIZON);
    let mut v = Verdict::default();
    v.truncated = end != world::RunEnd::Quiescent;
    let what = format!(
        "{} with subscriber histories {:?}",
        ty.name(),
        pr.hists.iter().map(|h| h.iter().map(|o| op_name(*o)).collect::<Vec<_>>()).collect::<Vec<_>>()
    );
    for p in world::panics() {
        v.violate("panic", format!("{}: {}", what, p));
    }
    if v.truncated {
        v.violate("spin", format!("{}: no quiescence", what));
    }
    if !world::cond("published") && v.violations.is_empty() {
        v.violate("publisher-stuck", format!("{}: the publishing actor did not finish", what));
    }
    let mut canon = Vec::new();
    for p in 0..n {
        let subs = reference(&pr.hists[p]);
        let got = conns[p].tap_messages();
        let mut want: Vec<Vec<Vec<u8>>> = Vec::new();
        for (i, f) in PUBLISHED.iter().enumerate() {
            if matches(&subs, f) {
                want.push(vec![f.to_vec(), vec![b'0' + i as u8], f.to_vec()]);
            }
        }
        if got != want {
            let class = if got.len() > want.len() {
                if got.iter().any(|m| got.iter().filter(|x| *x == m).count() > 1) {
                    "delivered-more-than-once"
                } else {
                    "delivered-without-matching-subscription"
                }
            } else {
                "matching-message-not-delivered"
            };
            v.violate(
                class,
                format!(
                    "{}: subscriber {} (active subscriptions per the reference model: {:?}) got first frames {:?}, expected {:?}",
                    what,
                    p,
                    subs.iter().map(|s| String::from_utf8_lossy(s).to_string()).collect::<Vec<_>>(),
                    got.iter().map(|m| String::from_utf8_lossy(&m[0]).to_string()).collect::<Vec<_>>(),
                    want.iter().map(|m| String::from_utf8_lossy(&m[0]).to_string()).collect::<Vec<_>>()
                ),
            );
        }
        let d = conns[p].tap_decoded();
        if d.error.is_some() || d.consumed != conns[p].tap().len() {
            v.violate("malformed-stream", format!("{}: subscriber {}'s wire is not a well-formed stream of complete messages", what, p));
        }
        canon.push(format!("{}:{}", p, got.len()));
    }
    if ty == Ty::XPub {
        let r = recvd.borrow().clone();
        let per: Vec<Vec<Vec<Vec<u8>>>> = pr.hists.iter().map(|h| h.iter().map(|o| op_message(*o)).collect()).collect();
        let ok = match n {
            1 => r == per[0],
            _ => is_interleaving(&r, &per[0], &per[1]),
        };
        if !ok {
            v.violate(
                "xpub-recv-not-verbatim-in-order",
                format!("{}: XPUB.recv returned {:?}, which is not the subscribers' messages verbatim in per-peer order", what, r.iter().map(|m| rc::show_frames(m)).collect::<Vec<_>>()),
            );
        }
    }
    v.outcome_hash = rc::fnv(canon.join("|").as_bytes());
    v.trivial = conns.iter().all(|c| c.tap_messages().is_empty());
    e3::finish(v)
}

/// A subscriber goes away and a new connection announces the same identity at about the same time
/// (every interleaving within the bound): once the new connection's subscription has been processed,
/// a matching publish must reach it.
fn reconnect_scenario(ty: Ty, policy: u8, eof_first: bool, variant: u8) -> Verdict {
    world::reset(world::WorldCfg { nested_env: true, yields: true, select: true, policy, coop: false });
    let s1 = e3::raw_conn("S1");
    let s2 = e3::raw_conn("S2");
    s1.send(&rc::handshake("SUB", Some(b"sub")));
    s1.send(&rc::encode_message(&[vec![1u8, b'a']]));
    s1.send(&rc::encode_message(&[vec![1u8, b'b']]));
    s2.gate("first-up");
    s2.send(&rc::handshake("SUB", Some(b"sub")));
    // what the NEW connection says for itself: 0 = subscribe a; 1 = subscribe a, unsubscribe a; 2 = nothing;
    // 3 = as 0 with the old connection never ending (it is still open when the new one registers)
    let n_new_msgs = match variant {
        1 => {
            s2.send(&rc::encode_message(&[vec![1u8, b'a']]));
            s2.send(&rc::encode_message(&[vec![0u8, b'a']]));
            2
        }
        2 => 0,
        _ => {
            s2.send(&rc::encode_message(&[vec![1u8, b'a']]));
            1
        }
    };
    let sock = AnySocket::new(ty, None);
    let be = sock.backend();
    let be2 = be.clone();
    world::spawn_app("attach1", async move {
        let r = e3::attach_raw(be, s1).await;
        world::log(format!("attach(first) -> {}", e3::ok_or_err(&r)));
        world::set_cond("first-attached");
    });
    world::spawn_app("attach2", async move {
        let r = e3::attach_raw(be2, s2).await;
        world::log(format!("attach(second) -> {}", e3::ok_or_err(&r)));
        world::set_cond("second-attached");
    });
    world::spawn_app("app", async move {
        let mut sock = sock;
        world::wait_cond("first-attached").await;
        if ty == Ty::XPub {
            for _ in 0..2 {
                let _ = world::until_idle(sock.recv()).await;
            }
        } else {
            world::idle().await;
        }
        // the first connection ends and the peer comes back under the same identity; the order in which
        // the socket sees the two events is up to the scheduler (and to `eof_first` for the default order)
        if variant == 3 {
            world::set_cond("first-up");
        } else if eof_first {
            s1.eof();
            world::set_cond("first-up");
        } else {
            world::set_cond("first-up");
            s1.eof();
        }
        world::wait_cond("second-attached").await;
        if ty == Ty::XPub {
            for _ in 0..(2 + n_new_msgs) {
                if world::until_idle(sock.recv()).await.is_none() {
                    break;
                }
            }
        } else {
            world::idle().await;
        }
        let r = sock.send(msg(&[b"a-news".to_vec()])).await;
        world::log(format!("publish -> {}", e3::ok_or_err(&r)));
        world::yield_now().await;
        let r = sock.send(msg(&[b"b-news".to_vec()])).await;
        world::log(format!("publish -> {}", e3::ok_or_err(&r)));
        world::set_cond("published");
        world::wait_cond("never").await;
        drop(sock);
    });
    let end = world::run(e3::HORIZON);
    let mut v = Verdict::default();
    v.truncated = end != world::RunEnd::Quiescent;
    let what = format!("{}: a subscriber (announced identity, subscribed to \"a\" and \"b\") {} and a new connection with the same identity {}", ty.name(), if variant == 3 { "stays connected" } else { "leaves" }, ["subscribes to \"a\"", "subscribes to \"a\" and unsubscribes again", "sends no subscription", "subscribes to \"a\""][variant as usize % 4]);
    for p in world::panics() {
        v.violate("panic", format!("{}: {}", what, p));
    }
    if v.truncated {
        v.violate("spin", format!("{}: no quiescence", what));
    }
    if world::cond("published") && world::panics().is_empty() {
        let got = s2.tap_messages();
        let want: Vec<Vec<Vec<u8>>> = if variant == 1 || variant == 2 { vec![] } else { vec![vec![b"a-news".to_vec()]] };
        if got != want {
            let class = if got.len() < want.len() { "reconnect/new-connection-lost-its-subscription" } else { "reconnect/new-connection-inherited-subscriptions" };
            v.violate(
                class,
                format!("{}: after everything was processed, publishes a-news and b-news put {:?} on the new connection's wire; by its own subscription messages it must get {:?}", what, got.iter().map(|m| rc::show_frames(m)).collect::<Vec<_>>(), want.iter().map(|m| rc::show_frames(m)).collect::<Vec<_>>()),
            );
        }
    } else if world::panics().is_empty() && !v.truncated {
        v.violate("reconnect/app-stuck", format!("{}: the application did not get to publish", what));
    }
    v.outcome_hash = rc::fnv(e3::canon_log().join("|").as_bytes());
    e3::finish(v)
}

/// n subscribers all subscribed to "a"; one of them goes bad (its connection fails every write,
/// no end-of-stream seen yet) right before three matching publishes: every other subscriber has a
/// matching subscription and must get each message exactly once, wherever it comes in the
/// socket's iteration order (hash key and the dead one's index are enumerated).
fn fault_scenario(ty: Ty, n: usize, dead: usize, kind: u8, hash_key: u64, policy: u8) -> Verdict {
    e3::set_hash_key(hash_key);
    world::reset(world::WorldCfg { nested_env: false, yields: true, select: true, policy, coop: false });
    let conns: Vec<e3::RawConn> = (0..n).map(|p| e3::raw_conn(&format!("S{}", p))).collect();
    for (p, c) in conns.iter().enumerate() {
        c.send(&rc::handshake("SUB", Some(format!("S{}", p).as_bytes())));
        c.send(&rc::encode_message(&[b"\x01a".to_vec()]));
    }
    let conns2 = conns.clone();
    world::spawn_app("app", async move {
        let mut sock = AnySocket::new(ty, None);
        for c in &conns2 {
            let _ = e3::attach_raw(sock.backend(), *c).await;
        }
        if ty == Ty::XPub {
            for _ in 0..conns2.len() {
                let _ = world::until_idle(sock.recv()).await;
            }
        } else {
            world::idle().await;
        }
        let _ = sock.send(msg(&[b"a".to_vec(), b"warm".to_vec()])).await;
        let ek = match kind {
            0 => std::io::ErrorKind::BrokenPipe,
            1 => std::io::ErrorKind::ConnectionReset,
            _ => std::io::ErrorKind::Other,
        };
        world::set_wmode(conns2[dead].from_lib, world::WMode::Fail(ek));
        for i in 0..3 {
            let r = sock.send(msg(&[b"a".to_vec(), vec![b'1' + i as u8]])).await;
            world::log(format!("publish#{} -> {}", i, e3::ok_or_err(&r)));
        }
        world::set_cond("published");
        world::wait_cond("never").await;
        drop(sock);
    });
    let end = world::run(e3::HORIZON);
    e3::set_hash_key(0);
    let mut v = Verdict::default();
    v.truncated = end != world::RunEnd::Quiescent;
    let what = format!("{} with {} subscribers of \"a\", subscriber {}'s connection starts failing writes ({}) before three publishes (hash key {})", ty.name(), n, dead, ["BrokenPipe", "ConnectionReset", "Other"][kind as usize], hash_key);
    for p in world::panics() {
        v.violate("panic", format!("{}: {}", what, p));
    }
    if !world::cond("published") && v.violations.is_empty() {
        v.violate("publisher-stuck", format!("{}: the publishing actor did not finish", what));
    }
    let want: Vec<Vec<Vec<u8>>> = std::iter::once(vec![b"a".to_vec(), b"warm".to_vec()]).chain((0..3).map(|i| vec![b"a".to_vec(), vec![b'1' + i as u8]])).collect();
    let mut canon = Vec::new();
    for p in 0..n {
        if p == dead {
            continue;
        }
        let got = conns[p].tap_messages();
        canon.push(format!("{}:{}", p, got.len()));
        if got != want {
            v.violate(
                "subscriber-failure/matching-message-not-delivered-exactly-once",
                format!("{}: healthy subscriber {} got {:?}, expected {:?}", what, p, got.iter().map(|m| rc::show_frames(m)).collect::<Vec<_>>(), want.iter().map(|m| rc::show_frames(m)).collect::<Vec<_>>()),
            );
        }
    }
    v.outcome_hash = rc::fnv(canon.join("|").as_bytes()) ^ rc::fnv(e3::canon_log().join("|").as_bytes());
    e3::finish(v)
}

/// Scale family (not exhaustive in the counts): subscriber 0 subscribes to `n_topics` distinct topics and then
/// unsubscribes from every even one; `n_subs - 1` further subscribers subscribe to one topic each; every topic is
/// published once. Reference: the same multiset-of-prefixes model.
/// `topic_len`: 0 = short topics `tNNNN`; otherwise every topic is padded to exactly that many bytes (a subscription
/// frame is one byte longer than its topic: 254/255 straddle the size forms), and next to every topic the publisher
/// also sends its near misses (one byte shorter, one byte longer, last byte changed)
fn scale_scenario(ty: Ty, n_topics: usize, n_subs: usize, topic_len: usize) -> Verdict {
    world::reset(world::WorldCfg { nested_env: false, yields: true, select: true, policy: 0, coop: false });
    let topic = move |i: usize| {
        let mut t = format!("t{:04}", i).into_bytes();
        while t.len() < topic_len {
            t.push(b'a' + (t.len() % 26) as u8);
        }
        t
    };
    let mut published: Vec<Vec<u8>> = Vec::new();
    for i in 0..n_topics {
        let t = topic(i);
        published.push(t.clone());
        if topic_len > 0 {
            published.push(t[..t.len() - 1].to_vec());
            let mut longer = t.clone();
            longer.push(b'!');
            published.push(longer);
            let mut other = t.clone();
            *other.last_mut().unwrap() ^= 1;
            published.push(other);
        }
    }
    let published2 = published.clone();
    let conns: Vec<e3::RawConn> = (0..n_subs).map(|p| e3::raw_conn(&format!("S{}", p))).collect();
    let mut n_msgs = 0usize;
    for (p, c) in conns.iter().enumerate() {
        c.send(&rc::handshake("SUB", Some(format!("S{}", p).as_bytes())));
        if p == 0 {
            for i in 0..n_topics {
                let mut f = vec![1u8];
                f.extend(topic(i));
                c.send(&rc::encode_message(&[f]));
                n_msgs += 1;
            }
            for i in (0..n_topics).step_by(2) {
                let mut f = vec![0u8];
                f.extend(topic(i));
                c.send(&rc::encode_message(&[f]));
                n_msgs += 1;
            }
        } else {
            let mut f = vec![1u8];
            f.extend(topic(p % n_topics));
            c.send(&rc::encode_message(&[f]));
            n_msgs += 1;
        }
    }
    let conns2 = conns.clone();
    world::spawn_app("app", async move {
        let mut sock = AnySocket::new(ty, None);
        for c in &conns2 {
            let _ = e3::attach_raw(sock.backend(), *c).await;
        }
        if ty == Ty::XPub {
            for _ in 0..n_msgs + 2 {
                if world::until_idle(sock.recv()).await.is_none() {
                    break;
                }
            }
        } else {
            world::idle().await;
        }
        for f in &published2 {
            let _ = sock.send(msg(&[f.clone(), b"x".to_vec()])).await;
        }
        world::set_cond("published");
        world::wait_cond("never").await;
        drop(sock);
    });
    let end = world::run(e3::HORIZON * 20);
    let mut v = Verdict::default();
    v.truncated = end != world::RunEnd::Quiescent;
    let what = format!("{}: subscriber 0 with {} topics{} (every even one unsubscribed again), {} further subscribers with one topic each", ty.name(), n_topics, if topic_len > 0 { format!(" of {} bytes each, near misses published too", topic_len) } else { String::new() }, n_subs - 1);
    for p in world::panics() {
        v.violate("panic", format!("{}: {}", what, p));
    }
    if !world::cond("published") && v.violations.is_empty() {
        v.violate("publisher-stuck", format!("{}: the publishing actor did not finish", what));
    }
    for (p, c) in conns.iter().enumerate() {
        let got: Vec<Vec<u8>> = c.tap_messages().into_iter().map(|m| m[0].clone()).collect();
        let subs: Vec<Vec<u8>> = if p == 0 { (0..n_topics).filter(|i| i % 2 == 1).map(topic).collect() } else { vec![topic(p % n_topics)] };
        let want: Vec<Vec<u8>> = published.iter().filter(|f| subs.iter().any(|s| f.starts_with(s))).cloned().collect();
        if got != want && v.violations.is_empty() {
            let missing = want.iter().filter(|w| !got.contains(w)).count();
            let extra = got.iter().filter(|g| !want.contains(g)).count();
            v.violate(
                "scale/delivery-differs-from-reference",
                format!("{}: subscriber {} got {} messages, the reference says {} ({} missing, {} unexpected; first got {:?})", what, p, got.len(), want.len(), missing, extra, got.first().map(|f| String::from_utf8_lossy(&f[..f.len().min(12)]).to_string())),
            );
        }
    }
    v.outcome_hash = rc::fnv(format!("{}/{}/{}", n_topics, n_subs, topic_len).as_bytes());
    e3::finish(v)
}

fn pj(p: &Params) -> Value {
    json!({"type": p.ty.name(), "hists": p.hists, "policy": p.policy})
}

fn pf(v: &Value) -> Option<Params> {
    Some(Params {
        ty: Ty::from_name(v["type"].as_str()?)?,
        hists: v["hists"].as_array()?.iter().map(|h| h.as_array().map(|a| a.iter().map(|x| x.as_u64().unwrap_or(0) as u8).collect()).unwrap_or_default()).collect(),
        policy: v["policy"].as_u64().unwrap_or(0) as u8,
    })
}

fn histories(max_len: usize) -> Vec<Vec<u8>> {
    let mut all: Vec<Vec<u8>> = vec![vec![]];
    let mut level: Vec<Vec<u8>> = vec![vec![]];
    for _ in 0..max_len {
        let mut next = Vec::new();
        for h in &level {
            for op in 0..NOPS {
                let mut h2 = h.clone();
                h2.push(op);
                next.push(h2);
            }
        }
        all.extend(next.iter().cloned());
        level = next;
    }
    all
}

pub fn run(tier: Tier, replay: Option<String>) -> i32 {
    world::install_panic_hook();
    let mut ck = Check::new("C11", tier, "model_checking");
    if let Some(path) = replay {
        let v: Value = serde_json::from_str(&std::fs::read_to_string(&path).expect("read")).expect("json");
        return crate::replay::replay_e3(&v, |p| {
            if p["scenario"] == "scale" {
                let (ty, nt, ns) = (Ty::from_name(p["type"].as_str()?)?, p["topics"].as_u64()? as usize, p["subs"].as_u64()? as usize);
                let tl = p["topic_len"].as_u64().unwrap_or(0) as usize;
                return Some(std::sync::Arc::new(move || scale_scenario(ty, nt, ns, tl)) as zvcore::explore::Scenario);
            }
            if p["scenario"] == "fault" {
                let (ty, n, dead, kind, hk, pol) = (Ty::from_name(p["type"].as_str()?)?, p["n"].as_u64()? as usize, p["dead"].as_u64()? as usize, p["kind"].as_u64()? as u8, p["hash_key"].as_u64()?, p["policy"].as_u64()? as u8);
                return Some(std::sync::Arc::new(move || fault_scenario(ty, n, dead, kind, hk, pol)) as zvcore::explore::Scenario);
            }
            if p["scenario"] == "reconnect" {
                let (ty, pol, ef, var) = (Ty::from_name(p["type"].as_str()?)?, p["policy"].as_u64()? as u8, p["eof_first"].as_bool()?, p["variant"].as_u64().unwrap_or(0) as u8);
                return Some(std::sync::Arc::new(move || reconnect_scenario(ty, pol, ef, var)) as zvcore::explore::Scenario);
            }
            let pr = pf(p)?;
            Some(std::sync::Arc::new(move || scenario(&pr)) as zvcore::explore::Scenario)
        });
    }
    let single = histories(tier.pick(4, 5));
    let pairs = histories(2);
    let mut jobs = Vec::new();
    let mut n_hist = 0u64;
    for ty in [Ty::Pub, Ty::XPub] {
        for h in &single {
            let pr = Params { ty, hists: vec![h.clone()], policy: 0 };
            let pr2 = pr.clone();
            n_hist += 1;
            // schedules matter little for sequential matching logic: default + every single deviation for short histories
            let bound = if h.len() <= 2 { 1 } else { 0 };
            jobs.push(e3::job(format!("C11/{}/1/{:?}", ty.name(), h), pj(&pr), bound, 20_000, move || scenario(&pr2)));
            // the same history from a peer that announces itself as XSUB
            if h.len() <= 3 {
                let pr2 = pr.clone();
                let mut p = pj(&pr);
                p["peer_variant"] = json!(1);
                jobs.push(e3::job(format!("C11/{}/1/{:?}/xsub", ty.name(), h), p, 0, 20_000, move || scenario(&pr2)));
            }
        }
        for a in &pairs {
            for b in &pairs {
                let pr = Params { ty, hists: vec![a.clone(), b.clone()], policy: 0 };
                let pr2 = pr.clone();
                n_hist += 1;
                let bound = if tier == Tier::Thorough && a.len() + b.len() <= 2 { 1 } else { 0 };
                jobs.push(e3::job(format!("C11/{}/2/{:?}/{:?}", ty.name(), a, b), pj(&pr), bound, 20_000, move || scenario(&pr2)));
            }
        }
    }
    for ty in [Ty::Pub, Ty::XPub] {
        for policy in 0..3u8 {
            for eof_first in [false, true] {
                for variant in 0..4u8 {
                    if variant == 3 && eof_first {
                        continue;
                    }
                    let bound = if variant == 0 { tier.pick(3, 4) } else { tier.pick(2, 3) };
                    jobs.push(e3::job(format!("C11/reconnect/{}/policy{}/{}/variant{}", ty.name(), policy, eof_first, variant), json!({"scenario":"reconnect","type":ty.name(),"policy":policy,"eof_first":eof_first,"variant":variant}), bound, tier.pick(300_000, 3_000_000), move || reconnect_scenario(ty, policy, eof_first, variant)));
                }
            }
        }
    }
    for ty in [Ty::Pub, Ty::XPub] {
        for n in 2..=tier.pick(3usize, 4usize) {
            for dead in 0..n {
                for kind in 0..3u8 {
                    for hash_key in 0..tier.pick(3u64, 6u64) {
                        jobs.push(e3::job(
                            format!("C11/fault/{}/{}subs/dead{}/kind{}/key{}", ty.name(), n, dead, kind, hash_key),
                            json!({"scenario":"fault","type":ty.name(),"n":n,"dead":dead,"kind":kind,"hash_key":hash_key,"policy":0}),
                            tier.pick(1, 2),
                            100_000,
                            move || fault_scenario(ty, n, dead, kind, hash_key, 0),
                        ));
                    }
                }
            }
        }
    }
    for ty in [Ty::Pub, Ty::XPub] {
        for &(nt, ns) in tier.pick(&[(9usize, 2usize), (17, 3), (40, 20), (70, 70), (300, 2), (130, 130)][..], &[(9usize, 2usize), (17, 3), (40, 20), (70, 70), (300, 2), (130, 130), (1100, 3), (260, 260)][..]) {
            jobs.push(e3::job(format!("C11/scale/{}/{}topics/{}subs", ty.name(), nt, ns), json!({"scenario":"scale","type":ty.name(),"topics":nt,"subs":ns}), 0, 10, move || scale_scenario(ty, nt, ns, 0)));
        }
        // topic lengths around the size-form boundary of the subscription frame (1 + topic bytes) and far beyond it
        for tl in tier.pick(&[253usize, 254, 255, 256, 300, 70_000][..], &[127usize, 128, 253, 254, 255, 256, 257, 300, 8191, 8192, 8193, 70_000, 1_100_000][..]) {
            let (nt, ns, tl) = (4usize, 3usize, *tl);
            jobs.push(e3::job(format!("C11/scale/{}/{}topics/{}subs/len{}", ty.name(), nt, ns, tl), json!({"scenario":"scale","type":ty.name(),"topics":nt,"subs":ns,"topic_len":tl}), if tl <= 300 { 1 } else { 0 }, 2_000, move || scale_scenario(ty, nt, ns, tl)));
        }
    }
    // the same scenarios with peers that announce an Identity of length 0 / no Identity (every 50th job): the oracle
    // never looks at the peers' identities, and every connection must still be kept apart
    let anon: Vec<zvcore::explore::Job> = jobs.iter().filter(|j| !j.name.contains("reconnect") && !j.name.contains("scale")).step_by(50).flat_map(|j| [e3::anon_copy(j, 1), e3::anon_copy(j, 2)]).collect();
    ck.cov("scenarios_repeated_with_anonymous_peers", anon.len() as u64);
    let mut jobs = jobs;
    jobs.extend(anon);
    e3::run_jobs_into(&mut ck, jobs, false);
    let ex = ck.coverage.get("e3_executions").and_then(|v| v.as_u64()).unwrap_or(0);
    ck.cov("states", n_hist);
    ck.cov("transitions", ex);
    ck.cov("traces_validated_against_impl", ex);
    ck.cov("histories", n_hist);
    ck.cov("exhaustive", true);
    ck.cov("explanation", format!("for PUB and XPUB: every history of length <= {} over 11 per-subscriber operations (subscribe / unsubscribe to \"\", a, ab, b; three kinds of malformed subscription message) for one subscriber ({} histories) and every pair of histories of length <= 2 for two subscribers ({} pairs); after the subscriptions are processed (PUB: reader tasks to quiescence; XPUB: the application receives them) the socket publishes first frames \"\", a, ab, abc, b, c with a serial second frame. Oracle: reference multiset-of-prefixes model; each subscriber's wire carries message f exactly once iff an active subscription is a byte-prefix of f; wires are well-formed; XPUB.recv returns the subscribers' messages verbatim in per-peer order. Subscriber-failure family: 2..3 (thorough 4) subscribers of \"a\", each one in turn starting to fail writes (BrokenPipe / ConnectionReset / other) right before three publishes, under 3 (thorough 6) hash keys (iteration orders of the subscriber table): every other subscriber gets each message exactly once. Scale family (not exhaustive in the counts): one subscriber with 9..300 (thorough 1100) topics of which every even one is unsubscribed again, next to up to 130 (260) subscribers with one topic each; every topic published once; same reference model; the same with 4 topics of 253..256, 300 and 70000 (thorough: up to 1.1 M) bytes each, each published together with its near misses (one byte shorter, one byte longer, last byte changed). states = histories, transitions = executions (default schedule, plus every single deviation for short histories).", tier.pick(4, 5), single.len(), pairs.len() * pairs.len()));
    ck.assume("matching logic is sequential; interleavings of reader tasks with send are covered by yield points between subscribers (bound 1 on short histories)");
    ck.conclude()
}
