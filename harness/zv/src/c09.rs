//! C09 — ROUTER labels inbound messages with the true sender and routes by first frame (E3).

use crate::e1::{frames_of, msg};
use crate::e3::{self, AnySocket, Ty};
use serde_json::{json, Value};
use zvcore::evidence::{Check, Tier};
use zvcore::explore::Verdict;
use zvcore::refcodec as rc;
use zvcore::world;

#[derive(Clone, Debug)]
struct Params {
    /// identity kind per peer: 0 announced 1 byte, 1 announced 255 bytes, 2 auto-assigned (no Identity property), 6 auto-assigned (empty Identity property), 3 prefix chain (k, kk, kkk), 4 255 bytes differing in the last byte
    ids: Vec<u8>,
    msgs: usize,
    /// the last peer closes both directions before the sends
    last_peer_leaves: bool,
    policy: u8,
    /// peer 0's connection accepts 7 bytes and then nothing until a later environment event re-opens it
    backpressure: bool,
    /// socket type the raw peers announce: 0 DEALER, 1 REQ, 2 ROUTER (the three legal peers of a ROUTER)
    peer_type: u8,
}

fn announced(kind: u8, p: usize) -> Option<Vec<u8>> {
    match kind {
        0 => Some(vec![b'a' + p as u8]),
        1 => Some((0..255).map(|i| if i == 0 { b'A' + p as u8 } else { 1 + ((i * 7 + p) % 250) as u8 }).collect()),
        // related identities: each a proper prefix of the next one ...
        3 => Some(vec![b'k'; p + 1]),
        // ... or 255 bytes that differ in the very last byte only
        4 => Some((0..255).map(|i| if i == 254 { b'0' + p as u8 } else { b'q' }).collect()),
        // scale family: any number of peers
        5 => Some(format!("peer-{}", p).into_bytes()),
        _ => None,
    }
}

fn scenario(pr: &Params) -> Verdict {
    world::reset(world::WorldCfg { nested_env: true, yields: true, select: false, policy: pr.policy, coop: false });
    let n = pr.ids.len();
    let conns: Vec<e3::RawConn> = (0..n).map(|p| e3::raw_conn(&format!("P{}", p))).collect();
    let mut sent: Vec<Vec<Vec<Vec<u8>>>> = Vec::new();
    for (p, c) in conns.iter().enumerate() {
        // kind 6: an Identity property of length 0 on the wire (what libzmq peers without a routing id send):
        // the socket must assign a unique identity as if none had been announced
        let on_wire = if pr.ids[p] == 6 { Some(Vec::new()) } else { announced(pr.ids[p], p) };
        c.send(&rc::handshake(["DEALER", "REQ", "ROUTER"][pr.peer_type as usize % 3], on_wire.as_deref()));
        let mut mine = Vec::new();
        for j in 0..pr.msgs {
            let m: Vec<Vec<u8>> = if j % 2 == 0 {
                vec![format!("p{}m{}", p, j).into_bytes(), vec![], b"tail".to_vec()]
            } else {
                vec![vec![], format!("p{}m{}", p, j).into_bytes()]
            };
            // the peer's last message ends with an empty frame (the last bytes the connection carries are the
            // header of a zero-length frame)
            let m = if j + 1 == pr.msgs {
                let mut m = m;
                m.push(vec![]);
                m
            } else {
                m
            };
            c.send(&rc::encode_message(&m));
            mine.push(m);
        }
        if pr.backpressure && p == 0 && pr.msgs == 99 {
            // (kept for old replay files only: back-pressure during the handshake)
            world::script_wmodes(c.from_lib, &[world::WMode::Budget(7), world::WMode::Open]);
        }
        if pr.last_peer_leaves && p + 1 == n {
            // closes both directions: end-of-stream towards the socket, writes to it fail
            c.eof();
            world::script_wmodes(c.from_lib, &[world::WMode::Fail(std::io::ErrorKind::BrokenPipe)]);
        }
        sent.push(mine);
    }
    let sock = AnySocket::new(Ty::Router, None);
    let be = sock.backend();
    let ids = std::rc::Rc::new(std::cell::RefCell::new(vec![None::<Vec<u8>>; n]));
    for (p, c) in conns.iter().enumerate() {
        let be = be.clone();
        let c = *c;
        let ids = ids.clone();
        world::spawn_app(&format!("attach{}", p), async move {
            let r = e3::attach_raw(be, c).await;
            world::log(format!("attach(P{}) -> {}", p, e3::ok_or_err(&r)));
            if let Ok(id) = r {
                ids.borrow_mut()[p] = Some(id.to_vec());
            }
        });
    }
    let got = std::rc::Rc::new(std::cell::RefCell::new(Vec::<Vec<Vec<u8>>>::new()));
    let sends = std::rc::Rc::new(std::cell::RefCell::new(Vec::<(String, Vec<usize>, bool)>::new()));
    let (got2, sends2, ids2) = (got.clone(), sends.clone(), ids.clone());
    let deferred = std::rc::Rc::new(std::cell::RefCell::new(Vec::<(usize, Vec<u8>, bool)>::new()));
    let deferred2 = deferred.clone();
    let backpressure = pr.backpressure;
    let conns2 = conns.clone();
    let leaves = pr.last_peer_leaves;
    let (n_peers, n_msgs) = (n, pr.msgs);
    world::spawn_app("app", async move {
        let mut sock = sock;
        for _ in 0..(30 + n_peers * n_msgs) {
            match world::until_idle(sock.recv()).await {
                Some(Ok(m)) => {
                    world::log(format!("recv -> message of {} frames", m.len()));
                    got2.borrow_mut().push(frames_of(&m));
                }
                Some(Err(e)) => world::log(format!("recv -> Err({})", e3::err_class(&e))),
                None => break,
            }
        }
        // now route: to every identity, to an unknown one
        let known: Vec<Option<Vec<u8>>> = ids2.borrow().clone();
        let mut targets: Vec<(String, Vec<u8>, Option<usize>)> = Vec::new();
        for (p, id) in known.iter().enumerate() {
            if let Some(id) = id {
                let gone = leaves && p + 1 == known.len();
                targets.push((format!("peer{}{}", p, if gone { "(gone)" } else { "" }), id.clone(), if gone { None } else { Some(p) }));
            }
        }
        targets.push(("unknown".into(), b"no-such-peer".to_vec(), None));
        targets.push(("unknown16".into(), vec![0xEE; 16], None));
        for (name, id, dest) in targets {
            // time passes between two calls of the application: everything else may run here
            world::yield_now().await;
            let before: Vec<usize> = conns2.iter().map(|c| world::tap_len(c.from_lib)).collect();
            // (frames of equal content within one message: the empty frame twice, the last one at the very end)
            let body = vec![id.clone(), format!("to-{}", name).into_bytes(), vec![], b"z".to_vec(), vec![]];
            let squeezed = backpressure && dest == Some(0);
            if squeezed {
                // peer 0's connection takes 7 more bytes and then nothing until an environment event re-opens it
                world::set_wmode(conns2[0].from_lib, world::WMode::Budget(7));
                world::script_wmodes(conns2[0].from_lib, &[world::WMode::Open]);
            }
            let r = sock.send(msg(&body)).await;
            if squeezed {
                // judged at final quiescence: accepted => all of it, and nothing else, is on that connection by then;
                // refused => none of it
                deferred2.borrow_mut().push((before[0], rc::encode_message(&body[1..]), r.is_ok()));
                world::log(format!("send(to {}) under back-pressure -> {}", name, e3::ok_or_err(&r)));
                // the next sends are measured once this one has settled
                world::idle().await;
                continue;
            }
            let grew: Vec<usize> = conns2.iter().zip(&before).map(|(c, b)| world::tap_len(c.from_lib) - b).collect();
            world::log(format!("send(to {}) -> {} wires grew {:?}", name, e3::ok_or_err(&r), grew));
            let want_bytes = rc::encode_message(&body[1..]);
            let want = want_bytes.len();
            let ok = match dest {
                // exactly the message minus its first frame, byte for byte, on exactly that peer's connection
                Some(p) => r.is_ok() && grew.iter().enumerate().all(|(q, g)| if q == p { *g == want } else { *g == 0 }) && world::tap(conns2[p].from_lib)[before[p]..] == want_bytes[..],
                None => {
                    if name.contains("gone") {
                        // a peer that has gone: must fail or at least reach nobody else; judged below
                        grew.iter().enumerate().all(|(q, g)| q + 1 == grew.len() || *g == 0)
                    } else {
                        r.is_err() && grew.iter().all(|g| *g == 0)
                    }
                }
            };
            sends2.borrow_mut().push((name.clone(), grew, ok && (dest.is_some() || r.is_err() || name.contains("gone"))));
            if name.contains("gone") && r.is_ok() {
                sends2.borrow_mut().push((format!("{}-accepted", name), vec![], false));
            }
        }
        world::wait_cond("never").await;
        drop(sock);
    });
    let end = world::run(e3::HORIZON * (1 + n as u64 / 4));
    let mut v = Verdict::default();
    v.truncated = end != world::RunEnd::Quiescent;
    let what = format!("ROUTER with {} peers {:?} (0=1-byte id, 1=255-byte id, 2=auto, 3=ids that are prefixes of one another, 4=255-byte ids differing in the last byte), {} messages each{}", ["DEALER", "REQ", "ROUTER"][pr.peer_type as usize % 3], pr.ids, pr.msgs, if pr.last_peer_leaves { ", last peer closes" } else if pr.backpressure { ", peer 0's connection accepting 7 bytes and then nothing for a while" } else { "" });
    for p in world::panics() {
        v.violate("panic", format!("{}: {}", what, p));
    }
    if v.truncated {
        v.violate("spin", format!("{}: no quiescence", what));
    }
    let ids = ids.borrow().clone();
    // identities: announced ones are used verbatim, auto ones are 16 bytes and unique
    for p in 0..n {
        match (&ids[p], announced(pr.ids[p], p)) {
            (Some(id), Some(a)) if *id != a => v.violate("identity/not-the-announced-one", format!("{}: peer {} registered under {} instead of its announced identity", what, p, rc::show_frames(&[id.clone()]))),
            (Some(id), None) if id.is_empty() || id.len() > 255 || ids.iter().enumerate().any(|(q, o)| q != p && o.as_ref() == Some(id)) => v.violate("identity/auto-not-unique", format!("{}: the identity assigned to peer {} ({} bytes) is empty, oversized or also carried by another connection", what, p, id.len())),
            _ => {}
        }
    }
    // labelling: per peer projection by identity
    let got = got.borrow().clone();
    let mut canon: Vec<String> = Vec::new();
    for p in 0..n {
        let Some(id) = &ids[p] else { continue };
        let mine: Vec<Vec<Vec<u8>>> = got.iter().filter(|m| m.first() == Some(id)).map(|m| m[1..].to_vec()).collect();
        let gone = pr.last_peer_leaves && p + 1 == n;
        if mine != sent[p] {
            let is_prefix = mine.len() <= sent[p].len() && sent[p][..mine.len()] == mine[..];
            if !(is_prefix && gone) {
                v.violate(
                    "recv/labelling-or-content",
                    format!("{}: messages labelled with peer {}'s identity: {:?}; that peer sent {:?}", what, p, mine.iter().map(|m| rc::show_frames(m)).collect::<Vec<_>>(), sent[p].iter().map(|m| rc::show_frames(m)).collect::<Vec<_>>()),
                );
            }
        }
        canon.push(format!("p{}:{}", p, mine.len()));
    }
    for m in &got {
        if !ids.iter().flatten().any(|id| m.first() == Some(id)) {
            v.violate("recv/unknown-label", format!("{}: recv returned a message whose first frame is no connection's identity: {}", what, rc::show_frames(m)));
        }
    }
    for (from, bytes, accepted) in deferred.borrow().iter() {
        let tap = conns[0].tap();
        let after: &[u8] = &tap[(*from).min(tap.len())..];
        let there = after.len() >= bytes.len() && after[..bytes.len()] == bytes[..];
        if *accepted && !there {
            v.violate("send/accepted-under-back-pressure-but-not-delivered", format!("{}: a send to peer 0 was accepted while its connection took only 7 more bytes; the connection re-opened, but at quiescence {} of the message's {} bytes are on its wire", what, after.len().min(bytes.len()), bytes.len()));
        }
        if !*accepted && !after.is_empty() && !there {
            v.violate("send/refused-under-back-pressure-but-partly-written", format!("{}: a send to peer 0 failed under back-pressure but {} bytes of it are on the wire", what, after.len()));
        }
    }
    for (name, grew, ok) in sends.borrow().iter() {
        canon.push(format!("{}:{}", name, ok));
        if !*ok {
            let class = if name.ends_with("-accepted") {
                "send/accepted-for-departed-peer"
            } else if name.starts_with("unknown") {
                "send/unknown-identity"
            } else if name.contains("gone") {
                "send/departed-peer-reached-others"
            } else {
                "send/misrouted"
            };
            v.violate(class, format!("{}: send addressed to {}: wires grew by {:?}", what, name, grew));
        }
    }
    v.outcome_hash = rc::fnv(canon.join("|").as_bytes()) ^ rc::fnv(format!("{:?}", got.iter().map(|m| m.last().cloned()).collect::<Vec<_>>()).as_bytes());
    e3::finish(v)
}

/// A peer leaves and a new connection announces the same identity before the socket has had a
/// chance to notice (it is not inside recv): sends for that identity must reach the connection that
/// is connected under it now.
fn reconnect_scenario(id_kind: u8, policy: u8) -> Verdict {
    world::reset(world::WorldCfg { nested_env: true, yields: true, select: false, policy, coop: false });
    let id = announced(id_kind, 0).unwrap();
    let a1 = e3::raw_conn("A1");
    let a2 = e3::raw_conn("A2");
    a1.send(&rc::handshake("DEALER", Some(&id)));
    a1.send(&rc::encode_message(&[b"from-first".to_vec(), b"x".to_vec()]));
    a1.eof();
    a2.gate("first-received");
    a2.send(&rc::handshake("DEALER", Some(&id)));
    a2.send(&rc::encode_message(&[b"from-second".to_vec(), b"y".to_vec()]));
    let sock = AnySocket::new(Ty::Router, None);
    let be = sock.backend();
    let be2 = be.clone();
    world::spawn_app("attach1", async move {
        let r = e3::attach_raw(be, a1).await;
        world::log(format!("attach(first) -> {}", e3::ok_or_err(&r)));
    });
    world::spawn_app("attach2", async move {
        let r = e3::attach_raw(be2, a2).await;
        world::log(format!("attach(second) -> {}", e3::ok_or_err(&r)));
        world::set_cond("second-attached");
    });
    let obs = std::rc::Rc::new(std::cell::RefCell::new(Vec::<String>::new()));
    let obs2 = obs.clone();
    let id2 = id.clone();
    world::spawn_app("app", async move {
        let mut sock = sock;
        let r = world::until_idle(sock.recv()).await;
        obs2.borrow_mut().push(format!("recv#1 -> {}", r.as_ref().map(e3::show_result).unwrap_or_else(|| "pending".into())));
        // the application is busy elsewhere while the first peer goes away and the second one arrives
        world::set_cond("first-received");
        world::wait_cond("second-attached").await;
        let r = world::until_idle(sock.recv()).await;
        obs2.borrow_mut().push(format!("recv#2 -> {}", r.as_ref().map(e3::show_result).unwrap_or_else(|| "pending".into())));
        let (b1, b2) = (world::tap_len(a1.from_lib), world::tap_len(a2.from_lib));
        let s = sock.send(msg(&[id2.clone(), b"reply".to_vec(), b"z".to_vec()])).await;
        obs2.borrow_mut().push(format!("send -> {} first+{} second+{}", e3::ok_or_err(&s), world::tap_len(a1.from_lib) - b1, world::tap_len(a2.from_lib) - b2));
        world::wait_cond("never").await;
        drop(sock);
    });
    let end = world::run(e3::HORIZON);
    let mut v = Verdict::default();
    v.truncated = end != world::RunEnd::Quiescent;
    let what = format!("ROUTER: a peer with a {} identity leaves, a new connection announces the same identity while the application is not in recv", if id_kind == 0 { "1-byte" } else { "255-byte" });
    for p in world::panics() {
        v.violate("panic", format!("{}: {}", what, p));
    }
    if v.truncated {
        v.violate("spin", format!("{}: no quiescence", what));
    }
    let o = obs.borrow().clone();
    for l in &o {
        world::log(l.clone());
    }
    let want1 = format!("recv#1 -> Ok{}", rc::show_frames(&[id.clone(), b"from-first".to_vec(), b"x".to_vec()]));
    let want2 = format!("recv#2 -> Ok{}", rc::show_frames(&[id.clone(), b"from-second".to_vec(), b"y".to_vec()]));
    if o.len() == 3 && world::panics().is_empty() && !v.truncated {
        if o[0] != want1 || o[1] != want2 {
            v.violate("reconnect/recv", format!("{}: {:?}", what, &o[..2]));
        }
        let reply_len = rc::encode_message(&[b"reply".to_vec(), b"z".to_vec()]).len();
        if o[2] != format!("send -> Ok first+0 second+{}", reply_len) {
            v.violate(
                "reconnect/send-reaches-stale-connection",
                format!("{}: the send addressed to that identity: {} (expected: Ok, {} bytes on the second connection, nothing on the first)", what, o[2], reply_len),
            );
        }
    } else if world::panics().is_empty() && !v.truncated {
        v.violate("reconnect/app-stuck", format!("{}: {:?}", what, o));
    }
    v.outcome_hash = rc::fnv(o.join("|").as_bytes());
    e3::finish(v)
}

/// One identity through two lives, the application sending and receiving all along: the first connection sends a
/// message and ends (cleanly or by a reset); the end is seen by a recv call that stays pending and is then abandoned
/// (`observed`), or by nobody; a send to the identity now must fail and write nothing anywhere; a second connection
/// announces the same identity, sends, is answered, sends again, is answered again. A bystander B must see nothing.
fn lives_scenario(id_kind: u8, reset: bool, observed: bool, still_open: bool, policy: u8) -> Verdict {
    world::reset(world::WorldCfg { nested_env: true, yields: true, select: false, policy, coop: false });
    let id = announced(id_kind, 0).unwrap();
    let a1 = e3::raw_conn("A1");
    let a2 = e3::raw_conn("A2");
    let b = e3::raw_conn("B");
    b.send(&rc::handshake("DEALER", Some(b"bystander")));
    a1.send(&rc::handshake("DEALER", Some(&id)));
    a1.send(&rc::encode_message(&[b"m1".to_vec()]));
    a1.gate("m1-received");
    if still_open {
        // the first connection never ends: the second one takes the identity over while it is idle and registered
    } else if reset {
        world::push_chunk(a1.to_lib, world::Chunk::Err(std::io::ErrorKind::ConnectionReset));
    } else {
        a1.eof();
    }
    a2.gate("second-life");
    a2.send(&rc::handshake("DEALER", Some(&id)));
    a2.send(&rc::encode_message(&[b"m2".to_vec(), vec![]]));
    a2.gate("m2-answered");
    a2.send(&rc::encode_message(&[b"m3".to_vec()]));
    let sock = AnySocket::new(Ty::Router, None);
    for (name, c, cond) in [("B", b, "b-attached"), ("first", a1, "first-attached"), ("second", a2, "second-attached")] {
        let be = sock.backend();
        world::spawn_app(&format!("attach-{}", name), async move {
            let r = e3::attach_raw(be, c).await;
            world::log(format!("attach({}) -> {}", name, e3::ok_or_err(&r)));
            world::set_cond(cond);
        });
    }
    let obs = std::rc::Rc::new(std::cell::RefCell::new(Vec::<String>::new()));
    let obs2 = obs.clone();
    let id2 = id.clone();
    world::spawn_app("app", async move {
        let mut sock = sock;
        let wires = move || (world::tap_len(a1.from_lib), world::tap_len(a2.from_lib), world::tap_len(b.from_lib));
        let show_recv = |r: &Option<zeromq::ZmqResult<zeromq::ZmqMessage>>| r.as_ref().map(e3::show_result).unwrap_or_else(|| "pending".into());
        world::wait_cond("b-attached").await;
        let r = world::until_idle(sock.recv()).await;
        obs2.borrow_mut().push(format!("recv#1 -> {}", show_recv(&r)));
        world::set_cond("m1-received");
        if observed || still_open {
            // this call sees the end of the first life (or, with the first connection still open, finds it idle), stays
            // pending, and is abandoned
            let r = world::until_idle(sock.recv()).await;
            obs2.borrow_mut().push(format!("recv (nothing to receive) -> {}", show_recv(&r)));
            if let Some(Err(_)) = r {
                // a reset may be reported once; the call after that finds nothing
                let r = world::until_idle(sock.recv()).await;
                obs2.borrow_mut().push(format!("recv (nothing to receive) -> {}", show_recv(&r)));
            }
            if observed {
                let w0 = wires();
                world::yield_now().await;
                let s = sock.send(msg(&[id2.clone(), b"to-the-gone".to_vec()])).await;
                let w1 = wires();
                obs2.borrow_mut().push(format!("send-to-gone -> {} first+{} second+{} bystander+{}", if s.is_ok() { "Ok" } else { "Err" }, w1.0 - w0.0, w1.1 - w0.1, w1.2 - w0.2));
            }
        } else {
            world::idle().await;
        }
        world::set_cond("second-life");
        world::wait_cond("second-attached").await;
        for (k, next) in [(2, "m2-answered"), (3, "all-answered")] {
            let r = world::until_idle(sock.recv()).await;
            obs2.borrow_mut().push(format!("recv#{} -> {}", k, show_recv(&r)));
            let w0 = wires();
            world::yield_now().await;
            let s = sock.send(msg(&[id2.clone(), format!("reply{}", k).into_bytes()])).await;
            let w1 = wires();
            obs2.borrow_mut().push(format!("reply#{} -> {} first+{} second+{} bystander+{}", k, if s.is_ok() { "Ok" } else { "Err" }, w1.0 - w0.0, w1.1 - w0.1, w1.2 - w0.2));
            world::set_cond(next);
        }
        world::set_cond("done");
        world::wait_cond("never").await;
        drop(sock);
    });
    let end = world::run(e3::HORIZON);
    let mut v = Verdict::default();
    v.truncated = end != world::RunEnd::Quiescent;
    let what = if still_open {
        format!("ROUTER: identity ({}) announced by a second connection while the first one is still open, idle and registered", if id_kind == 0 { "1 byte" } else { "255 bytes" })
    } else {
        format!(
            "ROUTER: identity ({}) living two lives, the first ended by a {} {}",
            if id_kind == 0 { "1 byte" } else { "255 bytes" },
            if reset { "reset" } else { "clean close" },
            if observed { "that a pending, then abandoned recv saw" } else { "nobody has seen yet" }
        )
    };
    for p in world::panics() {
        v.violate("panic", format!("{}: {}", what, p));
    }
    if v.truncated {
        v.violate("spin", format!("{}: no quiescence", what));
    }
    let o = obs.borrow().clone();
    for l in &o {
        world::log(l.clone());
    }
    if world::panics().is_empty() && !v.truncated {
        if !world::cond("done") {
            v.violate("lives/app-stuck", format!("{}: {:?}", what, o));
        } else {
            let reply_len = rc::encode_message(&[b"reply2".to_vec()]).len();
            let mut want = vec![format!("recv#1 -> Ok{}", rc::show_frames(&[id.clone(), b"m1".to_vec()]))];
            let mut got: Vec<String> = o.clone();
            if observed || still_open {
                // the pending recv: pending, or one error for the reset and then pending
                got.retain(|l| !(l.starts_with("recv (nothing to receive) -> ") && (l.ends_with("pending") || (reset && l.contains("Err")))));
                if observed {
                    want.push("send-to-gone -> Err first+0 second+0 bystander+0".to_string());
                }
            }
            want.push(format!("recv#2 -> Ok{}", rc::show_frames(&[id.clone(), b"m2".to_vec(), vec![]])));
            want.push(format!("reply#2 -> Ok first+0 second+{} bystander+0", reply_len));
            want.push(format!("recv#3 -> Ok{}", rc::show_frames(&[id.clone(), b"m3".to_vec()])));
            want.push(format!("reply#3 -> Ok first+0 second+{} bystander+0", reply_len));
            if got != want {
                let first_bad = got.iter().zip(want.iter()).find(|(g, w)| g != w).map(|(g, _)| g.clone()).unwrap_or_else(|| got.last().cloned().unwrap_or_default());
                let class = if first_bad.starts_with("send-to-gone") {
                    "lives/send-to-gone-identity"
                } else if first_bad.starts_with("recv") {
                    "lives/recv"
                } else {
                    "lives/reply-to-second-life"
                };
                v.violate(class, format!("{}: the application saw {:?}, expected {:?}", what, got, want));
            }
            let dec = a2.tap_decoded();
            let replies: Vec<Vec<Vec<u8>>> = dec.messages();
            if replies != vec![vec![b"reply2".to_vec()], vec![b"reply3".to_vec()]] || dec.error.is_some() {
                v.violate("lives/second-life-wire", format!("{}: the second connection's wire carries {:?}", what, replies.iter().map(|m| rc::show_frames(m)).collect::<Vec<_>>()));
            }
        }
    }
    v.outcome_hash = rc::fnv(o.join("|").as_bytes());
    e3::finish(v)
}

/// A send to peer A is abandoned while A's connection accepts nothing (a timeout around send()),
/// then the connection recovers. A never disconnected, so later sends addressed to A must be
/// delivered to A (whole messages only on its wire), and B's traffic is unaffected.
/// `how`: 0 = abandoned once nothing else can happen, k >= 1 = abandoned after k polls; `big`: 200 kB message.
fn cancel_scenario(id_kind: u8, how: u8, big: bool, policy: u8) -> Verdict {
    world::reset(world::WorldCfg { nested_env: false, yields: true, select: false, policy, coop: false });
    let ida = announced(id_kind, 0);
    let a = e3::raw_conn("A");
    let b = e3::raw_conn("B");
    a.send(&rc::handshake("DEALER", ida.as_deref()));
    b.send(&rc::handshake("DEALER", Some(b"B")));
    let sock = AnySocket::new(Ty::Router, None);
    let obs = std::rc::Rc::new(std::cell::RefCell::new(Vec::<String>::new()));
    let obs2 = obs.clone();
    let assigned_a = std::rc::Rc::new(std::cell::RefCell::new(None::<Vec<u8>>));
    let assigned_a2 = assigned_a.clone();
    let body = move |i: usize| -> Vec<Vec<u8>> {
        if big && i == 1 {
            vec![format!("m{}", i).into_bytes(), rc::pattern(200_000, 9, 0)]
        } else {
            vec![format!("m{}", i).into_bytes(), vec![], b"z".to_vec()]
        }
    };
    world::spawn_app("app", async move {
        let mut sock = sock;
        let Ok(ida) = e3::attach_raw(sock.backend(), a).await else { return };
        let Ok(idb) = e3::attach_raw(sock.backend(), b).await else { return };
        let (ida, idb) = (ida.to_vec(), idb.to_vec());
        *assigned_a2.borrow_mut() = Some(ida.clone());
        let to = |id: &Vec<u8>, i: usize| -> zeromq::ZmqMessage {
            let mut m = vec![id.clone()];
            m.extend(body(i));
            msg(&m)
        };
        let r = sock.send(to(&ida, 0)).await;
        obs2.borrow_mut().push(format!("warm A -> {}", e3::ok_or_err(&r)));
        world::set_wmode(a.from_lib, if big { world::WMode::Budget(70_000) } else { world::WMode::Stalled });
        let fut = sock.send(to(&ida, 1));
        let r = if how == 0 { world::until_idle(fut).await } else { world::poll_k_then_drop(fut, how as usize).await };
        obs2.borrow_mut().push(format!("send to stalled A -> {}", r.as_ref().map(|r| e3::ok_or_err(r)).unwrap_or_else(|| "abandoned".into())));
        let r = sock.send(to(&idb, 2)).await;
        obs2.borrow_mut().push(format!("send B -> {}", e3::ok_or_err(&r)));
        world::set_wmode(a.from_lib, world::WMode::Open);
        for i in 3..6 {
            let target = if i == 4 { &idb } else { &ida };
            let r = world::until_idle(sock.send(to(target, i))).await;
            obs2.borrow_mut().push(format!("send#{} to {} -> {}", i, if i == 4 { "B" } else { "A" }, r.as_ref().map(|r| e3::ok_or_err(r)).unwrap_or_else(|| "pending".into())));
        }
        // A, whose connection merely did not accept data for a while, now sends two messages of its own: they must
        // be received (an abandoned send is not a disconnect: A's read side must still be served)
        a.send(&rc::encode_message(&[b"from-A-1".to_vec()]));
        a.send(&rc::encode_message(&[b"from-A-2".to_vec(), vec![]]));
        for k in 0..2 {
            let r = world::until_idle(sock.recv()).await;
            obs2.borrow_mut().push(format!("recv#{} -> {}", k, r.as_ref().map(e3::show_result).unwrap_or_else(|| "pending".into())));
        }
        world::set_cond("done");
        world::wait_cond("never").await;
        drop(sock);
    });
    let end = world::run(e3::HORIZON * 4);
    let mut v = Verdict::default();
    v.truncated = end != world::RunEnd::Quiescent;
    let what = format!("ROUTER with peers A ({}) and B: a {}send to A abandoned {} while A's connection accepts nothing, then it recovers", ["1-byte identity", "255-byte identity", "auto identity"][id_kind as usize], if big { "200 kB " } else { "" }, if how == 0 { "when nothing else can happen".to_string() } else { format!("after {} poll(s)", how) });
    for p in world::panics() {
        v.violate("panic", format!("{}: {}", what, p));
    }
    let o = obs.borrow().clone();
    for l in &o {
        world::log(l.clone());
    }
    // (an identity assigned by the socket is replaced by a token before anything is hashed: it may differ from run to run)
    let o: Vec<String> = match assigned_a.borrow().as_ref() {
        Some(id) if ida.is_none() && !id.is_empty() => {
            let r = rc::show_frames(&[id.clone()]);
            o.iter().map(|l| l.replace(&r[1..r.len() - 1], "<auto-id>")).collect()
        }
        _ => o,
    };
    if world::panics().is_empty() && !v.truncated {
        if !world::cond("done") {
            v.violate("abandoned-send/app-stuck", format!("{}: {:?}", what, o));
        } else {
            for l in o.iter().filter(|l| l.starts_with("send#") || l.starts_with("send B")) {
                if !l.ends_with("-> Ok") {
                    v.violate("abandoned-send/later-send-to-connected-peer-fails", format!("{}: {} (both peers are connected and accept data)", what, l));
                }
            }
            let abandoned = o.iter().any(|l| l.ends_with("abandoned"));
            let inbound: Vec<&String> = o.iter().filter(|l| l.starts_with("recv#")).collect();
            if inbound.len() != 2 || !inbound[0].contains(&rc::hex(b"from-A-1")) || !inbound[1].contains(&rc::hex(b"from-A-2")) {
                v.violate("abandoned-send/messages-of-the-peer-no-longer-received", format!("{}: afterwards A sent two messages of its own; recv gave {:?}", what, inbound));
            }
            for (name, c, want) in [("A", a, vec![0usize, 3, 5]), ("B", b, vec![2usize, 4])] {
                let t = c.tap();
                let d = rc::decode_stream(&t, true);
                if d.error.is_some() || d.consumed != t.len() {
                    v.violate("abandoned-send/wire-malformed", format!("{}: {}'s wire is malformed or ends inside a message ({:?}; {} of {} bytes parse)", what, name, d.error, d.consumed, t.len()));
                    continue;
                }
                let got = d.messages();
                let mut want_msgs: Vec<Vec<Vec<u8>>> = want.iter().map(|i| body(*i)).collect();
                let with_abandoned: Vec<Vec<Vec<u8>>> = if name == "A" { vec![body(0), body(1), body(3), body(5)] } else { want_msgs.clone() };
                let ok = got == want_msgs || (name == "A" && got == with_abandoned);
                if !ok && v.violations.is_empty() {
                    want_msgs.truncate(4);
                    v.violate(
                        "abandoned-send/delivery",
                        format!("{}: {}'s wire carries {:?}; expected messages {:?}{} (abandoned: {})", what, name, got.iter().map(|m| rc::show_frames(&m[..1])).collect::<Vec<_>>(), want, if name == "A" { " with or without the abandoned #1 after #0" } else { "" }, abandoned),
                    );
                }
            }
        }
    }
    v.outcome_hash = rc::fnv(o.join("|").as_bytes());
    e3::finish(v)
}

/// Assigned identities must be FRESH: not only different from each other but also from what connected peers have
/// announced. An anonymous peer joins and gets identity X; a second peer announces a "neighbour" of X (X with its
/// last byte, its last 4 bytes as a big-endian number, or its first byte stepped by `step`); a third, anonymous peer
/// joins. All three connections must carry different identities, and a message addressed to the announced one must
/// reach the peer that announced it. (With random identities a neighbour is as unlikely as any other value; with a
/// counter it is the next value to be handed out.)
fn guess_scenario(kind: u8, step: i8) -> Verdict {
    world::reset(world::WorldCfg { nested_env: false, yields: false, select: false, policy: 0, coop: false });
    let (a, b, c) = (e3::raw_conn("anon1"), e3::raw_conn("guesser"), e3::raw_conn("anon2"));
    a.send(&rc::handshake("DEALER", None));
    c.send(&rc::handshake("DEALER", None));
    let sock = AnySocket::new(Ty::Router, None);
    let viol = std::rc::Rc::new(std::cell::RefCell::new(Vec::<(String, String)>::new()));
    let viol2 = viol.clone();
    world::spawn_app("app", async move {
        let mut sock = sock;
        let Ok(x) = e3::attach_raw(sock.backend(), a).await else { return };
        let x = x.to_vec();
        if x.is_empty() {
            return;
        }
        let mut g = x.clone();
        let n = g.len();
        match kind {
            0 => g[n - 1] = g[n - 1].wrapping_add(step as u8),
            1 if n >= 4 => {
                let mut w = [0u8; 4];
                w.copy_from_slice(&g[n - 4..]);
                let v = u32::from_be_bytes(w).wrapping_add(step as i32 as u32);
                g[n - 4..].copy_from_slice(&v.to_be_bytes());
            }
            1 => g[n - 1] = g[n - 1].wrapping_add(step as u8),
            _ => g[0] = g[0].wrapping_add(step as u8),
        }
        b.send(&rc::handshake("DEALER", Some(&g)));
        let Ok(gb) = e3::attach_raw(sock.backend(), b).await else { return };
        let Ok(y) = e3::attach_raw(sock.backend(), c).await else { return };
        let (gb, y) = (gb.to_vec(), y.to_vec());
        if gb != g {
            viol2.borrow_mut().push(("identity/not-the-announced-one".into(), format!("the peer that announced a {}-byte identity is registered under another one", g.len())));
            return;
        }
        if y == g || y == x {
            viol2.borrow_mut().push((
                "identity/assigned-identity-not-fresh".into(),
                format!("an anonymous peer was assigned identity X ({} bytes); a connected peer then announced a neighbour of X; the next anonymous peer was assigned {} - two live connections carry one identity", x.len(), if y == g { "exactly that announced identity" } else { "X again" }),
            ));
            return;
        }
        // routing still separates the three
        let before: Vec<usize> = [a, b, c].iter().map(|k| world::tap_len(k.from_lib)).collect();
        let r = sock.send(msg(&[g.clone(), b"for-the-guesser".to_vec()])).await;
        let grew: Vec<usize> = [a, b, c].iter().zip(&before).map(|(k, p)| world::tap_len(k.from_lib) - p).collect();
        if r.is_err() || grew[0] != 0 || grew[2] != 0 || grew[1] == 0 {
            viol2.borrow_mut().push(("identity/send-to-announced-identity-misrouted".into(), format!("send addressed to the announced identity: {} ; wires grew by {:?} (anon1, announcer, anon2)", e3::ok_or_err(&r), grew)));
        }
        world::set_cond("done");
        world::wait_cond("never").await;
        drop(sock);
    });
    let end = world::run(e3::HORIZON);
    let mut v = Verdict::default();
    v.truncated = end != world::RunEnd::Quiescent;
    let what = format!("ROUTER: anonymous peer, then a peer announcing a neighbour of the identity just assigned ({} stepped by {}), then another anonymous peer", ["last byte", "last four bytes as a big-endian number", "first byte"][kind as usize % 3], step);
    for p in world::panics() {
        v.violate("panic", format!("{}: {}", what, p));
    }
    for (c, m) in viol.borrow().iter() {
        v.violate(c.clone(), format!("{}: {}", what, m));
    }
    v.outcome_hash = rc::fnv(format!("{}:{}:{}", kind, step, viol.borrow().len()).as_bytes());
    e3::finish(v)
}

fn pj(p: &Params) -> Value {
    json!({"ids": p.ids, "msgs": p.msgs, "last_peer_leaves": p.last_peer_leaves, "policy": p.policy, "backpressure": p.backpressure, "peer_type": p.peer_type})
}

fn pf(v: &Value) -> Option<Params> {
    Some(Params {
        ids: v["ids"].as_array()?.iter().map(|x| x.as_u64().unwrap_or(0) as u8).collect(),
        msgs: v["msgs"].as_u64()? as usize,
        last_peer_leaves: v["last_peer_leaves"].as_bool()?,
        policy: v["policy"].as_u64().unwrap_or(0) as u8,
        backpressure: v["backpressure"].as_bool().unwrap_or(false),
        peer_type: v["peer_type"].as_u64().unwrap_or(0) as u8,
    })
}

pub fn run(tier: Tier, replay: Option<String>) -> i32 {
    world::install_panic_hook();
    let mut ck = Check::new("C09", tier, "model_checking");
    if let Some(path) = replay {
        let v: Value = serde_json::from_str(&std::fs::read_to_string(&path).expect("read")).expect("json");
        return crate::replay::replay_e3(&v, |p| {
            if p["scenario"] == "guess" {
                let (k, st) = (p["kind"].as_u64()? as u8, p["step"].as_i64()? as i8);
                return Some(std::sync::Arc::new(move || guess_scenario(k, st)) as zvcore::explore::Scenario);
            }
            if p["scenario"] == "cancel" {
                let (k, how, big, pol) = (p["id_kind"].as_u64()? as u8, p["how"].as_u64()? as u8, p["big"].as_bool()?, p["policy"].as_u64()? as u8);
                return Some(std::sync::Arc::new(move || cancel_scenario(k, how, big, pol)) as zvcore::explore::Scenario);
            }
            if p["scenario"] == "lives" {
                let (k, reset, observed, pol) = (p["id_kind"].as_u64()? as u8, p["reset"].as_bool()?, p["observed"].as_bool()?, p["policy"].as_u64()? as u8);
                let still_open = p["still_open"].as_bool().unwrap_or(false);
                return Some(std::sync::Arc::new(move || lives_scenario(k, reset, observed, still_open, pol)) as zvcore::explore::Scenario);
            }
            if p["scenario"] == "reconnect" {
                let (k, pol) = (p["id_kind"].as_u64()? as u8, p["policy"].as_u64()? as u8);
                return Some(std::sync::Arc::new(move || reconnect_scenario(k, pol)) as zvcore::explore::Scenario);
            }
            let pr = pf(p)?;
            Some(std::sync::Arc::new(move || scenario(&pr)) as zvcore::explore::Scenario)
        });
    }
    let mut jobs = Vec::new();
    let mut idsets: Vec<Vec<u8>> = vec![vec![0], vec![2], vec![0, 1], vec![0, 2], vec![2, 2], vec![1, 2], vec![3, 3], vec![4, 4], vec![6], vec![6, 6], vec![6, 2], vec![0, 6]];
    if tier == Tier::Thorough {
        idsets.extend([vec![0, 1, 2], vec![2, 2, 2], vec![0, 0, 0], vec![3, 3, 3], vec![4, 4, 4], vec![6, 6, 6]]);
    }
    for ids in idsets {
        for leaves in [false, true] {
            for policy in 0..3u8 {
                let pr = Params { ids: ids.clone(), msgs: 2, last_peer_leaves: leaves, policy, backpressure: false, peer_type: 0 };
                let pr2 = pr.clone();
                let bound = if ids.len() >= 3 { tier.pick(2, 3) } else { tier.pick(3, 4) };
                jobs.push(e3::job(format!("C09/{:?}/{}/policy{}", ids, leaves, policy), pj(&pr), bound, tier.pick(600_000, 8_000_000), move || scenario(&pr2)));
                // the other two legal peer types of a ROUTER
                if ids.len() <= 2 && policy == 0 {
                    for peer_type in 1..=2u8 {
                        let pr = Params { peer_type, ..pr.clone() };
                        let pr2 = pr.clone();
                        jobs.push(e3::job(format!("C09/{:?}/{}/policy{}/peertype{}", ids, leaves, policy, peer_type), pj(&pr), tier.pick(1, 2), tier.pick(300_000, 3_000_000), move || scenario(&pr2)));
                    }
                }
                if ids.len() == 2 && !leaves {
                    let pr = Params { backpressure: true, ..pr.clone() };
                    let pr2 = pr.clone();
                    jobs.push(e3::job(format!("C09/{:?}/{}/policy{}/bp", ids, leaves, policy), pj(&pr), tier.pick(1, 2), tier.pick(300_000, 3_000_000), move || scenario(&pr2)));
                }
            }
        }
    }
    // scale family (not exhaustive in n): many peers, default schedules
    for &n in tier.pick(&[17usize, 65, 130][..], &[17usize, 65, 130, 257, 520][..]) {
        for kind in [2u8, 5] {
            for policy in 0..3u8 {
                let pr = Params { ids: vec![kind; n], msgs: 1, last_peer_leaves: false, policy, backpressure: false, peer_type: 0 };
                let pr2 = pr.clone();
                jobs.push(e3::job(format!("C09/scale/{}peers/kind{}/policy{}", n, kind, policy), pj(&pr), 0, 1000, move || scenario(&pr2)));
            }
        }
    }
    for id_kind in 0..2u8 {
        for policy in 0..3u8 {
            jobs.push(e3::job(format!("C09/reconnect/id{}/policy{}", id_kind, policy), json!({"scenario":"reconnect","id_kind":id_kind,"policy":policy}), tier.pick(2, 3), tier.pick(300_000, 3_000_000), move || reconnect_scenario(id_kind, policy)));
        }
    }
    for id_kind in 0..2u8 {
        for reset in [false, true] {
            for observed in [true, false] {
                for policy in 0..tier.pick(1u8, 3u8) {
                    jobs.push(e3::job(
                        format!("C09/lives/id{}/reset{}/observed{}/policy{}", id_kind, reset, observed, policy),
                        json!({"scenario":"lives","id_kind":id_kind,"reset":reset,"observed":observed,"policy":policy}),
                        tier.pick(1, 2),
                        tier.pick(100_000, 2_000_000),
                        move || lives_scenario(id_kind, reset, observed, false, policy),
                    ));
                }
            }
        }
        for policy in 0..3u8 {
            jobs.push(e3::job(
                format!("C09/lives/id{}/still-open/policy{}", id_kind, policy),
                json!({"scenario":"lives","id_kind":id_kind,"reset":false,"observed":false,"still_open":true,"policy":policy}),
                tier.pick(1, 2),
                tier.pick(100_000, 2_000_000),
                move || lives_scenario(id_kind, false, false, true, policy),
            ));
        }
    }
    for id_kind in 0..3u8 {
        for how in 0..=tier.pick(2u8, 4u8) {
            for big in [false, true] {
                for policy in 0..3u8 {
                    jobs.push(e3::job(
                        format!("C09/cancel/id{}/how{}/big{}/policy{}", id_kind, how, big, policy),
                        json!({"scenario":"cancel","id_kind":id_kind,"how":how,"big":big,"policy":policy}),
                        if big { tier.pick(1, 2) } else { tier.pick(2, 3) },
                        300_000,
                        move || cancel_scenario(id_kind, how, big, policy),
                    ));
                }
            }
        }
    }
    e3::run_jobs_into(&mut ck, jobs, false);
    // the freshness family runs on ONE worker thread, after everything else: if the library hands out identities from
    // a process-wide counter, nothing else may advance it between "X is assigned" and "the next one is assigned"
    let mut guess_jobs = Vec::new();
    for kind in 0..3u8 {
        for step in [1i8, 2, 3, 4, -1, 16] {
            guess_jobs.push(e3::job(format!("C09/guess/kind{}/step{}", kind, step), json!({"scenario":"guess","kind":kind,"step":step}), 0, 4, move || guess_scenario(kind, step)));
        }
    }
    let threads = ck.threads;
    ck.threads = 1;
    e3::run_jobs_into(&mut ck, guess_jobs, false);
    ck.threads = threads;
    let ex = ck.coverage.get("e3_executions").and_then(|v| v.as_u64()).unwrap_or(0);
    ck.cov("states", ck.coverage.get("e3_distinct_outcomes").and_then(|v| v.as_u64()).unwrap_or(0).max(1));
    ck.cov("transitions", ex);
    ck.cov("traces_validated_against_impl", ex);
    ck.cov("exhaustive", ck.coverage.get("e3_scenarios_capped").and_then(|v| v.as_u64()) == Some(0));
    ck.cov("explanation", "ROUTER socket with 1-3 raw peers whose identities are announced (1 byte / 255 bytes / each a proper prefix of the next / 255 bytes differing in the last byte only) or auto-assigned (no Identity property, or one of length 0), each sending 2 multipart messages (one starting with an empty frame); every schedule within the deviation bound over attach order, delivery order, yield points and deliveries landing inside pipe reads, from 3 default policies. Oracle: the first frame of every recv result is the identity returned by that connection's attach (the announced one when present, else a non-empty value carried by no other connection) and the remaining frames are the reference decode of what that peer wrote, per peer in order; then a send to each identity must appear, minus its first frame, on exactly that peer's wire and on no other; unknown identities must fail with no wire growing; a peer that has closed must not cause bytes on any other wire. Reconnect family: a peer with an announced identity leaves and a new connection announces the same identity while the application is not inside recv: the send for that identity must reach the new connection and nothing the stale one. Scale family (not exhaustive in n): 17 / 65 / 130 (thorough 257, 520) peers with announced or auto-assigned identities, one message each, then a send to every identity, default schedules. Freshness family: an anonymous peer is assigned X, a second peer announces a neighbour of X (last byte / last four bytes / first byte stepped by 1, 2, 3, -1, 16), a third anonymous peer joins: three different identities, routing separates them. Abandoned-send family: a send to A is dropped while A's connection accepts nothing (once nothing else can happen, or after 1..2 (thorough 4) polls; short and 200 kB messages), then the connection recovers: later sends to A and B must succeed and arrive whole, in order, on exactly the addressed peer's wire. states = distinct observed outcomes; transitions = executions.");
    ck.assume("single-frame ROUTER sends are outside the statement and not issued");
    ck.conclude()
}
