//! C01 — message framing conforms to ZMTP 3.0 and round-trips exactly (E1 + E3).

use crate::e1::{self, codec_after_greeting, item_to_ref, norm};
use crate::e3::{self, AnySocket, Ty, ALL_TYPES};
use bytes::BytesMut;
use serde_json::json;
use std::sync::atomic::{AtomicU64, Ordering};
use std::sync::Mutex;
use zeromq::__verif::{Codec, Item};
use zvcore::evidence::{Check, Tier};
use zvcore::explore::Verdict;
use zvcore::refcodec::{self as rc, RItem};
use zvcore::world;

const G: [usize; 10] = [0, 1, 2, 254, 255, 256, 257, 65535, 65536, 65537];

/// Checks one message; Err((class, message)) on violation.
fn check_message(lens: &[usize], seed: u64) -> Result<(), (String, String)> {
    let frames: Vec<Vec<u8>> = lens
        .iter()
        .enumerate()
        .map(|(i, l)| rc::pattern(*l, (i as u64 + 1) * 1000003 + *l as u64, seed))
        .collect();
    let what = if lens.len() > 12 { format!("message of {} frames (lengths {:?}...)", lens.len(), &lens[..6]) } else { format!("message with frame lengths {:?}", lens) };
    check_frames(&frames, what)
}

/// The content family: frame bodies over the alphabet of bytes that mean something to the
/// codec when they stand in a header position (flags 00/01/02/04, ff of the greeting).
const CONTENT_ALPHABET: [u8; 5] = [0x00, 0x01, 0x02, 0x04, 0xff];

fn content_frames(max_len: usize) -> Vec<Vec<u8>> {
    let mut out: Vec<Vec<u8>> = vec![vec![]];
    let mut layer: Vec<Vec<u8>> = vec![vec![]];
    for _ in 0..max_len {
        let mut next = Vec::new();
        for f in &layer {
            for b in CONTENT_ALPHABET {
                let mut g = f.clone();
                g.push(b);
                next.push(g);
            }
        }
        out.extend(next.iter().cloned());
        layer = next;
    }
    out
}

fn check_frames(frames: &[Vec<u8>], what: String) -> Result<(), (String, String)> {
    let frames: Vec<Vec<u8>> = frames.to_vec();
    let want = rc::encode_message(&frames);
    // library encode == reference encode (the encoding is canonical under the statement)
    let mut c = Codec::new();
    let mut out = BytesMut::new();
    world::guarded(|| c.encode_message(e1::msg(&frames), &mut out))
        .map_err(|p| ("panic/encode".to_string(), format!("encode of {} panicked: {}", what, p)))?
        .map_err(|e| ("encode-error".to_string(), format!("encode of {} failed: {}", what, e)))?;
    if out[..] != want[..] {
        let at = out.iter().zip(want.iter()).position(|(a, b)| a != b).unwrap_or(out.len().min(want.len()));
        let class = classify_encode_diff(&frames, &out);
        return Err((
            class,
            format!(
                "{}: library wrote {} bytes, RFC-23 encoding is {} bytes; first difference at offset {} (lib {:02x?} vs rfc {:02x?})",
                what,
                out.len(),
                want.len(),
                at,
                out.get(at),
                want.get(at)
            ),
        ));
    }
    // independent decoder parses the library's bytes back to exactly the same frames
    let d = rc::decode_stream(&out, false);
    if !d.clean(out.len()) || d.messages() != vec![frames.clone()] {
        return Err((
            "ref-decode-mismatch".into(),
            format!("{}: reference decoder does not read the library's bytes back to the same frames ({:?})", what, d.error),
        ));
    }
    // library decode of those bytes yields the identical message, nothing left over
    let mut dc = codec_after_greeting()?;
    let mut buf = BytesMut::from(&out[..]);
    let r = world::guarded(|| dc.decode(&mut buf))
        .map_err(|p| ("panic/decode".to_string(), format!("decode of {} panicked: {}", what, p)))?;
    match r {
        Ok(Some(Item::Message(f))) if f == frames && buf.is_empty() => {}
        other => {
            return Err((
                "lib-decode-mismatch".into(),
                format!(
                    "{}: library decode of its own encoding gave {} with {} bytes left over",
                    what,
                    match &other {
                        Ok(Some(Item::Message(f))) => format!("a message with frame lengths {:?}", f.iter().map(|x| x.len()).collect::<Vec<_>>()),
                        Ok(Some(_)) => "a non-message item".to_string(),
                        Ok(None) => "nothing (wants more bytes)".to_string(),
                        Err(e) => format!("error {}", e),
                    },
                    buf.len()
                ),
            ))
        }
    }
    // and a second decode call on the empty buffer yields nothing
    match world::guarded(|| dc.decode(&mut buf)).map_err(|p| ("panic/decode".to_string(), format!("decode of the empty remainder after {} panicked: {}", what, p)))? {
        Ok(None) => {}
        other => {
            return Err((
                "lib-decode-extra".into(),
                format!("{}: decoding the empty remainder gave {:?}", what, other.map(|o| o.is_some())),
            ))
        }
    }
    // the same bytes handed to the decoder in two pieces, the cut at every offset of every frame's header (1..=9 bytes
    // into it) and one byte before the end: still exactly that message (C02 covers segmentation in general; here it is
    // the frame shapes of THIS property - sizes 0, 255, 256, 65535, 65536, multi-megabyte - whose headers get cut)
    let mut starts: Vec<usize> = Vec::new();
    let mut off = 0usize;
    for f in &frames {
        starts.push(off);
        off += if f.len() > 255 { 9 } else { 2 } + f.len();
    }
    if out.len() > 300_000 && starts.len() > 2 {
        starts = vec![starts[0], *starts.last().unwrap()];
    }
    if starts.len() > 64 {
        // a message of very many frames: the first two, the last two, and the frames around the powers of two
        let n = starts.len();
        let mut keep: Vec<usize> = vec![0, 1, n - 2, n - 1];
        for p in [128usize, 256, 1024, 4096, 65536] {
            for d in [p - 1, p, p + 1] {
                if d < n {
                    keep.push(d);
                }
            }
        }
        keep.sort();
        keep.dedup();
        starts = keep.into_iter().map(|i| starts[i]).collect();
    }
    let mut cuts: Vec<usize> = starts.iter().flat_map(|s| (1..=9).map(move |k| s + k)).chain([out.len() - 1]).filter(|c| *c > 0 && *c < out.len()).collect();
    cuts.sort();
    cuts.dedup();
    for cut in cuts {
        let mut dc = codec_after_greeting()?;
        let mut buf = BytesMut::from(&out[..cut]);
        let mut got: Vec<Vec<Vec<u8>>> = Vec::new();
        let mut bad: Option<String> = None;
        for piece in 0..2 {
            if piece == 1 {
                buf.extend_from_slice(&out[cut..]);
            }
            loop {
                match world::guarded(|| dc.decode(&mut buf)).map_err(|p| ("panic/decode".to_string(), format!("decode of {} handed over in two pieces (cut at {}) panicked: {}", what, cut, p)))? {
                    Ok(Some(Item::Message(f))) => got.push(f),
                    Ok(Some(_)) => {
                        bad = Some("a non-message item".into());
                        break;
                    }
                    Ok(None) => break,
                    Err(e) => {
                        bad = Some(format!("error {}", e));
                        break;
                    }
                }
            }
            if bad.is_some() {
                break;
            }
        }
        if bad.is_some() || got != vec![frames.clone()] || !buf.is_empty() {
            return Err((
                "lib-decode-mismatch/two-pieces".into(),
                format!("{}: handed to the library decoder in two pieces (cut at offset {} of {}), its own encoding gave {} message(s){} with {} bytes left over", what, cut, out.len(), got.len(), bad.map(|b| format!(" and {}", b)).unwrap_or_default(), buf.len()),
            ));
        }
    }
    Ok(())
}

fn classify_encode_diff(frames: &[Vec<u8>], out: &[u8]) -> String {
    // narrow class: which rule of the statement the bytes break
    let d = rc::decode_stream(out, false);
    if let Some(e) = &d.error {
        return format!("encode/malformed/{}", e.split(':').next().unwrap_or("").replace(' ', "-"));
    }
    let msgs = d.messages();
    if d.consumed != out.len() {
        return "encode/truncated-or-extra-bytes".into();
    }
    if msgs.len() != 1 {
        return "encode/MORE-flag".into();
    }
    if msgs[0] != frames {
        return "encode/frame-content".into();
    }
    "encode/size-width".into()
}

fn check_greeting(version: (u8, u8), mech: u8, as_server: bool) -> Result<(), (String, String)> {
    let mname: &[u8] = match mech {
        0 => b"NULL",
        1 => b"PLAIN",
        _ => b"CURVE",
    };
    let want = rc::encode_greeting(version, mname, as_server);
    let mut c = Codec::new();
    let mut out = BytesMut::new();
    world::guarded(|| c.encode_greeting(version, mech, as_server, &mut out))
        .map_err(|p| ("panic/encode-greeting".to_string(), p))?
        .map_err(|e| ("encode-error".to_string(), e))?;
    let what = format!("greeting version {:?} mechanism {} as_server {}", version, String::from_utf8_lossy(mname), as_server);
    if out[..] != want[..] {
        return Err(("greeting/bytes".into(), format!("{}: library {} vs rfc {}", what, rc::hex(&out), rc::hex(&want))));
    }
    let d = rc::decode_stream(&out, true);
    if !d.clean(64) {
        return Err(("greeting/malformed".into(), format!("{}: {:?}", what, d.error)));
    }
    let mut dc = Codec::new();
    let mut b = BytesMut::from(&out[..]);
    match world::guarded(|| dc.decode(&mut b)).map_err(|p| ("panic/decode-greeting".to_string(), p))? {
        Ok(Some(Item::Greeting {
            version: v,
            mechanism,
            as_server: s,
        })) if v == version && mechanism.as_bytes() == mname && s == as_server && b.is_empty() => Ok(()),
        other => Err(("greeting/lib-decode".into(), format!("{}: library decodes it as {:?}", what, other))),
    }
}

fn check_ready_encoding(ty: zeromq::SocketType, props: &[(String, Vec<u8>)]) -> Result<(), (String, String)> {
    let mut c = Codec::new();
    let mut out = BytesMut::new();
    world::guarded(|| c.encode_ready(ty, props.to_vec(), &mut out))
        .map_err(|p| ("panic/encode-ready".to_string(), p))?
        .map_err(|e| ("encode-error".to_string(), e))?;
    let what = format!(
        "READY for {} with properties {:?}",
        ty,
        props.iter().map(|(k, v)| (k.clone(), v.len())).collect::<Vec<_>>()
    );
    check_ready_bytes(&out, ty.as_str(), props, &what)
}

/// READY bytes must parse under the reference decoder, name READY, Socket-Type as
/// given, the listed properties present with equal values, every length field
/// consistent, flags 04/06 by body size.
fn check_ready_bytes(out: &[u8], ty: &str, props: &[(String, Vec<u8>)], what: &str) -> Result<(), (String, String)> {
    let d = rc::decode_stream(out, false);
    if !d.clean(out.len()) || d.items.len() != 1 {
        return Err((
            "ready/malformed".into(),
            format!("{}: reference decoder: error {:?}, {} items, consumed {} of {}", what, d.error, d.items.len(), d.consumed, out.len()),
        ));
    }
    let RItem::Command { name, props: got, long } = &d.items[0].0 else {
        return Err(("ready/not-a-command".into(), format!("{}: not a command frame", what)));
    };
    if name != b"READY" {
        return Err(("ready/name".into(), format!("{}: command name {:?}", what, String::from_utf8_lossy(name))));
    }
    let body_len = if *long { out.len() - 9 } else { out.len() - 2 };
    if *long != (body_len > 255) {
        return Err((
            "ready/size-width".into(),
            format!("{}: body of {} bytes sent with flags {:#04x}", what, body_len, out[0]),
        ));
    }
    let mut want: Vec<(Vec<u8>, Vec<u8>)> = vec![(b"Socket-Type".to_vec(), ty.as_bytes().to_vec())];
    for (k, v) in props {
        want.retain(|(wk, _)| wk != k.as_bytes());
        want.push((k.as_bytes().to_vec(), v.clone()));
    }
    want.sort();
    let mut g = got.clone();
    g.sort();
    if g != want {
        return Err((
            "ready/properties".into(),
            format!(
                "{}: properties on the wire {:?}",
                what,
                g.iter().map(|(k, v)| (String::from_utf8_lossy(k).to_string(), v.len())).collect::<Vec<_>>()
            ),
        ));
    }
    // library decode of its own READY
    let mut dc = codec_after_greeting()?;
    let mut b = BytesMut::from(out);
    match world::guarded(|| dc.decode(&mut b)).map_err(|p| ("panic/decode-ready".to_string(), p))? {
        Ok(Some(it)) if norm(&item_to_ref(&it)) == norm(&d.items[0].0) && b.is_empty() => Ok(()),
        other => Err(("ready/lib-decode".into(), format!("{}: library decodes it as {:?}", what, other))),
    }
}

/// (c) what each socket type writes on an attached connection.
fn handshake_scenario(ty: Ty, identity: Option<Vec<u8>>) -> Verdict {
    world::reset(Default::default());
    let c = e3::raw_conn("p");
    c.send(&rc::handshake(ty.peer_type(), None));
    let sock = AnySocket::new(ty, identity.as_deref());
    let be = sock.backend();
    world::spawn_app("attach", async move {
        let r = e3::attach_raw(be, c).await;
        world::log(format!("attach -> {}", r.map(|_| "Ok".to_string()).unwrap_or_else(|e| format!("Err({})", e))));
        world::set_cond("attached");
    });
    world::spawn_app("owner", async move {
        world::wait_cond("attached").await;
        drop(sock);
    });
    let end = world::run(e3::HORIZON);
    let mut v = Verdict::default();
    let tap = c.tap();
    let what = format!("{} socket with identity {:?}", ty.name(), identity.as_ref().map(|i| i.len()));
    if end != world::RunEnd::Quiescent {
        v.truncated = true;
    }
    if !world::log_snapshot().iter().any(|l| l.contains("attach -> Ok")) {
        v.violate("handshake/attach-failed", format!("{}: attach of a well-behaved peer did not succeed", what));
    } else if tap.len() < 64 {
        v.violate("greeting/short", format!("{}: wrote only {} bytes", what, tap.len()));
    } else {
        let want_g = rc::default_greeting();
        if tap[..64] != want_g[..] {
            v.violate(
                "greeting/bytes",
                format!("{}: greeting on the wire {} differs from RFC 3.0/NULL greeting", what, rc::hex(&tap[..64])),
            );
        }
        let props: Vec<(String, Vec<u8>)> = identity.iter().map(|i| ("Identity".to_string(), i.clone())).collect();
        if let Err((class, m)) = check_ready_bytes(&tap[64..], ty.name(), &props, &format!("{} (bytes after the greeting)", what)) {
            v.violate(class, m);
        }
    }
    v.outcome_hash = rc::fnv(&tap[..tap.len().min(64)]) ^ rc::fnv(&(tap.len() as u64).to_le_bytes());
    e3::finish(v)
}

/// (d) what a sending socket writes for one application message: exactly the RFC-23
/// encoding of (envelope +) message, whatever the transport accepts per write call.
fn wire_scenario(ty: Ty, lens: &[usize], limit: Option<usize>, seed: u64) -> Verdict {
    world::reset(world::WorldCfg { select: false, ..Default::default() });
    let c = e3::raw_conn("p");
    c.send(&rc::handshake(ty.peer_type(), Some(b"ID0")));
    match ty {
        Ty::Pub => c.send(&rc::encode_message(&[vec![1u8]])),
        Ty::Rep => c.send(&rc::encode_message(&[vec![], b"q".to_vec()])),
        _ => {}
    }
    if let Some(k) = limit {
        world::set_wmode(c.from_lib, world::WMode::Limit(k));
    }
    let frames: Vec<Vec<u8>> = lens
        .iter()
        .enumerate()
        .map(|(i, l)| rc::pattern(*l, (i as u64 + 1) * 1000003 + *l as u64, seed))
        .collect();
    let mut wire_m = frames.clone();
    let mut app_m = frames.clone();
    match ty {
        Ty::Req | Ty::Rep => wire_m.insert(0, vec![]),
        Ty::Router => app_m.insert(0, b"ID0".to_vec()),
        _ => {}
    }
    let sock = AnySocket::new(ty, None);
    let be = sock.backend();
    world::spawn_app("app", async move {
        let mut sock = sock;
        let r = e3::attach_raw(be, c).await;
        world::log(format!("attach -> {}", e3::ok_or_err(&r)));
        match ty {
            Ty::Pub => world::idle().await,
            Ty::Rep => {
                let r = sock.recv().await;
                world::log(format!("recv -> {}", e3::show_result(&r)));
            }
            _ => {}
        }
        let r = sock.send(e1::msg(&app_m)).await;
        world::log(format!("send -> {}", e3::ok_or_err(&r)));
        world::idle().await;
        world::set_cond("sent");
        drop(sock);
    });
    let end = world::run(2_000_000);
    let mut v = Verdict::default();
    if end != world::RunEnd::Quiescent {
        v.truncated = true;
    }
    let what = format!("{} sending a message with frame lengths {:?} (transport accepts {} per write)", ty.name(), lens, limit.map(|k| format!("{} B", k)).unwrap_or("everything".into()));
    let log = world::log_snapshot();
    let tap = c.tap();
    let d = rc::decode_stream(&tap, true);
    let app_start = d.items.iter().find(|(it, _)| matches!(it, RItem::Command { .. })).map(|(_, e)| *e);
    if !log.iter().any(|l| l.contains("send -> Ok")) {
        v.violate("wire/send-failed", format!("{}: send did not return Ok: {:?}", what, log));
    } else if let Some(st) = app_start {
        let got = &tap[st..];
        let want = rc::encode_message(&wire_m);
        if got != &want[..] {
            let at = got.iter().zip(want.iter()).position(|(a, b)| a != b).unwrap_or(got.len().min(want.len()));
            v.violate(
                "wire/bytes-differ-from-rfc-encoding",
                format!("{}: {} application bytes on the wire, RFC-23 encoding has {}; first difference at offset {}", what, got.len(), want.len(), at),
            );
        }
    } else {
        v.violate("wire/no-ready", format!("{}: no READY on the wire", what));
    }
    v.outcome_hash = rc::fnv(&tap[tap.len().min(64)..]) ^ world::hash_log(&e3::canon_log());
    e3::finish(v)
}

type Viol = Mutex<Vec<(String, String, serde_json::Value)>>;

/// every message of 1..=nmax frames drawn from `cf`
fn sweep_content(cf: &[Vec<u8>], nmax: u32, threads: usize, viol: &Viol, evaluated: &AtomicU64) -> u64 {
    let nf = cf.len() as u64;
    let mut starts = vec![0u64];
    for n in 1..=nmax {
        starts.push(starts.last().unwrap() + nf.pow(n));
    }
    let total = *starts.last().unwrap();
    let next = AtomicU64::new(0);
    std::thread::scope(|sc| {
        for _ in 0..threads {
            sc.spawn(|| loop {
                let base = next.fetch_add(4096, Ordering::Relaxed);
                if base >= total {
                    break;
                }
                let hi = (base + 4096).min(total);
                for i in base..hi {
                    let n = (1..=nmax as usize).find(|n| i < starts[*n]).unwrap();
                    let mut j = i - starts[n - 1];
                    let mut frames: Vec<Vec<u8>> = Vec::with_capacity(n);
                    for _ in 0..n {
                        frames.push(cf[(j % nf) as usize].clone());
                        j /= nf;
                    }
                    if let Err((c, m)) = check_frames(&frames, format!("message with frames {}", rc::show_frames(&frames))) {
                        let mut g = viol.lock().unwrap();
                        if g.len() < 64 {
                            g.push((c, m, json!({"engine":"E1","kind":"content","frames": frames.iter().map(|f| rc::hex(f)).collect::<Vec<_>>()})));
                        }
                    }
                }
                evaluated.fetch_add(hi - base, Ordering::Relaxed);
            });
        }
    });
    total
}

/// (e) encoding into a write buffer that is not empty: the connection accepts a few bytes and stalls, further
/// messages are sent meanwhile (PUB: published; PUSH/DEALER/ROUTER: a send abandoned while it waits, then sent
/// again), then the connection re-opens. Whatever reaches the wire must be a well-formed RFC-23 stream whose
/// messages are exactly (a subsequence of, for PUB) the messages sent, each intact.
fn backlog_scenario(ty: Ty, budget: usize, lens: &[usize], seed: u64) -> Verdict {
    world::reset(world::WorldCfg { select: false, ..Default::default() });
    let c = e3::raw_conn("p");
    c.send(&rc::handshake(ty.peer_type(), Some(b"ID0")));
    if ty == Ty::Pub {
        c.send(&rc::encode_message(&[vec![1u8]]));
    }
    let msgs: Vec<Vec<Vec<u8>>> = (0..4u64)
        .map(|k| {
            let mut m: Vec<Vec<u8>> = lens.iter().enumerate().map(|(i, l)| rc::pattern(*l, (k + 1) * 7919 + i as u64, seed)).collect();
            m.insert(0, format!("m{}", k).into_bytes());
            m
        })
        .collect();
    let msgs2 = msgs.clone();
    let sock = AnySocket::new(ty, None);
    let be = sock.backend();
    world::spawn_app("app", async move {
        let mut sock = sock;
        let _ = e3::attach_raw(be, c).await;
        if ty == Ty::Pub {
            world::idle().await;
        }
        let to_app = |m: &Vec<Vec<u8>>| -> zeromq::ZmqMessage {
            let mut m = m.clone();
            if ty == Ty::Router {
                m.insert(0, b"ID0".to_vec());
            }
            e1::msg(&m)
        };
        let r = sock.send(to_app(&msgs2[0])).await;
        world::log(format!("send#0 -> {}", e3::ok_or_err(&r)));
        world::set_wmode(c.from_lib, world::WMode::Budget(budget));
        for k in 1..3 {
            // PUB never waits; the others are abandoned once nothing else can happen
            let r = world::until_idle(sock.send(to_app(&msgs2[k]))).await;
            world::log(format!("send#{} -> {}", k, r.as_ref().map(|r| e3::ok_or_err(r)).unwrap_or_else(|| "abandoned".into())));
        }
        world::set_wmode(c.from_lib, world::WMode::Open);
        for _ in 0..2 {
            let r = world::until_idle(sock.send(to_app(&msgs2[3]))).await;
            world::log(format!("send#3 -> {}", r.as_ref().map(|r| e3::ok_or_err(r)).unwrap_or_else(|| "pending".into())));
        }
        world::idle().await;
        world::set_cond("done");
        world::wait_cond("never").await;
        drop(sock);
    });
    let end = world::run(2_000_000);
    let mut v = Verdict::default();
    v.truncated = end != world::RunEnd::Quiescent;
    let what = format!("{} sending messages with frame lengths {:?} while its peer's connection accepts {} more bytes and then nothing for a while", ty.name(), lens, budget);
    let tap = c.tap();
    let d = rc::decode_stream(&tap, true);
    if !world::cond("done") && world::panics().is_empty() {
        v.violate("backlog/app-stuck", format!("{}: the sender did not finish: {:?}", what, world::log_snapshot()));
    } else if d.error.is_some() || d.consumed != tap.len() {
        v.violate("backlog/wire-malformed", format!("{}: the bytes on the wire are not a well-formed sequence of complete frames ({:?}; {} of {} bytes parse)", what, d.error, d.consumed, tap.len()));
    } else {
        let got = d.messages();
        // every message on the wire is one of the messages sent, intact, in sending order (repeats of the last one allowed)
        let mut idx = 0usize;
        for g in &got {
            match msgs[idx..].iter().position(|m| m == g) {
                Some(p) => idx += p,
                None => {
                    v.violate(
                        "backlog/message-on-the-wire-differs-from-what-was-sent",
                        format!("{}: the wire carries a message of {} frames (lengths {:?}) that is not one of the messages sent, or out of order", what, g.len(), g.iter().map(|f| f.len()).take(8).collect::<Vec<_>>()),
                    );
                    break;
                }
            }
        }
        if !got.contains(&msgs[0]) || !got.contains(&msgs[3]) {
            v.violate("backlog/message-missing", format!("{}: the first or the last message (sent while the connection accepted data) is not on the wire; {} messages are", what, got.len()));
        }
    }
    v.outcome_hash = rc::fnv(&(tap.len() as u64).to_le_bytes()) ^ world::hash_log(&e3::canon_log());
    e3::finish(v)
}

const WIRE_TYPES: [Ty; 6] = [Ty::Push, Ty::Dealer, Ty::Req, Ty::Pub, Ty::Router, Ty::Rep];

pub fn run(tier: Tier, replay: Option<String>) -> i32 {
    world::install_panic_hook();
    let mut ck = Check::new("C01", tier, "model_checking");
    let seed = ck.seed;
    if let Some(path) = replay {
        return run_replay(&path);
    }
    // (a) message grid
    let mut grids: Vec<Vec<usize>> = Vec::new();
    for a in G {
        grids.push(vec![a]);
        for b in G {
            grids.push(vec![a, b]);
            for c in G {
                grids.push(vec![a, b, c]);
            }
        }
    }
    if tier == Tier::Thorough {
        let g2: Vec<usize> = G
            .iter()
            .copied()
            .chain([(1 << 20) - 1, 1 << 20, (1 << 20) + 1, (4 << 20) + 3])
            .collect();
        for a in &g2 {
            if !G.contains(a) {
                grids.push(vec![*a]);
            }
            for b in &g2 {
                if !(G.contains(a) && G.contains(b)) {
                    grids.push(vec![*a, *b]);
                }
            }
        }
        let g4 = [0usize, 1, 255, 256, 257];
        for a in g4 {
            for b in g4 {
                for c in g4 {
                    for d in g4 {
                        grids.push(vec![a, b, c, d]);
                    }
                }
            }
        }
        // every length around the short/long boundary and a dense sweep of small sizes
        for l in 0..=600usize {
            grids.push(vec![l, 600 - l]);
        }
    } else {
        for l in 240..=270usize {
            grids.push(vec![l, 3]);
        }
    }
    // frame COUNTS: messages of n tiny frames (lengths 0 and 1 alternating) for n around every power of two up to
    // 4096 and a few very large n (any per-call work bound, batch size or counter width in the codec sits at such an n)
    let mut counts: Vec<usize> = vec![4, 5, 8, 16, 17, 31, 32, 33, 63, 64, 65, 100, 127, 128, 129, 255, 256, 257, 511, 512, 513, 1000, 1023, 1024, 1025, 1026, 2047, 2048, 2049, 4095, 4096, 4097, 10_000, 20_000];
    if tier == Tier::Thorough {
        counts.extend([8191, 8192, 8193, 16_384, 32_768, 65_535, 65_536, 65_537, 70_000, 200_000]);
    }
    for n in counts {
        grids.push((0..n).map(|i| i % 2).collect());
        if n <= 4097 {
            grids.push(vec![0; n]);
            grids.push((0..n).map(|i| if i + 1 == n { 300 } else { 1 }).collect());
        }
    }
    let next = AtomicU64::new(0);
    let viol: Viol = Mutex::new(Vec::new());
    let evaluated = AtomicU64::new(0);
    std::thread::scope(|sc| {
        for _ in 0..ck.threads {
            sc.spawn(|| loop {
                let i = next.fetch_add(1, Ordering::Relaxed) as usize;
                if i >= grids.len() {
                    break;
                }
                evaluated.fetch_add(1, Ordering::Relaxed);
                if let Err((c, m)) = check_message(&grids[i], seed) {
                    viol.lock().unwrap().push((c, m, json!({"engine":"E1","kind":"message","lens": grids[i], "seed": seed})));
                }
            });
        }
    });
    // (a') content family: every message of <= 3 frames whose bodies are words over the
    // header-like alphabet (contents must never influence framing)
    let mut n_content = sweep_content(&content_frames(3), 3, ck.threads, &viol, &evaluated);
    if tier == Tier::Thorough {
        n_content += sweep_content(&content_frames(5), 2, ck.threads, &viol, &evaluated);
        n_content += sweep_content(&content_frames(2), 4, ck.threads, &viol, &evaluated);
        n_content += sweep_content(&content_frames(1), 6, ck.threads, &viol, &evaluated);
    }
    let n_msgs = grids.len() + n_content as usize;
    // (b) greetings
    let mut n_greet = 0;
    for version in [(1u8, 0u8), (2, 1), (3, 0), (3, 1), (4, 0)] {
        for mech in 0..3u8 {
            for as_server in [false, true] {
                n_greet += 1;
                if let Err((c, m)) = check_greeting(version, mech, as_server) {
                    viol.lock().unwrap().push((c, m, json!({"engine":"E1","kind":"greeting","version":[version.0,version.1],"mech":mech,"as_server":as_server})));
                }
            }
        }
    }
    // (b') READY encodings through the codec: all 12 socket types x identity sizes (long form at 255)
    let mut n_ready = 0;
    let all_types = [
        "PAIR", "PUB", "SUB", "REQ", "REP", "DEALER", "ROUTER", "PULL", "PUSH", "XPUB", "XSUB", "STREAM",
    ];
    for t in all_types {
        let ty: zeromq::SocketType = t.parse().unwrap();
        for idlen in std::iter::once(None).chain((0usize..=255).map(Some)) {
            let props: Vec<(String, Vec<u8>)> = idlen
                .map(|l| vec![("Identity".to_string(), rc::pattern(l, 7, seed))])
                .unwrap_or_default();
            n_ready += 1;
            if let Err((c, m)) = check_ready_encoding(ty, &props) {
                viol.lock().unwrap().push((c, m, json!({"engine":"E1","kind":"ready","type":t,"identity_len":idlen})));
            }
        }
    }
    let mut vs = viol.into_inner().unwrap();
    vs.sort_by_key(|v| v.2.to_string().len());
    for (c, m, r) in vs {
        ck.finding(c, m, r);
    }
    // (c) the bytes each socket type really writes on a connection
    let mut jobs = Vec::new();
    for ty in ALL_TYPES {
        for id in std::iter::once(None).chain((1usize..=255).map(Some)) {
            let idv = id.map(|l| rc::pattern(l, 11, seed).iter().map(|b| b | 1).collect::<Vec<u8>>());
            let idv2 = idv.clone();
            let special = matches!(id, None | Some(1) | Some(255));
            jobs.push(e3::job(
                format!("C01/handshake/{}/id{:?}", ty.name(), id),
                json!({"scenario":"handshake","type":ty.name(),"identity_len":id, "seed": seed}),
                if special { tier.pick(1, 2) } else { tier.pick(0, 1) },
                200_000,
                move || handshake_scenario(ty, idv2.clone()),
            ));
        }
    }
    let n_hs = jobs.len();
    // (d) application messages through the sending sockets
    let gs: [usize; 5] = [0, 1, 255, 256, 65536];
    let mut wire_msgs: Vec<Vec<usize>> = Vec::new();
    for a in gs {
        wire_msgs.push(vec![a]);
        for b in gs {
            wire_msgs.push(vec![a, b]);
        }
    }
    if tier == Tier::Thorough {
        for a in [0usize, 255, 256] {
            for b in [0usize, 255, 256] {
                for c in [0usize, 255, 256, 65535] {
                    wire_msgs.push(vec![a, b, c]);
                }
            }
        }
        wire_msgs.push(vec![1 << 20, 0, (1 << 20) + 1]);
    }
    let mut n_wire = 0usize;
    for ty in WIRE_TYPES {
        for lens in &wire_msgs {
            let total: usize = lens.iter().sum();
            for limit in [None, Some(if total > 10_000 { 4093usize } else { 3 })] {
                let lens2 = lens.clone();
                n_wire += 1;
                jobs.push(e3::job(
                    format!("C01/wire/{}/{:?}/{:?}", ty.name(), lens, limit),
                    json!({"scenario":"wire","type":ty.name(),"lens":lens,"limit":limit,"seed":seed}),
                    tier.pick(1, 2),
                    50_000,
                    move || wire_scenario(ty, &lens2, limit, seed),
                ));
            }
        }
    }
    // (e) encoding into a non-empty write buffer
    let mut n_backlog = 0usize;
    for ty in [Ty::Pub, Ty::Push, Ty::Dealer, Ty::Router] {
        for lens in [vec![3usize], vec![0], vec![255, 256], vec![300, 0, 5], vec![70_000]] {
            for budget in [0usize, 1, 2, 9, 10, 11, 300, 1000] {
                let lens2 = lens.clone();
                n_backlog += 1;
                jobs.push(e3::job(
                    format!("C01/backlog/{}/{:?}/{}", ty.name(), lens, budget),
                    json!({"scenario":"backlog","type":ty.name(),"lens":lens,"budget":budget,"seed":seed}),
                    tier.pick(0, 1),
                    20_000,
                    move || backlog_scenario(ty, budget, &lens2, seed),
                ));
            }
        }
    }
    e3::run_jobs_into(&mut ck, jobs, false);
    let evals = evaluated.load(Ordering::Relaxed) + n_greet + n_ready + ck.coverage.get("e3_executions").and_then(|v| v.as_u64()).unwrap_or(0);
    ck.cov("evaluations", evals);
    ck.cov("distinct_nontrivial", (n_msgs + n_greet as usize + n_ready as usize + n_hs + n_wire) as u64);
    ck.cov("messages_checked", n_msgs as u64);
    ck.cov("greetings_checked", n_greet);
    ck.cov("ready_encodings_checked", n_ready);
    ck.cov("handshake_scenarios", n_hs as u64);
    ck.cov("socket_wire_scenarios", n_wire as u64);
    ck.cov("socket_backlog_scenarios", n_backlog as u64);
    ck.cov("content_family_messages", n_content);
    ck.cov("rule", format!("(a) every message whose frame lengths are in G^N, G={:?}, N<=3 (thorough: + MiB sizes for N<=2, {{0,1,255,256,257}}^4, all splits of 600 bytes) — each distinct length vector is a distinct case and non-trivial (encode, reference decode, library decode all run); (b) 5 versions x 3 mechanisms x as-server greetings; 12 socket types x every identity length 0..=255 (and none) READY encodings; (c) the bytes each of the 9 socket types writes on an attached connection for no identity and every identity length 1..=255 (all schedules with <= {} deviations for none/1 B/255 B, one fewer for the other lengths); (a') every message of <= 3 frames whose bodies are words of length <= 3 over the header-like bytes {{00,01,02,04,ff}} (thorough: + <= 2 frames of length <= 5, <= 4 frames of length <= 2, <= 6 frames of length <= 1); (d) PUSH/DEALER/REQ/PUB/ROUTER/REP each sending every message with frame lengths in {{0,1,255,256,65536}}^(1..2) (thorough: + 3-frame and MiB messages) over a transport that accepts everything or only 3 B / 4093 B per write: application bytes on the wire == RFC-23 encoding of envelope + message; (e) PUB/PUSH/DEALER/ROUTER encoding into a write buffer that is NOT empty (the connection accepts 0..1000 more bytes and stalls while further messages are published / sent and abandoned, then re-opens): the wire is a well-formed stream of exactly the messages sent, each intact. Other frame contents are a pattern keyed by VERIF_SEED (contents never influence codec control flow).", G, tier.pick(1, 2)));
    ck.cov("exhaustive", true);
    ck.cov("traces_validated_against_impl", evals);
    ck.sample(json!({"message_frame_lengths": [255, 256, 0], "rfc_encoding_prefix": rc::hex(&rc::encode_message(&[vec![1u8; 255], vec![2u8; 256], vec![]])[..2])}));
    ck.assume("the reference codec (zvcore/src/refcodec.rs) is a faithful reading of RFC 23");
    ck.assume("lengths between grid points and above 4 MiB are not covered");
    ck.conclude()
}

fn run_replay(path: &str) -> i32 {
    let v: serde_json::Value = serde_json::from_str(&std::fs::read_to_string(path).expect("read")).expect("json");
    let r = &v["replay"];
    let res = match r["kind"].as_str() {
        Some("message") => {
            let lens: Vec<usize> = r["lens"].as_array().unwrap().iter().map(|x| x.as_u64().unwrap() as usize).collect();
            check_message(&lens, r["seed"].as_u64().unwrap_or(0))
        }
        Some("content") => {
            let frames: Vec<Vec<u8>> = r["frames"].as_array().unwrap().iter().map(|x| rc::unhex(x.as_str().unwrap())).collect();
            check_frames(&frames, format!("message with frames {}", rc::show_frames(&frames)))
        }
        Some("greeting") => check_greeting(
            (r["version"][0].as_u64().unwrap() as u8, r["version"][1].as_u64().unwrap() as u8),
            r["mech"].as_u64().unwrap() as u8,
            r["as_server"].as_bool().unwrap(),
        ),
        Some("ready") => {
            let ty: zeromq::SocketType = r["type"].as_str().unwrap().parse().unwrap();
            let props: Vec<(String, Vec<u8>)> = r["identity_len"]
                .as_u64()
                .map(|l| vec![("Identity".to_string(), rc::pattern(l as usize, 7, 0))])
                .unwrap_or_default();
            check_ready_encoding(ty, &props)
        }
        _ => {
            if r["engine"] == "E3" {
                return crate::replay::replay_e3(&v, |p| {
                    let ty = Ty::from_name(p["type"].as_str()?)?;
                    let seed = p["seed"].as_u64().unwrap_or(0);
                    if p["scenario"] == "backlog" {
                        let lens: Vec<usize> = p["lens"].as_array()?.iter().map(|x| x.as_u64().unwrap() as usize).collect();
                        let budget = p["budget"].as_u64()? as usize;
                        return Some(std::sync::Arc::new(move || backlog_scenario(ty, budget, &lens, seed)) as zvcore::explore::Scenario);
                    }
                    if p["scenario"] == "wire" {
                        let lens: Vec<usize> = p["lens"].as_array()?.iter().map(|x| x.as_u64().unwrap() as usize).collect();
                        let limit = p["limit"].as_u64().map(|x| x as usize);
                        return Some(std::sync::Arc::new(move || wire_scenario(ty, &lens, limit, seed)) as zvcore::explore::Scenario);
                    }
                    let id = p["identity_len"].as_u64().map(|l| rc::pattern(l as usize, 11, seed).iter().map(|b| b | 1).collect::<Vec<u8>>());
                    Some(std::sync::Arc::new(move || handshake_scenario(ty, id.clone())) as zvcore::explore::Scenario)
                });
            }
            eprintln!("unknown replay kind");
            return 2;
        }
    };
    match res {
        Ok(()) => {
            println!("replay: holds");
            0
        }
        Err((c, m)) => {
            println!("replay: VIOLATION {}: {}", c, m);
            1
        }
    }
}
