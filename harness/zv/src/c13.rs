//! C13 — a SUB socket's subscriptions reach every peer, including late joiners (E3).

use crate::e3::{self, Ty};
use serde_json::{json, Value};
use std::collections::BTreeMap;
use zeromq::prelude::*;
use zeromq::SubSocket;
use zvcore::evidence::{Check, Tier};
use zvcore::explore::Verdict;
use zvcore::refcodec as rc;
use zvcore::world::{self, WMode};

/// ops: 0..3 subscribe to TOPICS[i], 3..6 unsubscribe from TOPICS[i-3]
/// (the alphabet contains a topic that is a proper prefix of another one, and an unrelated one)
const TOPICS: [&str; 3] = ["a", "ab", "b"];
const NT: u8 = 3;
#[derive(Clone, Debug)]
struct Params {
    hist: Vec<u8>,
    peers: usize,
    /// Some(p): peer p's connection starts failing writes at some point (scripted environment event)
    failing: Option<usize>,
    api_first: bool,
    hash_key: u64,
    policy: u8,
    /// one more peer joins only after every call has returned
    late_joiner: bool,
    /// the calls start only after every (non-late) peer has attached; a failing peer's connection
    /// breaks right then (instead of at a scheduler-chosen moment)
    calls_after_attach: bool,
}

fn topic(op: u8) -> &'static str {
    TOPICS[(op % NT) as usize]
}

fn fold(msgs: &[Vec<Vec<u8>>]) -> BTreeMap<Vec<u8>, i32> {
    let mut c: BTreeMap<Vec<u8>, i32> = BTreeMap::new();
    for m in msgs {
        if m.len() != 1 || m[0].is_empty() {
            continue;
        }
        let t = m[0][1..].to_vec();
        match m[0][0] {
            1 => *c.entry(t).or_insert(0) += 1,
            0 => {
                let e = c.entry(t).or_insert(0);
                if *e > 0 {
                    *e -= 1;
                }
            }
            _ => {}
        }
    }
    c
}

fn scenario(pr: &Params) -> Verdict {
    e3::set_hash_key(pr.hash_key);
    // the failing peer's writes fail with EPIPE under even table keys, with ECONNRESET under odd ones
    let fail_kind = if pr.hash_key % 2 == 0 { std::io::ErrorKind::BrokenPipe } else { std::io::ErrorKind::ConnectionReset };
    world::reset(world::WorldCfg { nested_env: false, yields: true, select: false, policy: pr.policy, coop: false });
    let n = pr.peers + pr.late_joiner as usize;
    let conns: Vec<e3::RawConn> = (0..n).map(|p| e3::raw_conn(&format!("P{}", p))).collect();
    for (p, c) in conns.iter().enumerate() {
        if pr.late_joiner && p + 1 == n {
            c.gate("api-done");
        }
        c.send(&rc::handshake("PUB", Some(format!("PUB{}", p).as_bytes())));
        if pr.failing == Some(p) && !pr.calls_after_attach {
            world::script_wmodes(c.from_lib, &[WMode::Fail(fail_kind)]);
        }
    }
    let sock = SubSocket::new();
    let be = sock.backend();
    let hist = pr.hist.clone();
    let (wait_attach, early_peers, failing_duct) = (pr.calls_after_attach, pr.peers, pr.failing.map(|p| conns[p].from_lib));
    let api = move || {
        let mut sock = sock;
        async move {
            if wait_attach {
                for p in 0..early_peers {
                    world::wait_cond(&format!("attached{}", p)).await;
                }
                if let Some(d) = failing_duct {
                    world::set_wmode(d, WMode::Fail(fail_kind));
                }
            }
            for (i, op) in hist.iter().enumerate() {
                if i > 0 {
                    // time passes between two calls of the application: everything else may run here
                    world::yield_now().await;
                }
                let r = if *op < NT { sock.subscribe(topic(*op)).await } else { sock.unsubscribe(topic(*op)).await };
                world::log(format!("call#{} {}({}) -> {}", i, if *op < NT { "subscribe" } else { "unsubscribe" }, topic(*op), e3::ok_or_err(&r)));
            }
            world::set_cond("api-done");
            world::wait_cond("never").await;
            drop(sock);
        }
    };
    let spawn_attaches = |be: std::sync::Arc<dyn zeromq::MultiPeerBackend>| {
        for (p, c) in conns.iter().enumerate() {
            let be = be.clone();
            let c = *c;
            world::spawn_app(&format!("attach{}", p), async move {
                let r = e3::attach_raw(be, c).await;
                world::log(format!("attach(P{}) -> {}", p, e3::ok_or_err(&r)));
                world::set_cond(&format!("attached{}", p));
            });
        }
    };
    if pr.api_first {
        world::spawn_app("api", api());
        spawn_attaches(be);
    } else {
        spawn_attaches(be);
        world::spawn_app("api", api());
    }
    let end = world::run(e3::HORIZON);
    e3::set_hash_key(0);
    let mut v = Verdict::default();
    v.truncated = end != world::RunEnd::Quiescent;
    let names: Vec<String> = pr.hist.iter().map(|o| format!("{}({})", if *o < NT { "subscribe" } else { "unsubscribe" }, topic(*o))).collect();
    let what = format!("SUB socket, calls {:?}, {} peers joining concurrently{}", names, pr.peers, pr.failing.map(|p| format!(", peer {}'s connection breaks at some point", p)).unwrap_or_default());
    for p in world::panics() {
        let class = if p.contains("sub.rs") { "panic/sub.rs/unwrap-on-failed-send" } else { "panic" };
        v.violate(class, format!("{}: {}", what, p));
    }
    if v.truncated {
        v.violate("spin", format!("{}: no quiescence", what));
    }
    // the socket's own set as implied by the calls
    let mut set: std::collections::BTreeSet<&str> = Default::default();
    let mut double = false;
    for op in &pr.hist {
        if *op < NT {
            if !set.insert(topic(*op)) {
                double = true;
            }
        } else {
            set.remove(topic(*op));
        }
    }
    let log = world::log_snapshot();
    let live: Vec<usize> = (0..n)
        .filter(|p| pr.failing != Some(*p) && log.iter().any(|l| l.contains(&format!("attach(P{}) -> Ok", p))))
        .collect();
    let views: Vec<(usize, BTreeMap<Vec<u8>, i32>)> = live.iter().map(|p| (*p, fold(&conns[*p].tap_messages()))).collect();
    let subscribed = |v: &BTreeMap<Vec<u8>, i32>, t: &str| v.get(t.as_bytes()).copied().unwrap_or(0) > 0;
    if world::panics().is_empty() && !v.truncated && world::cond("api-done") {
        for t in TOPICS {
            let states: Vec<(usize, bool)> = views.iter().map(|(p, v)| (*p, subscribed(v, t))).collect();
            if states.iter().any(|s| s.1 != states[0].1) {
                let class = if double { "peers-disagree/double-subscribe-history" } else if pr.failing.is_some() { "peers-disagree/one-peer-failing" } else { "peers-disagree/concurrent-join" };
                v.violate(class, format!("{}: at quiescence the live peers disagree on topic {:?}: {:?} (per-peer subscription counts folded from their wires: {:?})", what, t, states, views));
            } else if !double {
                let want = set.contains(t);
                if let Some((p, got)) = states.first() {
                    if *got != want {
                        let class = if pr.failing.is_some() { "peer-view-differs-from-socket/one-peer-failing" } else if want { "peer-view-differs-from-socket/missing-subscription" } else { "peer-view-differs-from-socket/stale-subscription" };
                        v.violate(class, format!("{}: the socket's set {} topic {:?} but peer {} (and all live peers) were told the opposite", what, if want { "contains" } else { "does not contain" }, t, p));
                    }
                }
            }
        }
    }
    if !world::cond("api-done") && world::panics().is_empty() && !v.truncated {
        v.violate("api-stuck", format!("{}: the subscribe/unsubscribe calls did not all return", what));
    }
    let canon: Vec<String> = views.iter().map(|(p, v)| format!("{}:{:?}", p, v)).collect();
    v.outcome_hash = rc::fnv(canon.join("|").as_bytes()) ^ rc::fnv(e3::canon_log().join("|").as_bytes());
    e3::finish(v)
}

/// Scale family (not exhaustive in the counts): `n_topics` topics are subscribed and every even one unsubscribed
/// again; half of the `n_peers` peers are attached before the calls, the others join only after every call has
/// returned. Every peer's view must be exactly the odd topics.
/// `topic_len`: 0 = short topics `tNNNN`; otherwise every topic is padded to exactly that many bytes (253..256 straddle
/// the one-byte / eight-byte size form of the subscription frame, whose body is one byte longer than the topic)
fn scale_scenario(n_topics: usize, n_peers: usize, topic_len: usize) -> Verdict {
    let topic = move |i: usize| -> String {
        let mut t = format!("t{:04}", i);
        while t.len() < topic_len {
            t.push((b'a' + (t.len() % 26) as u8) as char);
        }
        t
    };
    world::reset(world::WorldCfg { nested_env: false, yields: true, select: false, policy: 0, coop: false });
    let conns: Vec<e3::RawConn> = (0..n_peers).map(|p| e3::raw_conn(&format!("P{}", p))).collect();
    for (p, c) in conns.iter().enumerate() {
        if p % 2 == 1 {
            c.gate("api-done");
        }
        c.send(&rc::handshake("PUB", Some(format!("PUB{}", p).as_bytes())));
    }
    let sock = SubSocket::new();
    let be = sock.backend();
    for (p, c) in conns.iter().enumerate() {
        let (be, c) = (be.clone(), *c);
        world::spawn_app(&format!("attach{}", p), async move {
            let r = e3::attach_raw(be, c).await;
            world::log(format!("attach(P{}) -> {}", p, e3::ok_or_err(&r)));
            world::set_cond(&format!("attached{}", p));
        });
    }
    world::spawn_app("api", async move {
        let mut sock = sock;
        for p in (0..n_peers).step_by(2) {
            world::wait_cond(&format!("attached{}", p)).await;
        }
        for i in 0..n_topics {
            let _ = sock.subscribe(&topic(i)).await;
            world::yield_now().await;
        }
        for i in (0..n_topics).step_by(2) {
            let _ = sock.unsubscribe(&topic(i)).await;
            world::yield_now().await;
        }
        world::set_cond("api-done");
        world::wait_cond("never").await;
        drop(sock);
    });
    let end = world::run(e3::HORIZON * (10 + (n_topics * n_peers) as u64 / 20));
    let mut v = Verdict::default();
    v.truncated = end != world::RunEnd::Quiescent;
    let what = format!("SUB socket, {} topics{} subscribed and every even one unsubscribed again, {} peers (half attached before the calls, half joining afterwards)", n_topics, if topic_len > 0 { format!(" of {} bytes each", topic_len) } else { String::new() }, n_peers);
    for p in world::panics() {
        v.violate("panic", format!("{}: {}", what, p));
    }
    if v.truncated {
        v.violate("spin", format!("{}: no quiescence", what));
    }
    if world::panics().is_empty() && !v.truncated {
        let want: BTreeMap<Vec<u8>, i32> = (0..n_topics).filter(|i| i % 2 == 1).map(|i| (topic(i).into_bytes(), 1)).collect();
        for (p, c) in conns.iter().enumerate() {
            let view: BTreeMap<Vec<u8>, i32> = fold(&c.tap_messages()).into_iter().filter(|(_, n)| *n > 0).collect();
            if view != want && v.violations.is_empty() {
                let missing = want.keys().filter(|k| !view.contains_key(*k)).count();
                let extra = view.keys().filter(|k| !want.contains_key(*k)).count();
                v.violate("scale/peer-view-differs-from-socket", format!("{}: peer {} ({}) holds {} subscriptions, the socket's set has {} ({} missing, {} stale or doubled)", what, p, if p % 2 == 1 { "late joiner" } else { "attached before the calls" }, view.len(), want.len(), missing, extra));
            }
        }
    }
    v.outcome_hash = rc::fnv(format!("{}/{}/{}", n_topics, n_peers, topic_len).as_bytes());
    e3::finish(v)
}

/// Deep sequential histories (no scheduling involved: one peer attached before the calls, one joining after the last
/// one): EVERY history of subscribe/unsubscribe calls of length <= `max_len` over `DEEP_TOPICS` that starts with
/// `prefix` and never subscribes a topic the socket already holds (unsubscribing what is not held is included). Whatever
/// data structure holds the set, every reachable shape of it with up to 5 members is walked through.
const DEEP_TOPICS: [&str; 5] = ["a", "ab", "b", "c", "abc"];
fn deep_batch(prefix: &[u8], nt: u8, max_len: usize) -> Verdict {
    fn legal(h: &[u8], nt: u8) -> bool {
        let mut set = std::collections::BTreeSet::new();
        for op in h {
            if *op < nt {
                if !set.insert(*op) {
                    return false;
                }
            } else {
                set.remove(&(*op - nt));
            }
        }
        true
    }
    fn one(h: &[u8], nt: u8) -> Option<(String, String)> {
        world::reset(world::WorldCfg { nested_env: false, yields: false, select: false, policy: 0, coop: false });
        let early = e3::raw_conn("P0");
        let late = e3::raw_conn("P1");
        early.send(&rc::handshake("PUB", Some(b"PUB0")));
        late.gate("api-done");
        late.send(&rc::handshake("PUB", Some(b"PUB1")));
        let sock = SubSocket::new();
        let be = sock.backend();
        let hist = h.to_vec();
        world::spawn_app("app", async move {
            let mut sock = sock;
            let _ = e3::attach_raw(be.clone(), early).await;
            for op in &hist {
                let t = DEEP_TOPICS[(*op % nt) as usize];
                let _ = if *op < nt { sock.subscribe(t).await } else { sock.unsubscribe(t).await };
            }
            world::set_cond("api-done");
            let _ = e3::attach_raw(be, late).await;
            world::set_cond("done");
            world::wait_cond("never").await;
            drop(sock);
        });
        let end = world::run(e3::HORIZON);
        let names: Vec<String> = h.iter().map(|o| format!("{}({})", if *o < nt { "subscribe" } else { "unsubscribe" }, DEEP_TOPICS[(*o % nt) as usize])).collect();
        let what = format!("SUB socket, calls {:?} one after the other, one peer attached before them and one joining afterwards", names);
        if let Some(p) = world::panics().first() {
            return Some(("deep/panic".into(), format!("{}: {}", what, p)));
        }
        if end != world::RunEnd::Quiescent || !world::cond("done") {
            return Some(("deep/stuck".into(), format!("{}: the calls did not all return", what)));
        }
        let mut set: std::collections::BTreeSet<Vec<u8>> = Default::default();
        for op in h {
            let t = DEEP_TOPICS[(*op % nt) as usize].as_bytes().to_vec();
            if *op < nt {
                set.insert(t);
            } else {
                set.remove(&t);
            }
        }
        for (name, c) in [("the peer attached before the calls", early), ("the peer that joined afterwards", late)] {
            let folded = fold(&c.tap_messages());
            let view: std::collections::BTreeSet<Vec<u8>> = folded.iter().filter(|(_, n)| **n > 0).map(|(t, _)| t.clone()).collect();
            let doubled: Vec<String> = folded.iter().filter(|(_, n)| **n > 1).map(|(t, _)| String::from_utf8_lossy(t).to_string()).collect();
            if view != set || !doubled.is_empty() {
                let show = |s: &std::collections::BTreeSet<Vec<u8>>| s.iter().map(|t| String::from_utf8_lossy(t).to_string()).collect::<Vec<_>>();
                return Some(("deep/peer-view-differs-from-socket".into(), format!("{}: {} holds {:?}{}, the calls leave the socket with {:?}", what, name, show(&view), if doubled.is_empty() { String::new() } else { format!(" (counted twice: {:?})", doubled) }, show(&set))));
            }
        }
        None
    }
    let mut v = Verdict::default();
    let mut n = 0u64;
    let mut level: Vec<Vec<u8>> = vec![prefix.to_vec()];
    'outer: while !level.is_empty() {
        let mut next = Vec::new();
        for h in &level {
            if !legal(h, nt) {
                continue;
            }
            n += 1;
            if let Some((c, m)) = one(h, nt) {
                v.violate(c, m);
                break 'outer;
            }
            if h.len() < max_len {
                for op in 0..2 * nt {
                    let mut h2 = h.clone();
                    h2.push(op);
                    next.push(h2);
                }
            }
        }
        level = next;
    }
    DEEP_HISTORIES.fetch_add(n, std::sync::atomic::Ordering::Relaxed);
    // the batch is one "execution" for the explorer; world state belongs to the last history run
    world::reset(world::WorldCfg { nested_env: false, yields: false, select: false, policy: 0, coop: false });
    v.outcome_hash = rc::fnv(format!("{:?}/{}/{}", prefix, nt, n).as_bytes());
    e3::finish(v)
}
static DEEP_HISTORIES: std::sync::atomic::AtomicU64 = std::sync::atomic::AtomicU64::new(0);

/// Two publisher connections announce the same identity: the first is attached and told the set {a}; the second joins
/// while the first is still open (`first_open`) or after it has closed without the socket having noticed; then the set
/// changes (subscribe b, unsubscribe a, subscribe c). The second connection is connected: it must have been told
/// exactly the current set {b, c}.
fn twin_scenario(first_open: bool, id_len: usize) -> Verdict {
    world::reset(world::WorldCfg { nested_env: false, yields: false, select: false, policy: 0, coop: false });
    let id: Vec<u8> = (0..id_len).map(|i| b'f' + (i % 20) as u8).collect();
    let first = e3::raw_conn("F1");
    let second = e3::raw_conn("F2");
    let other = e3::raw_conn("O");
    first.send(&rc::handshake("PUB", Some(&id)));
    second.send(&rc::handshake("PUB", Some(&id)));
    other.send(&rc::handshake("PUB", Some(b"other")));
    if !first_open {
        first.gate("first-attached");
        first.eof();
    }
    let sock = SubSocket::new();
    let be = sock.backend();
    world::spawn_app("app", async move {
        let mut sock = sock;
        let _ = sock.subscribe("a").await;
        let r = e3::attach_raw(be.clone(), first).await;
        world::log(format!("attach(first) -> {}", e3::ok_or_err(&r)));
        let _ = e3::attach_raw(be.clone(), other).await;
        world::set_cond("first-attached");
        let r = e3::attach_raw(be, second).await;
        world::log(format!("attach(second, same identity) -> {}", e3::ok_or_err(&r)));
        let _ = sock.subscribe("b").await;
        let _ = sock.unsubscribe("a").await;
        let _ = sock.subscribe("c").await;
        world::set_cond("done");
        world::wait_cond("never").await;
        drop(sock);
    });
    let end = world::run(e3::HORIZON);
    let mut v = Verdict::default();
    v.truncated = end != world::RunEnd::Quiescent;
    let what = format!("SUB socket subscribed to a; a publisher connection announces a {}-byte identity, a second one announces the same identity while the first {}; then subscribe(b), unsubscribe(a), subscribe(c)", id_len, if first_open { "is still open" } else { "has closed without the socket having noticed" });
    for p in world::panics() {
        v.violate("panic", format!("{}: {}", what, p));
    }
    if v.truncated {
        v.violate("spin", format!("{}: no quiescence", what));
    }
    if world::panics().is_empty() && !v.truncated {
        if !world::cond("done") {
            v.violate("twin/api-stuck", format!("{}: the calls did not all return", what));
        } else if !world::log_snapshot().iter().any(|l| l.contains("attach(second, same identity) -> Ok")) {
            v.violate("twin/second-not-admitted", format!("{}: {:?}", what, world::log_snapshot()));
        } else {
            let want: std::collections::BTreeSet<Vec<u8>> = [b"b".to_vec(), b"c".to_vec()].into_iter().collect();
            for (name, c) in [("the second connection under that identity", second), ("the bystander publisher", other)] {
                let view: std::collections::BTreeSet<Vec<u8>> = fold(&c.tap_messages()).into_iter().filter(|(_, n)| *n > 0).map(|(t, _)| t).collect();
                if view != want {
                    let show = |s: &std::collections::BTreeSet<Vec<u8>>| s.iter().map(|t| String::from_utf8_lossy(t).to_string()).collect::<Vec<_>>();
                    v.violate("twin/peer-view-differs-from-socket", format!("{}: {} holds {:?}, the socket's set is {:?}", what, name, show(&view), show(&want)));
                }
            }
        }
    }
    v.outcome_hash = rc::fnv(format!("{}/{}", first_open, id_len).as_bytes());
    e3::finish(v)
}

fn pj(p: &Params) -> Value {
    json!({"hist": p.hist, "peers": p.peers, "failing": p.failing, "api_first": p.api_first, "hash_key": p.hash_key, "policy": p.policy, "late_joiner": p.late_joiner, "calls_after_attach": p.calls_after_attach})
}

fn pf(v: &Value) -> Option<Params> {
    Some(Params {
        hist: v["hist"].as_array()?.iter().map(|x| x.as_u64().unwrap_or(0) as u8).collect(),
        peers: v["peers"].as_u64()? as usize,
        failing: v["failing"].as_u64().map(|x| x as usize),
        api_first: v["api_first"].as_bool()?,
        hash_key: v["hash_key"].as_u64().unwrap_or(0),
        policy: v["policy"].as_u64().unwrap_or(0) as u8,
        late_joiner: v["late_joiner"].as_bool().unwrap_or(false),
        calls_after_attach: v["calls_after_attach"].as_bool().unwrap_or(false),
    })
}

pub fn run(tier: Tier, replay: Option<String>) -> i32 {
    world::install_panic_hook();
    let mut ck = Check::new("C13", tier, "model_checking");
    if let Some(path) = replay {
        let v: Value = serde_json::from_str(&std::fs::read_to_string(&path).expect("read")).expect("json");
        return crate::replay::replay_e3(&v, |p| {
            if p["scenario"] == "twin" {
                let (fo, il) = (p["first_open"].as_bool()?, p["id_len"].as_u64()? as usize);
                return Some(std::sync::Arc::new(move || twin_scenario(fo, il)) as zvcore::explore::Scenario);
            }
            if p["scenario"] == "deep" {
                let prefix: Vec<u8> = p["prefix"].as_array()?.iter().map(|x| x.as_u64().unwrap_or(0) as u8).collect();
                let (nt, ml) = (p["topics"].as_u64()? as u8, p["max_len"].as_u64()? as usize);
                return Some(std::sync::Arc::new(move || deep_batch(&prefix, nt, ml)) as zvcore::explore::Scenario);
            }
            if p["scenario"] == "scale" {
                let (nt, np) = (p["topics"].as_u64()? as usize, p["peers"].as_u64()? as usize);
                let tl = p["topic_len"].as_u64().unwrap_or(0) as usize;
                return Some(std::sync::Arc::new(move || scale_scenario(nt, np, tl)) as zvcore::explore::Scenario);
            }
            let pr = pf(p)?;
            Some(std::sync::Arc::new(move || scenario(&pr)) as zvcore::explore::Scenario)
        });
    }
    let max_len = tier.pick(3, 4);
    let mut hists: Vec<Vec<u8>> = vec![vec![]];
    let mut level: Vec<Vec<u8>> = vec![vec![]];
    for _ in 0..max_len {
        let mut next = Vec::new();
        for h in &level {
            for op in 0..2 * NT {
                let mut h2 = h.clone();
                h2.push(op);
                next.push(h2);
            }
        }
        hists.extend(next.iter().cloned());
        level = next;
    }
    let mut jobs = Vec::new();
    let _ = Ty::Sub;
    for h in &hists {
        for peers in 1..=tier.pick(2usize, 3usize) {
            for api_first in [false, true] {
                for policy in [0u8, 2u8] {
                    if peers == 3 && (policy != 0 || h.len() > 3) {
                        continue;
                    }
                    let pr = Params { hist: h.clone(), peers, failing: None, api_first, hash_key: 0, policy, late_joiner: false, calls_after_attach: false };
                    let pr2 = pr.clone();
                    let bound = if peers >= 3 { 2 } else if peers == 1 { tier.pick(3, 4) } else { tier.pick(2, 3) };
                    jobs.push(e3::job(format!("C13/{:?}/{}p/{}/policy{}", h, peers, api_first, policy), pj(&pr), bound, tier.pick(100_000, 1_500_000), move || scenario(&pr2)));
                    if policy == 0 && !api_first && !h.is_empty() {
                        // the same with the calls made once the peers are connected, and one more peer joining afterwards
                        let pr = Params { hist: h.clone(), peers, failing: None, api_first, hash_key: 0, policy, late_joiner: true, calls_after_attach: true };
                        let pr2 = pr.clone();
                        jobs.push(e3::job(format!("C13/{:?}/{}p/after-attach+late", h, peers), pj(&pr), tier.pick(1, 2), tier.pick(50_000, 500_000), move || scenario(&pr2)));
                    }
                }
            }
            if peers >= 2 && h.len() <= 3 && !h.is_empty() {
                for failing in 0..peers {
                    for key in 0..tier.pick(2u64, 4u64) {
                        for late_joiner in [false, true] {
                            for calls_after_attach in [false, true] {
                                let pr = Params { hist: h.clone(), peers, failing: Some(failing), api_first: false, hash_key: key, policy: 0, late_joiner, calls_after_attach };
                                let pr2 = pr.clone();
                                jobs.push(e3::job(format!("C13/{:?}/{}p/fail{}/key{}/late{}/after{}", h, peers, failing, key, late_joiner, calls_after_attach), pj(&pr), tier.pick(1, 2), tier.pick(20_000, 300_000), move || scenario(&pr2)));
                            }
                        }
                    }
                }
            }
        }
    }
    for &(nt, np) in tier.pick(&[(9usize, 2usize), (40, 4), (17, 17), (70, 70), (300, 2)][..], &[(9usize, 2usize), (40, 4), (17, 17), (70, 70), (300, 2), (140, 140), (1100, 4)][..]) {
        jobs.push(e3::job(format!("C13/scale/{}topics/{}peers", nt, np), json!({"scenario":"scale","topics":nt,"peers":np}), 0, 10, move || scale_scenario(nt, np, 0)));
    }
    // topic lengths around the size-form boundary of the subscription frame (1 + topic bytes) and far beyond it
    for tl in tier.pick(&[253usize, 254, 255, 256, 300, 70_000][..], &[127usize, 128, 253, 254, 255, 256, 257, 300, 8191, 8192, 8193, 70_000, 1_100_000][..]) {
        let (nt, np) = (5usize, 3usize);
        let tl = *tl;
        jobs.push(e3::job(format!("C13/scale/{}topics/{}peers/len{}", nt, np, tl), json!({"scenario":"scale","topics":nt,"peers":np,"topic_len":tl}), if tl <= 300 { 1 } else { 0 }, 2_000, move || scale_scenario(nt, np, tl)));
    }
    // a publisher identity announced by two connections
    for first_open in [true, false] {
        for id_len in [1usize, 16, 255] {
            jobs.push(e3::job(format!("C13/twin/{}/{}", first_open, id_len), json!({"scenario":"twin","first_open":first_open,"id_len":id_len}), 0, 4, move || twin_scenario(first_open, id_len)));
        }
    }
    // deep sequential histories, in batches by their first two calls
    for (nt, ml) in tier.pick(vec![(3u8, 7usize), (4, 6), (5, 5)], vec![(3u8, 9usize), (4, 8), (5, 7)]) {
        for a in 0..2 * nt {
            for b in 0..2 * nt {
                let prefix = vec![a, b];
                jobs.push(e3::job(format!("C13/deep/{}topics/len{}/{:?}", nt, ml, prefix), json!({"scenario":"deep","prefix":prefix,"topics":nt,"max_len":ml}), 0, 1, move || deep_batch(&[a, b], nt, ml)));
            }
        }
    }
    // the same scenarios with peers that announce an Identity of length 0 / no Identity (every 10th job): the oracle
    // never looks at the peers' identities, and every connection must still be kept apart
    let anon: Vec<zvcore::explore::Job> = jobs.iter().filter(|j| !j.name.contains("deep") && !j.name.contains("scale")).step_by(10).flat_map(|j| [e3::anon_copy(j, 1), e3::anon_copy(j, 2)]).collect();
    ck.cov("scenarios_repeated_with_anonymous_peers", anon.len() as u64);
    let mut jobs = jobs;
    jobs.extend(anon);
    e3::run_jobs_into(&mut ck, jobs, false);
    ck.cov("deep_sequential_histories", DEEP_HISTORIES.load(std::sync::atomic::Ordering::Relaxed));
    let ex = ck.coverage.get("e3_executions").and_then(|v| v.as_u64()).unwrap_or(0);
    ck.cov("states", ck.coverage.get("e3_distinct_outcomes").and_then(|v| v.as_u64()).unwrap_or(0).max(1));
    ck.cov("transitions", ex);
    ck.cov("traces_validated_against_impl", ex);
    ck.cov("call_histories", hists.len() as u64);
    ck.cov("exhaustive", ck.coverage.get("e3_scenarios_capped").and_then(|v| v.as_u64()) == Some(0));
    ck.cov("explanation", format!("every history of subscribe/unsubscribe calls over topics a, ab, b (a proper-prefix pair and an unrelated topic) of length <= {} ({} histories, incl. repeats and never-subscribed topics) on a real SUB socket with 1-2 (thorough 3) raw PUB peers whose attach actors may run at ANY point — between two calls, inside peer_connected between the snapshot of the set and the registration, and inside subscribe between the set update and the fan-out (yield points) — every schedule within the deviation bound from 2 default policies and both spawn orders; plus, for histories of length <= 3, one peer whose connection starts failing writes at any point, for each position of the failing peer, with and without one more peer that joins only after every call has returned, and 2 (thorough 4) hash keys of the peer table (iteration order). Oracle at quiescence, from the reference-decoded wires folded into per-topic counts (RFC 29): all live peers agree on subscribed / not subscribed for every topic; for histories that never subscribe an already-subscribed topic every live peer's view equals the set implied by the calls; a failing peer does not stop the others from being updated; no panic. Scale family (not exhaustive in the counts): 9..300 (thorough 1100) topics of which every even one is unsubscribed again, 2..70 (140) peers of which half join only after every call has returned: every peer's view equals the set; the same with 5 topics of 253..256, 300 and 70000 (thorough: up to 1.1 M) bytes each (the subscription frame changes its size form at a 255-byte topic). Deep sequential family (no scheduling): EVERY history of calls over 3 / 4 / 5 topics (a, ab, b, c, abc) up to length 7 / 6 / 5 (thorough 9 / 8 / 7) that never subscribes a topic already held, with one peer attached before and one joining after the calls; both peers' views must equal the set the calls imply, nothing counted twice (coverage.deep_sequential_histories). states = distinct observed outcomes.", max_len, hists.len()));
    ck.assume("for double-subscribe histories only agreement among peers is demanded (set vs reference-count semantics of the socket is not fixed by the statement)");
    ck.conclude()
}
