//! Engine E2: explicit-state breadth-first search over event histories of the
//! REAL fair queue (through `__verif::FairQueueProbe`) with scripted streams.
//!
//! A state is reached by replaying its event history on a fresh queue; states
//! are deduplicated on a canonical form (queue snapshot with tickets
//! rank-normalised — the code only ever compares tickets — plus script and
//! receiver state; the queue's future is a function of exactly these).
//! Invariants are evaluated on every transition.

use futures::Stream;
use serde_json::{json, Value};

use std::pin::Pin;
use std::sync::atomic::{AtomicUsize, Ordering};
use std::sync::{Arc, Mutex};
use std::task::{Context, Poll, Wake, Waker};
use zeromq::__verif::{self as hooks, FairQueueHandle, FairQueueProbe, FairQueueSnapshot};

pub const MAXS: usize = 3;

#[derive(Clone, Copy, Debug, PartialEq, Eq, Hash, PartialOrd, Ord)]
pub enum Ev {
    Insert(u8),
    Arrive(u8),
    Fire(u8),
    Close(u8),
    Remove(u8),
    Poll,
    /// Poll during which the receiving task's cooperative budget is exhausted: every stream that is
    /// polled wakes its own waker synchronously and returns Pending (what tokio's I/O resources do
    /// when the budget is used up and the future is not driven by a worker thread, and what any
    /// `yield_now`-style stream does). Legal behaviour for a stream; the queue must hand control
    /// back to the executor instead of re-polling the stream for ever.
    PollX,
    /// Poll during which only stream `i` yields cooperatively (wakes its own waker, returns Pending): the others
    /// answer from what they have (a stream with a complete item already in its read buffer needs no I/O poll and
    /// is not subject to the task budget).
    PollXOne(u8),
    /// Poll during which `ev` is executed re-entrantly: at the `nth` inner
    /// stream poll, `pos` 0 = before the stream's own body, 1 = after it,
    /// 2 = at the fq_point hook (after the Pending re-insert, lock released)
    PollW { nth: u8, pos: u8, ev: WinEv },
    /// Poll with two window events (thorough tier)
    PollW2 { a: (u8, u8, WinEv), b: (u8, u8, WinEv) },
}

#[derive(Clone, Copy, Debug, PartialEq, Eq, Hash, PartialOrd, Ord)]
pub enum WinEv {
    Insert(u8),
    Arrive(u8),
    Fire(u8),
    Close(u8),
    Remove(u8),
}

impl Ev {
    pub fn show(&self) -> String {
        format!("{:?}", self)
    }
}

#[derive(Clone, Debug, Default, PartialEq, Eq, Hash)]
pub struct StreamModel {
    pub inserted: bool,
    pub avail: u8,
    pub consumed: u8,
    pub closed: bool,
    /// returned None to the queue
    pub finished: bool,
    pub remove_called: bool,
    pub dropped: bool,
    /// a waker handed to the stream by the queue and not yet fired, with the ticket it carries
    pub waker_ticket: Option<usize>,
    pub delivered: u8,
    /// fairness accounting: deliveries to other streams since this one became ready
    pub waiting: Option<u8>,
    /// how often the key has been inserted again after its stream was gone (a peer reconnecting under its identity)
    pub life: u8,
    /// how the previous life ended, as far as calls on the queue are concerned: remove() was called for the key
    /// after its stream had already ended and gone (what the sockets' end-of-stream callback does). For a correct
    /// queue this makes no difference to the future; it is kept in the state so that a queue for which it does
    /// (hidden bookkeeping about removed keys) is not merged with the history in which the call was not made.
    pub prev_life_removed_after_end: bool,
}

#[derive(Clone, Copy, Debug, PartialEq, Eq, Hash)]
pub enum LastPoll {
    Never,
    Pending,
    Item,
    End,
}

#[derive(Clone, Debug)]
pub struct Model {
    pub s: Vec<StreamModel>,
    pub last: LastPoll,
    pub woken: bool,
    pub violations: Vec<(String, String)>,
    pub max_wait: u8,
    pub deliveries: u32,
}

struct Shared {
    reinsert: bool,
    replace: bool,
    /// stream objects the queue is expected to drop because a newer one took their key
    expected_drops: Vec<u8>,
    model: Model,
    wakers: Vec<Option<Waker>>,
    last_popped: Option<usize>,
    /// armed window events for the poll in progress: (nth, pos, ev)
    plan: Vec<(u8, u8, WinEv)>,
    inner_polls: u8,
    points: u8,
    items: Vec<u8>,
    exhausted: bool,
    /// with `exhausted`: only this stream yields
    exhausted_only: Option<usize>,
    polls_while_exhausted: u32,
}

#[derive(Clone, Debug)]
pub struct Config {
    pub name: String,
    pub k: usize,
    /// script length per stream
    pub items: Vec<u8>,
    /// items available before anything happens (pre-loaded)
    pub preload: Vec<u8>,
    pub allow_remove: bool,
    pub allow_close: bool,
    pub windows: u8,
    pub window_remove_close: bool,
    pub max_depth: usize,
    pub max_states: usize,
    pub fairness: bool,
    pub fair_bound: u8,
    pub block_on_no_clients: bool,
    /// include the PollX event (streams that yield cooperatively)
    pub coop_yield: bool,
    /// a key whose stream is gone (ended or removed) may be inserted once more with a fresh stream
    pub reinsert: bool,
    /// a key whose stream is still stored (idle, with items, or with an end nobody has seen yet) may be inserted once
    /// more: the new stream REPLACES the old one (a peer connecting again under an identity that is still registered)
    pub replace: bool,
}

pub struct SStream {
    id: usize,
    sh: Arc<Mutex<Shared>>,
    handle: FairQueueHandle<SStream, usize>,
}

impl Stream for SStream {
    type Item = (usize, u8);
    fn poll_next(self: Pin<&mut Self>, cx: &mut Context<'_>) -> Poll<Option<(usize, u8)>> {
        let id = self.id;
        let nth = {
            let mut g = self.sh.lock().unwrap();
            let n = g.inner_polls;
            g.inner_polls += 1;
            n
        };
        run_window(&self.sh, &self.handle, nth, 0);
        // cooperative budget exhausted: wake ourselves and say Pending, whatever is available
        let yielding = {
            let mut g = self.sh.lock().unwrap();
            if g.exhausted && g.exhausted_only.map(|o| o == id).unwrap_or(true) {
                g.polls_while_exhausted += 1;
                if g.polls_while_exhausted > 100 {
                    // the queue keeps re-polling a stream that keeps yielding: it would never return
                    g.exhausted = false;
                    g.model.violations.push((
                        "livelock-on-self-waking-stream".into(),
                        format!("within ONE poll of the receiver, stream {} was polled more than 100 times although every time it woke its waker and returned Pending (cooperative yield): poll_next never hands control back to the executor", id),
                    ));
                    false
                } else {
                    true
                }
            } else {
                false
            }
        };
        if yielding {
            cx.waker().wake_by_ref();
            run_window(&self.sh, &self.handle, nth, 1);
            return Poll::Pending;
        }
        let r = {
            let mut g = self.sh.lock().unwrap();
            let lp = g.last_popped;
            let m = &mut g.model.s[id];
            if m.consumed < m.avail {
                m.consumed += 1;
                Poll::Ready(Some((id, m.consumed - 1)))
            } else if m.closed {
                m.finished = true;
                Poll::Ready(None)
            } else {
                m.waker_ticket = lp;
                g.wakers[id] = Some(cx.waker().clone());
                Poll::Pending
            }
        };
        run_window(&self.sh, &self.handle, nth, 1);
        r
    }
}

impl Drop for SStream {
    fn drop(&mut self) {
        if let Ok(mut g) = self.sh.lock() {
            if g.expected_drops[self.id] > 0 {
                // the stream that was replaced under its key: its going away says nothing about the current one
                g.expected_drops[self.id] -= 1;
            } else {
                g.model.s[self.id].dropped = true;
            }
        }
    }
}

fn run_window(sh: &Arc<Mutex<Shared>>, handle: &FairQueueHandle<SStream, usize>, nth: u8, pos: u8) {
    let evs: Vec<WinEv> = {
        let mut g = sh.lock().unwrap();
        let mut out = Vec::new();
        let mut i = 0;
        while i < g.plan.len() {
            if g.plan[i].0 == nth && g.plan[i].1 == pos {
                out.push(g.plan.remove(i).2);
            } else {
                i += 1;
            }
        }
        out
    };
    for e in evs {
        apply_simple(sh, handle, e);
    }
}

/// Applies a non-poll event. Not enabled at this moment => no-op.
fn apply_simple(sh: &Arc<Mutex<Shared>>, handle: &FairQueueHandle<SStream, usize>, e: WinEv) {
    match e {
        WinEv::Insert(i) => {
            let i = i as usize;
            let ok = {
                let mut g = sh.lock().unwrap();
                let reinsert = g.reinsert;
                let g = &mut *g;
                let m = &mut g.model.s[i];
                if !m.inserted {
                    m.inserted = true;
                    true
                } else if reinsert && m.dropped && m.life < 1 {
                    // the key comes back with a fresh stream; what the old stream had not handed out is gone with it
                    m.life += 1;
                    m.prev_life_removed_after_end = m.finished && m.remove_called;
                    m.closed = false;
                    m.finished = false;
                    m.remove_called = false;
                    m.dropped = false;
                    m.waker_ticket = None;
                    m.waiting = None;
                    m.avail = m.consumed;
                    true
                } else if g.replace && !g.model.s[i].dropped && g.model.s[i].life < 1 {
                    // the key is taken over by a fresh stream while the old one is still stored: what the old one had not
                    // handed out is gone with it, and so is the waker it had registered
                    let m = &mut g.model.s[i];
                    m.life += 1;
                    m.prev_life_removed_after_end = false;
                    m.closed = false;
                    m.finished = false;
                    m.waker_ticket = None;
                    m.waiting = None;
                    m.avail = m.consumed;
                    g.expected_drops[i] += 1;
                    g.wakers[i] = None;
                    true
                } else {
                    false
                }
            };
            if ok {
                handle.insert(
                    i,
                    SStream {
                        id: i,
                        sh: sh.clone(),
                        handle: handle.clone(),
                    },
                );
            }
        }
        WinEv::Arrive(i) => {
            let mut g = sh.lock().unwrap();
            let limit = g.items[i as usize];
            let m = &mut g.model.s[i as usize];
            // nothing arrives on a closed stream or beyond its script
            if !m.closed && m.avail < limit {
                m.avail += 1;
            }
        }
        WinEv::Fire(i) => {
            let w = {
                let mut g = sh.lock().unwrap();
                let due = {
                    let m = &g.model.s[i as usize];
                    m.waker_ticket.is_some() && (m.avail > m.consumed || m.closed)
                };
                if due {
                    g.model.s[i as usize].waker_ticket = None;
                    g.wakers[i as usize].take()
                } else {
                    None
                }
            };
            if let Some(w) = w {
                w.wake();
            }
        }
        WinEv::Close(i) => {
            let mut g = sh.lock().unwrap();
            g.model.s[i as usize].closed = true;
        }
        WinEv::Remove(i) => {
            {
                let mut g = sh.lock().unwrap();
                g.model.s[i as usize].remove_called = true;
            }
            handle.remove(&(i as usize));
        }
    }
}

/// The receiver's waker. Every poll of the receiver gets a NEW one (as when the socket is handed to
/// another task, or driven through a combinator with per-future wakers): by the `Future` contract only
/// the waker of the most recent poll has to be woken, so a wake through an older one does not count.
struct RecvWaker {
    sh: Arc<Mutex<Shared>>,
    count: AtomicUsize,
    generation: usize,
    current: Arc<AtomicUsize>,
}

impl Wake for RecvWaker {
    fn wake(self: Arc<Self>) {
        self.wake_by_ref();
    }
    fn wake_by_ref(self: &Arc<Self>) {
        self.count.fetch_add(1, Ordering::SeqCst);
        if self.current.load(Ordering::SeqCst) != self.generation {
            return;
        }
        // may be called while the shared lock is NOT held (all wakes happen outside it)
        if let Ok(mut g) = self.sh.try_lock() {
            g.model.woken = true;
        } else {
            PENDING_WOKEN.with(|p| p.set(true));
        }
    }
}

thread_local! {
    static PENDING_WOKEN: std::cell::Cell<bool> = const { std::cell::Cell::new(false) };
    static HOOK_SHARED: std::cell::RefCell<Option<(Arc<Mutex<Shared>>, FairQueueHandle<SStream, usize>)>> = const { std::cell::RefCell::new(None) };
}

pub fn install_thread_hooks() {
    hooks::set_fq_hooks(
        Some(Box::new(|ticket| {
            HOOK_SHARED.with(|h| {
                if let Some((sh, _)) = h.borrow().as_ref() {
                    sh.lock().unwrap().last_popped = Some(ticket);
                }
            })
        })),
        Some(Box::new(|| {
            let hs = HOOK_SHARED.with(|h| h.borrow().as_ref().map(|(a, b)| (a.clone(), b.clone())));
            if let Some((sh, handle)) = hs {
                let n = {
                    let mut g = sh.lock().unwrap();
                    let n = g.points;
                    g.points += 1;
                    n
                };
                run_window(&sh, &handle, n, 2);
            }
        })),
    );
}

pub struct Sim {
    cfg: Config,
    probe: FairQueueProbe<SStream, usize>,
    handle: FairQueueHandle<SStream, usize>,
    sh: Arc<Mutex<Shared>>,
    rw_generation: Arc<AtomicUsize>,
}

impl Drop for Sim {
    /// Stored stream wakers hold the queue's shared state, whose receiver waker holds the harness
    /// state that stores those wakers: break the cycle, or every replay leaks both.
    fn drop(&mut self) {
        if let Ok(mut g) = self.sh.lock() {
            for w in g.wakers.iter_mut() {
                *w = None;
            }
        }
    }
}

impl Sim {
    pub fn new(cfg: &Config) -> Sim {
        let probe: FairQueueProbe<SStream, usize> = FairQueueProbe::new(cfg.block_on_no_clients);
        let handle = probe.handle();
        let mut s = vec![StreamModel::default(); cfg.k];
        for (i, m) in s.iter_mut().enumerate() {
            m.avail = cfg.preload.get(i).copied().unwrap_or(0);
        }
        let sh = Arc::new(Mutex::new(Shared {
            reinsert: cfg.reinsert,
            replace: cfg.replace,
            expected_drops: vec![0; cfg.k],
            model: Model {
                s,
                last: LastPoll::Never,
                woken: false,
                violations: Vec::new(),
                max_wait: 0,
                deliveries: 0,
            },
            wakers: vec![None; cfg.k],
            last_popped: None,
            plan: Vec::new(),
            inner_polls: 0,
            points: 0,
            items: cfg.items.clone(),
            exhausted: false,
            exhausted_only: None,
            polls_while_exhausted: 0,
        }));
        HOOK_SHARED.with(|h| *h.borrow_mut() = Some((sh.clone(), handle.clone())));
        Sim {
            cfg: cfg.clone(),
            probe,
            handle,
            sh,
            rw_generation: Arc::new(AtomicUsize::new(0)),
        }
    }

    fn sync_woken(&self) {
        if PENDING_WOKEN.with(|p| p.replace(false)) {
            self.sh.lock().unwrap().model.woken = true;
        }
    }

    pub fn model(&self) -> Model {
        self.sync_woken();
        self.sh.lock().unwrap().model.clone()
    }

    pub fn snapshot(&self) -> FairQueueSnapshot<usize> {
        self.handle.snapshot()
    }

    fn violate(&self, class: &str, msg: String) {
        self.sh.lock().unwrap().model.violations.push((class.to_string(), msg));
    }

    fn update_ready_marks(&self) {
        // fairness accounting: a stream starts waiting when it has an available item and a ready event queued
        if !self.cfg.fairness {
            return;
        }
        let snap = self.snapshot();
        let mut g = self.sh.lock().unwrap();
        for (i, m) in g.model.s.iter_mut().enumerate() {
            let ready = m.inserted && !m.dropped && m.avail > m.consumed && snap.heap.iter().any(|(_, k)| *k == i) && snap.streams.contains(&i);
            if ready && m.waiting.is_none() {
                m.waiting = Some(0);
            }
            if !ready && m.avail <= m.consumed {
                m.waiting = None;
            }
        }
    }

    fn poll(&mut self, plan: Vec<(u8, u8, WinEv)>) {
        {
            let mut g = self.sh.lock().unwrap();
            g.plan = plan;
            g.inner_polls = 0;
            g.points = 0;
            g.model.woken = false;
        }
        PENDING_WOKEN.with(|p| p.set(false));
        let generation = self.rw_generation.fetch_add(1, Ordering::SeqCst) + 1;
        let waker = Waker::from(Arc::new(RecvWaker { sh: self.sh.clone(), count: AtomicUsize::new(0), generation, current: self.rw_generation.clone() }));
        let mut cx = Context::from_waker(&waker);
        let r = self.probe.poll_next(&mut cx);
        self.sync_woken();
        {
            let mut g = self.sh.lock().unwrap();
            g.plan.clear();
        }
        match r {
            Poll::Pending => {
                self.sh.lock().unwrap().model.last = LastPoll::Pending;
            }
            Poll::Ready(None) => {
                self.sh.lock().unwrap().model.last = LastPoll::End;
                if self.cfg.block_on_no_clients {
                    self.violate("queue-ended", "poll_next returned None although the queue is configured to block without clients".into());
                }
            }
            Poll::Ready(Some((key, (id, seq)))) => {
                let mut g = self.sh.lock().unwrap();
                g.model.last = LastPoll::Item;
                g.model.deliveries += 1;
                let fair = self.cfg.fairness;
                let bound = self.cfg.fair_bound;
                let mut viol: Vec<(String, String)> = Vec::new();
                if key != id {
                    viol.push(("wrong-key".into(), format!("item of stream {} delivered under key {}", id, key)));
                }
                let d = g.model.s[id].delivered;
                if seq != d {
                    let class = if seq < d { "duplicate-delivery" } else { "lost-item" };
                    viol.push((class.into(), format!("stream {}: item #{} delivered but #{} is the next undelivered one", id, seq, d)));
                }
                g.model.s[id].delivered = seq + 1;
                if fair {
                    let mut maxw = g.model.max_wait;
                    for (j, m) in g.model.s.iter_mut().enumerate() {
                        if j == id {
                            if let Some(w) = m.waiting {
                                maxw = maxw.max(w);
                                if w > bound {
                                    viol.push(("starvation".into(), format!("stream {} was ready for {} deliveries to other streams before being served (bound {})", id, w, bound)));
                                }
                            }
                            m.waiting = None;
                        } else if let Some(w) = m.waiting.as_mut() {
                            *w += 1;
                            if *w > bound {
                                viol.push(("starvation".into(), format!("stream {} has been ready for {} deliveries to other streams without being served (bound {})", j, *w, bound)));
                            }
                        }
                    }
                    g.model.max_wait = maxw;
                }
                g.model.violations.extend(viol);
            }
        }
    }

    pub fn apply(&mut self, e: Ev) {
        match e {
            Ev::Insert(i) => apply_simple(&self.sh, &self.handle, WinEv::Insert(i)),
            Ev::Arrive(i) => apply_simple(&self.sh, &self.handle, WinEv::Arrive(i)),
            Ev::Fire(i) => apply_simple(&self.sh, &self.handle, WinEv::Fire(i)),
            Ev::Close(i) => apply_simple(&self.sh, &self.handle, WinEv::Close(i)),
            Ev::Remove(i) => apply_simple(&self.sh, &self.handle, WinEv::Remove(i)),
            Ev::Poll => self.poll(Vec::new()),
            Ev::PollX | Ev::PollXOne(_) => {
                {
                    let mut g = self.sh.lock().unwrap();
                    g.exhausted = true;
                    g.exhausted_only = if let Ev::PollXOne(i) = e { Some(i as usize) } else { None };
                    g.polls_while_exhausted = 0;
                }
                self.poll(Vec::new());
                let polled = {
                    let mut g = self.sh.lock().unwrap();
                    g.exhausted = false;
                    g.exhausted_only = None;
                    g.polls_while_exhausted
                };
                self.sync_woken();
                let m = self.model();
                if polled > 0 && m.last == LastPoll::Pending && !m.woken {
                    self.violate("lost-wakeup", "a stream yielded cooperatively (woke its own waker, returned Pending) but the receiver was left parked without a wake-up".into());
                }
            }
            Ev::PollW { nth, pos, ev } => self.poll(vec![(nth, pos, ev)]),
            Ev::PollW2 { a, b } => self.poll(vec![a, b]),
        }
        self.sync_woken();
        self.update_ready_marks();
        self.check_state_invariants(e);
    }

    fn check_state_invariants(&self, last: Ev) {
        let snap = self.snapshot();
        let mut g = self.sh.lock().unwrap();
        let mut viol: Vec<(String, String)> = Vec::new();
        for (i, m) in g.model.s.iter().enumerate() {
            // a live stream object is never dropped by the queue
            if m.dropped && !m.finished && !m.remove_called {
                viol.push(("live-stream-dropped".into(), format!("stream {} was dropped by the queue although it neither ended nor was removed (after {:?})", i, last)));
            }
            // after Close, arrived items are delivered before the stream disappears
            if m.dropped && m.finished && m.consumed < m.avail {
                viol.push(("closed-stream-lost-items".into(), format!("stream {} disappeared with {} arrived item(s) undelivered", i, m.avail - m.consumed)));
            }
            // an item handed out by a stream must have reached the receiver
            if m.delivered != m.consumed {
                viol.push(("item-swallowed".into(), format!("stream {} handed out {} item(s) but the receiver got {}", i, m.consumed, m.delivered)));
            }
            // stream object must be somewhere: in the map, or gone for a reason
            if m.inserted && !m.dropped && !snap.streams.contains(&i) {
                viol.push(("stream-in-limbo".into(), format!("stream {} is neither stored in the queue nor dropped", i)));
            }
        }
        // no lost wake-up: a parked, un-woken receiver and a stored stream with something to report
        if g.model.last == LastPoll::Pending && !g.model.woken {
            for (i, m) in g.model.s.iter().enumerate() {
                let has_news = m.avail > m.consumed || (m.closed && !m.finished);
                if snap.streams.contains(&i) && has_news && m.waker_ticket.is_none() {
                    viol.push((
                        "lost-wakeup".into(),
                        format!(
                            "receiver is parked (last poll Pending, not woken since) while stream {} holds {} but no wake-up for it is pending (after {:?})",
                            i,
                            if m.avail > m.consumed { "an available item" } else { "its end-of-stream" },
                            last
                        ),
                    ));
                }
            }
            if !snap.waker {
                // parked but its waker is not published: any later stream wake cannot reach it
                let any_stream = !snap.streams.is_empty();
                if any_stream {
                    viol.push(("receiver-waker-not-published".into(), format!("receiver is parked and un-woken but the queue holds no waker for it (after {:?})", last)));
                }
            }
        }
        g.model.violations.extend(viol);
    }

    /// Liveness oracle: fire every due wake, let the receiver poll whenever it is
    /// not parked or has been woken, until nothing changes; afterwards every
    /// stored stream must be drained.
    pub fn fair_drain(&mut self) -> Option<(String, String)> {
        let mut guard = 0;
        loop {
            guard += 1;
            // one delivery per round at most: the horizon grows with what there is to deliver
            let horizon = 200 + 4 * self.cfg.items.iter().map(|&n| n as usize + 2).sum::<usize>();
            if guard > horizon {
                return Some(("livelock".into(), format!("fair continuation did not settle within {} steps", horizon)));
            }
            let m = self.model();
            let mut progressed = false;
            for i in 0..m.s.len() {
                let s = &m.s[i];
                if s.waker_ticket.is_some() && (s.avail > s.consumed || s.closed) {
                    apply_simple(&self.sh, &self.handle, WinEv::Fire(i as u8));
                    progressed = true;
                }
            }
            let m = self.model();
            if m.last != LastPoll::Pending || m.woken {
                if m.last == LastPoll::End {
                    break;
                }
                self.poll(Vec::new());
                progressed = true;
            }
            if !progressed {
                break;
            }
        }
        let snap = self.snapshot();
        let m = self.model();
        if let Some(v) = m.violations.first() {
            return Some(v.clone());
        }
        for (i, s) in m.s.iter().enumerate() {
            if snap.streams.contains(&i) && s.avail > s.delivered {
                return Some((
                    "stuck-with-available-item".into(),
                    format!("fair continuation (all due wakes fired, receiver polls whenever woken) ends with stream {} holding {} undelivered available item(s)", i, s.avail - s.delivered),
                ));
            }
        }
        None
    }
}

#[derive(Clone, Debug, PartialEq, Eq, Hash)]
pub struct Canon {
    /// how many distinct tickets in play are below the counter (for correct code: all of them)
    counter_rank: usize,
    heap: Vec<(usize, usize)>,
    streams: Vec<usize>,
    waker: bool,
    s: Vec<StreamModel>,
    last: LastPoll,
    woken: bool,
}

pub fn canon(sim: &Sim) -> Canon {
    let snap = sim.snapshot();
    let m = sim.model();
    let mut tickets: Vec<usize> = snap.heap.iter().map(|(t, _)| *t).collect();
    for s in &m.s {
        if let Some(t) = s.waker_ticket {
            tickets.push(t);
        }
    }
    tickets.sort();
    tickets.dedup();
    let rank = |t: usize| tickets.binary_search(&t).unwrap();
    let mut heap: Vec<(usize, usize)> = snap.heap.iter().map(|(t, k)| (rank(*t), *k)).collect();
    heap.sort();
    let s: Vec<StreamModel> = m
        .s
        .iter()
        .map(|x| {
            let mut y = x.clone();
            y.waker_ticket = x.waker_ticket.map(rank);
            y
        })
        .collect();
    Canon {
        counter_rank: tickets.iter().filter(|t| **t < snap.counter).count(),
        heap,
        streams: snap.streams.clone(),
        waker: snap.waker,
        s,
        last: m.last,
        woken: m.woken,
    }
}

fn win_events(cfg: &Config, m: &Model) -> Vec<WinEv> {
    let mut v = Vec::new();
    for i in 0..cfg.k {
        let s = &m.s[i];
        let i8 = i as u8;
        if !s.inserted {
            v.push(WinEv::Insert(i8));
        }
        if s.avail < cfg.items[i] && !s.closed {
            v.push(WinEv::Arrive(i8));
        }
        if s.waker_ticket.is_some() {
            // may become due through an Arrive earlier in the same window; keep it in the menu
            v.push(WinEv::Fire(i8));
        }
        if cfg.window_remove_close {
            if cfg.allow_close && s.inserted && !s.closed {
                v.push(WinEv::Close(i8));
            }
            if cfg.allow_remove && s.inserted && !s.remove_called {
                v.push(WinEv::Remove(i8));
            }
        }
    }
    v
}

/// Events enabled in a state. `plain` = (inner stream polls, fq_point hits) of a
/// plain `Poll` from this state: a window event armed for a position the plain
/// poll never reaches would not execute, i.e. be the plain Poll again.
pub fn enabled(cfg: &Config, m: &Model, plain: (u8, u8)) -> Vec<Ev> {
    let mut v = Vec::new();
    for i in 0..cfg.k {
        let s = &m.s[i];
        let i8 = i as u8;
        if !s.inserted || (cfg.reinsert && s.dropped && s.life < 1) || (cfg.replace && s.inserted && !s.dropped && s.life < 1) {
            v.push(Ev::Insert(i8));
        }
        // (nothing arrives any more for a key whose stream has legitimately gone: ended, or removed)
        if s.avail < cfg.items[i] && !s.closed && !(cfg.reinsert && s.dropped && (s.finished || s.remove_called)) {
            v.push(Ev::Arrive(i8));
        }
        if s.waker_ticket.is_some() && (s.avail > s.consumed || s.closed) {
            v.push(Ev::Fire(i8));
        }
        if cfg.allow_close && s.inserted && !s.closed {
            v.push(Ev::Close(i8));
        }
        // remove() of a live stream, or - what the sockets' end-of-stream callback does - of a key whose
        // stream has just ended and is already gone from the table
        if cfg.allow_remove && s.inserted && !s.remove_called && (!s.dropped || (cfg.reinsert && s.finished)) {
            v.push(Ev::Remove(i8));
        }
    }
    if cfg.coop_yield && m.s.iter().any(|s| s.inserted && !s.dropped) {
        v.push(Ev::PollX);
        // one stream yields, the others answer: only interesting with at least two live streams
        if m.s.iter().filter(|s| s.inserted && !s.dropped).count() >= 2 {
            for (i, s) in m.s.iter().enumerate() {
                if s.inserted && !s.dropped {
                    v.push(Ev::PollXOne(i as u8));
                }
            }
        }
    }
    if cfg.windows >= 1 && m.last != LastPoll::End {
        let wes = win_events(cfg, m);
        for nth in 0..2u8 {
            for pos in 0..3u8 {
                let reachable = if pos == 2 { nth < plain.1 } else { nth < plain.0 };
                if !reachable {
                    continue;
                }
                for &ev in &wes {
                    v.push(Ev::PollW { nth, pos, ev });
                }
            }
        }
        if cfg.windows >= 2 && plain.0 >= 1 {
            // two events in the window of the first inner poll
            for &e1 in &wes {
                for &e2 in &wes {
                    if e1 == e2 {
                        continue;
                    }
                    for (p1, p2) in [(0u8, 1u8), (0, 0), (1, 1), (1, 2), (0, 2)] {
                        v.push(Ev::PollW2 { a: (0, p1, e1), b: (0, p2, e2) });
                    }
                }
            }
        }
    }
    v
}

pub struct BfsResult {
    pub states: u64,
    pub transitions: u64,
    pub max_depth: usize,
    pub fixpoint: bool,
    pub depth_capped: bool,
    pub state_capped: bool,
    pub max_wait: u8,
    pub violation: Option<(String, String, Vec<Ev>)>,
    pub drain_checks: u64,
    pub sample: Vec<Ev>,
    pub pending_results: u64,
    pub deliveries_seen: u64,
    pub sibling_violations: u64,
}

fn replay(cfg: &Config, hist: &[Ev]) -> Sim {
    let mut sim = Sim::new(cfg);
    for e in hist {
        sim.apply(*e);
    }
    sim
}

fn fingerprint(c: &Canon) -> u128 {
    use std::hash::{Hash, Hasher};
    let mut h1 = std::collections::hash_map::DefaultHasher::new();
    c.hash(&mut h1);
    let mut h2 = std::collections::hash_map::DefaultHasher::new();
    0x9E37_79B9_7F4A_7C15u64.hash(&mut h2);
    c.hash(&mut h2);
    ((h1.finish() as u128) << 64) | h2.finish() as u128
}

const SHARDS: usize = 64;

struct Seen {
    shards: Vec<Mutex<std::collections::HashSet<u128>>>,
    count: AtomicUsize,
}

impl Seen {
    fn new() -> Seen {
        Seen {
            shards: (0..SHARDS).map(|_| Mutex::new(Default::default())).collect(),
            count: AtomicUsize::new(0),
        }
    }
    fn insert(&self, f: u128) -> bool {
        let new = self.shards[(f as usize) % SHARDS].lock().unwrap().insert(f);
        if new {
            self.count.fetch_add(1, Ordering::Relaxed);
        }
        new
    }
    fn len(&self) -> usize {
        self.count.load(Ordering::Relaxed)
    }
}

#[derive(Default)]
struct Acc {
    transitions: u64,
    drain_checks: u64,
    sibling: u64,
    max_wait: u8,
    pending_results: u64,
    deliveries_seen: u64,
    violation: Option<(String, String, Vec<Ev>)>,
    sample: Vec<Ev>,
    next: Vec<(Vec<Ev>, Model)>,
}

/// Level-synchronous parallel BFS. The set of states per level does not depend
/// on thread timing (a state's successors are a function of the state), so state
/// and transition counts are reproducible.
pub fn bfs(cfg: &Config, relevant: &(dyn Fn(&str) -> bool + Sync), threads: usize) -> BfsResult {
    let seen = Seen::new();
    install_thread_hooks();
    let init = Sim::new(cfg);
    seen.insert(fingerprint(&canon(&init)));
    let mut level: Vec<(Vec<Ev>, Model)> = vec![(Vec::new(), init.model())];
    drop(init);
    let mut res = BfsResult {
        states: 1,
        transitions: 0,
        max_depth: 0,
        fixpoint: false,
        depth_capped: false,
        state_capped: false,
        max_wait: 0,
        violation: None,
        drain_checks: 0,
        sample: Vec::new(),
        pending_results: 0,
        deliveries_seen: 0,
        sibling_violations: 0,
    };
    let mut depth = 0usize;
    while !level.is_empty() {
        if depth >= cfg.max_depth {
            res.depth_capped = true;
            break;
        }
        let idx = AtomicUsize::new(0);
        let stop = std::sync::atomic::AtomicBool::new(false);
        let capped = std::sync::atomic::AtomicBool::new(false);
        let accs: Mutex<Vec<Acc>> = Mutex::new(Vec::new());
        let lvl = &level;
        let seen_ref = &seen;
        std::thread::scope(|sc| {
            for _ in 0..threads.max(1) {
                sc.spawn(|| {
                    install_thread_hooks();
                    let mut acc = Acc::default();
                    let mut since_check = 0u32;
                    loop {
                        if stop.load(Ordering::Relaxed) {
                            break;
                        }
                        // caps are enforced INSIDE a level too: one level can be tens of times larger than the previous one
                        since_check += 1;
                        if seen_ref.len() >= cfg.max_states || (since_check % 256 == 0 && zvcore::evidence::rss_bytes() > zvcore::evidence::rss_cap_bytes()) {
                            capped.store(true, Ordering::Relaxed);
                            break;
                        }
                        let i = idx.fetch_add(1, Ordering::Relaxed);
                        if i >= lvl.len() {
                            break;
                        }
                        let (hist, model) = &lvl[i];
                        // plain Poll first: its inner-poll / point counts prune the window variants
                        let mut events = vec![Ev::Poll];
                        let mut first = true;
                        let mut k = 0;
                        while k < events.len() {
                            let e = events[k];
                            k += 1;
                            let mut h2 = hist.clone();
                            h2.push(e);
                            let mut sim = replay(cfg, &h2);
                            acc.transitions += 1;
                            if first {
                                first = false;
                                let plain = {
                                    let g = sim.sh.lock().unwrap();
                                    (g.inner_polls, g.points)
                                };
                                events.extend(enabled(cfg, model, plain));
                            }
                            let m = sim.model();
                            acc.max_wait = acc.max_wait.max(m.max_wait);
                            if let Some((c, msg)) = m.violations.first() {
                                if relevant(c) {
                                    acc.violation = Some((c.clone(), msg.clone(), h2));
                                    stop.store(true, Ordering::Relaxed);
                                    break;
                                }
                                acc.sibling += 1;
                                continue;
                            }
                            let f = fingerprint(&canon(&sim));
                            if !seen_ref.insert(f) {
                                continue;
                            }
                            if m.last == LastPoll::Pending {
                                acc.pending_results += 1;
                            }
                            acc.deliveries_seen = acc.deliveries_seen.max(m.deliveries as u64);
                            if acc.sample.is_empty() && h2.len() >= 6 && h2.len() <= 10 && m.deliveries >= 2 {
                                acc.sample = h2.clone();
                            }
                            // liveness oracle on every new state (consumes the simulation)
                            acc.drain_checks += 1;
                            if let Some((cl, msg)) = sim.fair_drain() {
                                if relevant(&cl) {
                                    acc.violation = Some((cl, format!("{} [from the state reached by the history]", msg), h2));
                                    stop.store(true, Ordering::Relaxed);
                                    break;
                                }
                                acc.sibling += 1;
                            }
                            acc.max_wait = acc.max_wait.max(sim.model().max_wait);
                            drop(sim);
                            acc.next.push((h2, m));
                        }
                    }
                    accs.lock().unwrap().push(acc);
                });
            }
        });
        let mut next: Vec<(Vec<Ev>, Model)> = Vec::new();
        for a in accs.into_inner().unwrap() {
            res.transitions += a.transitions;
            res.drain_checks += a.drain_checks;
            res.sibling_violations += a.sibling;
            res.max_wait = res.max_wait.max(a.max_wait);
            res.pending_results += a.pending_results;
            res.deliveries_seen = res.deliveries_seen.max(a.deliveries_seen);
            if res.sample.is_empty() && !a.sample.is_empty() {
                res.sample = a.sample;
            }
            if res.violation.is_none() {
                if let Some(v) = a.violation {
                    res.violation = Some(v);
                }
            }
            next.extend(a.next);
        }
        res.states = seen.len() as u64;
        if res.violation.is_some() {
            return res;
        }
        if !next.is_empty() {
            depth += 1;
            res.max_depth = depth;
        }
        if seen.len() >= cfg.max_states || capped.load(Ordering::Relaxed) {
            res.state_capped = true;
            break;
        }
        // deterministic order of the next level (thread timing must not influence anything observable)
        next.sort_by(|a, b| a.0.cmp(&b.0));
        level = next;
    }
    res.fixpoint = !res.depth_capped && !res.state_capped;
    res
}

pub fn hist_json(h: &[Ev]) -> Value {
    json!(h.iter().map(|e| e.show()).collect::<Vec<_>>())
}

pub fn cfg_json(c: &Config) -> Value {
    json!({"name": c.name, "k": c.k, "items": c.items, "preload": c.preload, "allow_remove": c.allow_remove, "allow_close": c.allow_close,
           "windows": c.windows, "window_remove_close": c.window_remove_close, "max_depth": c.max_depth, "max_states": c.max_states,
           "fairness": c.fairness, "fair_bound": c.fair_bound, "block_on_no_clients": c.block_on_no_clients, "coop_yield": c.coop_yield, "reinsert": c.reinsert, "replace": c.replace})
}

pub fn cfg_from_json(v: &Value) -> Option<Config> {
    let arr = |x: &Value| -> Vec<u8> { x.as_array().map(|a| a.iter().map(|y| y.as_u64().unwrap_or(0) as u8).collect()).unwrap_or_default() };
    Some(Config {
        name: v["name"].as_str()?.to_string(),
        k: v["k"].as_u64()? as usize,
        items: arr(&v["items"]),
        preload: arr(&v["preload"]),
        allow_remove: v["allow_remove"].as_bool()?,
        allow_close: v["allow_close"].as_bool()?,
        windows: v["windows"].as_u64()? as u8,
        window_remove_close: v["window_remove_close"].as_bool()?,
        max_depth: v["max_depth"].as_u64()? as usize,
        max_states: v["max_states"].as_u64()? as usize,
        fairness: v["fairness"].as_bool()?,
        fair_bound: v["fair_bound"].as_u64()? as u8,
        block_on_no_clients: v["block_on_no_clients"].as_bool()?,
        coop_yield: v["coop_yield"].as_bool().unwrap_or(false),
        reinsert: v["reinsert"].as_bool().unwrap_or(false),
        replace: v["replace"].as_bool().unwrap_or(false),
    })
}

/// Parses the Debug rendering of an event back (for replay files).
pub fn parse_ev(s: &str) -> Option<Ev> {
    fn num(s: &str) -> Option<u8> {
        s.trim().parse().ok()
    }
    fn win(s: &str) -> Option<WinEv> {
        let s = s.trim();
        let (name, rest) = s.split_once('(')?;
        let n = num(rest.trim_end_matches(')'))?;
        Some(match name {
            "Insert" => WinEv::Insert(n),
            "Arrive" => WinEv::Arrive(n),
            "Fire" => WinEv::Fire(n),
            "Close" => WinEv::Close(n),
            "Remove" => WinEv::Remove(n),
            _ => return None,
        })
    }
    let s = s.trim();
    if s == "Poll" {
        return Some(Ev::Poll);
    }
    if s == "PollX" {
        return Some(Ev::PollX);
    }
    if let Some(r) = s.strip_prefix("PollXOne(") {
        return num(r.trim_end_matches(')')).map(Ev::PollXOne);
    }
    if let Some(r) = s.strip_prefix("PollW {") {
        // PollW { nth: 0, pos: 1, ev: Arrive(1) }
        let r = r.trim_end_matches('}');
        let mut nth = 0;
        let mut pos = 0;
        let mut ev = None;
        for part in r.split(", ") {
            let part = part.trim();
            if let Some(x) = part.strip_prefix("nth:") {
                nth = num(x)?;
            } else if let Some(x) = part.strip_prefix("pos:") {
                pos = num(x)?;
            } else if let Some(x) = part.strip_prefix("ev:") {
                ev = win(x);
            }
        }
        return Some(Ev::PollW { nth, pos, ev: ev? });
    }
    if let Some(r) = s.strip_prefix("PollW2 {") {
        // PollW2 { a: (0, 0, Arrive(1)), b: (0, 1, Fire(0)) }
        let r = r.trim_end_matches('}').trim();
        let (a, b) = r.split_once("), b: (")?;
        let a = a.trim_start_matches("a: (");
        let b = b.trim_end_matches(')').trim_end_matches(") ");
        let p = |t: &str| -> Option<(u8, u8, WinEv)> {
            let mut it = t.splitn(3, ", ");
            let n = num(it.next()?)?;
            let q = num(it.next()?)?;
            let mut w = it.next()?.trim().to_string();
            if !w.ends_with(')') {
                w.push(')');
            }
            Some((n, q, win(&w)?))
        };
        return Some(Ev::PollW2 { a: p(a)?, b: p(b.trim_end_matches(')'))? });
    }
    let w = win(s)?;
    Some(match w {
        WinEv::Insert(n) => Ev::Insert(n),
        WinEv::Arrive(n) => Ev::Arrive(n),
        WinEv::Fire(n) => Ev::Fire(n),
        WinEv::Close(n) => Ev::Close(n),
        WinEv::Remove(n) => Ev::Remove(n),
    })
}

/// Replays one history step by step, printing the queue after each event.
pub fn replay_print(cfg: &Config, hist: &[Ev]) -> Option<(String, String)> {
    install_thread_hooks();
    let mut sim = Sim::new(cfg);
    for (i, e) in hist.iter().enumerate() {
        sim.apply(*e);
        let m = sim.model();
        let snap = sim.snapshot();
        println!(
            "  {:>2}. {:<44} heap={:?} stored={:?} recv_waker={} last={:?} woken={} delivered={:?}",
            i + 1,
            e.show(),
            snap.heap,
            snap.streams,
            snap.waker,
            m.last,
            m.woken,
            m.s.iter().map(|s| s.delivered).collect::<Vec<_>>()
        );
        if let Some(v) = m.violations.first() {
            return Some(v.clone());
        }
        if std::env::var("VERIF_E2_SHOW_ENABLED").is_ok() {
            println!("        enabled next (besides Poll): {:?}", enabled(cfg, &m, (2, 2)).iter().filter(|e| !matches!(e, Ev::PollW { .. } | Ev::PollW2 { .. })).map(|e| e.show()).collect::<Vec<_>>());
        }
    }
    sim.fair_drain()
}

/// Scale family (detection beyond the exhaustive configurations, which have 2-3 streams): many idle streams in the
/// queue at once, then one or all of them get something. No search: a fixed menu of histories per stream count, each
/// judged by the same per-state invariants and the fair-drain liveness oracle as the BFS states.
pub fn scale_family(ck: &mut zvcore::evidence::Check, thorough: bool, relevant: fn(&str) -> bool) {
    install_thread_hooks();
    let ks: &[usize] = if thorough { &[4, 8, 16, 31, 32, 33, 34, 40, 64, 65, 100, 128, 129, 200, 250] } else { &[8, 33, 40, 100, 129] };
    let (mut hists, mut events) = (0u64, 0u64);
    for &k in ks {
        let cfg = Config {
            name: format!("scale-k{}", k),
            k,
            items: vec![2; k],
            preload: vec![0; k],
            allow_remove: true,
            allow_close: true,
            windows: 0,
            window_remove_close: false,
            max_depth: 0,
            max_states: 0,
            fairness: false,
            fair_bound: 0,
            block_on_no_clients: true,
            coop_yield: false,
            reinsert: false,
            replace: true,
        };
        let all: Vec<Ev> = (0..k).map(|i| Ev::Insert(i as u8)).collect();
        let mut picks: Vec<usize> = vec![0, 1, k / 2, 30, 31, 32, 33, 63, 64, 65, k - 2, k - 1].into_iter().filter(|&j| j < k).collect();
        picks.sort();
        picks.dedup();
        let mut menu: Vec<Vec<Ev>> = Vec::new();
        for &j in &picks {
            let j8 = j as u8;
            // a parked receiver, then one stream gets an item
            menu.push(all.iter().copied().chain([Ev::Poll, Ev::Arrive(j8)]).collect());
            // the item is there before the receiver first polls
            menu.push(all.iter().copied().chain([Ev::Arrive(j8)]).collect());
            // a parked receiver, one stream gets an item, is served, gets another
            menu.push(all.iter().copied().chain([Ev::Poll, Ev::Arrive(j8), Ev::Fire(j8), Ev::Poll, Ev::Poll, Ev::Arrive(j8)]).collect());
            // a parked receiver, then one stream ends
            menu.push(all.iter().copied().chain([Ev::Poll, Ev::Close(j8)]).collect());
            // a stream is removed while the receiver is parked, then another gets an item
            menu.push(all.iter().copied().chain([Ev::Poll, Ev::Remove(j8), Ev::Arrive(((j + 1) % k) as u8)]).collect());
            // the key is taken over by a fresh stream while the receiver is parked on the old, idle one; the new one gets an item
            menu.push(all.iter().copied().chain([Ev::Poll, Ev::Insert(j8), Ev::Arrive(j8)]).collect());
            menu.push(all.iter().copied().chain([Ev::Poll, Ev::Insert(j8), Ev::Poll, Ev::Arrive(j8)]).collect());
            // ... or on one whose end nobody has seen yet
            menu.push(all.iter().copied().chain([Ev::Poll, Ev::Close(j8), Ev::Insert(j8), Ev::Arrive(j8)]).collect());
            // the streams join while the receiver is already parked on the ones before them
            menu.push((0..j).map(|i| Ev::Insert(i as u8)).chain([Ev::Poll]).chain((j..k).map(|i| Ev::Insert(i as u8))).chain([Ev::Poll, Ev::Arrive(j8), Ev::Arrive((k - 1) as u8)]).collect());
        }
        // everybody gets an item, parked receiver or not; then everybody gets a second one
        menu.push(all.iter().copied().chain([Ev::Poll]).chain((0..k).map(|i| Ev::Arrive(i as u8))).collect());
        menu.push(all.iter().copied().chain((0..k).map(|i| Ev::Arrive(i as u8))).collect());
        menu.push(all.iter().copied().chain([Ev::Poll]).chain((0..k).rev().map(|i| Ev::Arrive(i as u8))).chain((0..k).map(|i| Ev::Fire(i as u8))).chain([Ev::Poll]).chain((0..k).map(|i| Ev::Arrive(i as u8))).collect());
        for h in menu {
            hists += 1;
            events += h.len() as u64;
            let mut sim = Sim::new(&cfg);
            let mut bad: Option<(String, String)> = None;
            for e in &h {
                sim.apply(*e);
                if let Some(v) = sim.model().violations.first() {
                    bad = Some(v.clone());
                    break;
                }
            }
            let bad = bad.or_else(|| sim.fair_drain());
            if let Some((class, msg)) = bad {
                if relevant(&class) {
                    ck.finding(
                        format!("scale/{}", class),
                        format!("fair queue with {} streams: {} — history: the first inserts; {}", k, msg, h.iter().skip_while(|e| matches!(e, Ev::Insert(_))).map(|e| e.show()).collect::<Vec<_>>().join(" ; ")),
                        json!({"engine":"E2","config": cfg_json(&cfg), "history": hist_json(&h)}),
                    );
                } else {
                    ck.cov_add("e2_sibling_property_violations_seen", 1);
                }
            }
        }
    }
    ck.cov("e2_scale_family", json!({"stream_counts": ks, "histories": hists, "events_applied": events,
        "what": "fixed menu per stream count (one/all streams get an item or end or are removed, before or after the receiver parks; late joiners); the per-state invariants and the fair-drain oracle on each; detection beyond the exhaustive 2-3 stream configurations, not coverage"}));
}

pub fn is_c06_class(c: &str) -> bool {
    matches!(c, "lost-wakeup" | "receiver-waker-not-published" | "stuck-with-available-item" | "starvation" | "livelock" | "queue-ended" | "livelock-on-self-waking-stream" | "live-stream-dropped")
}

pub fn general_configs(thorough: bool) -> Vec<Config> {
    let base = Config {
        name: String::new(),
        k: 2,
        items: vec![2, 2],
        preload: vec![0, 0],
        allow_remove: true,
        allow_close: true,
        windows: 1,
        window_remove_close: true,
        max_depth: if thorough { 24 } else { 16 },
        max_states: if thorough { 8_000_000 } else { 1_000_000 },
        fairness: false,
        fair_bound: 0,
        block_on_no_clients: true,
        coop_yield: true,
        reinsert: false,
        replace: false,
    };
    let mut v = vec![
        Config { name: "k2-items2,2-remove-close-win1".into(), ..base.clone() },
        // a key whose stream has ended or was removed comes back once with a fresh stream (a peer reconnecting under its identity)
        Config { name: "k2-items3,2-remove-close-reinsert-win0".into(), items: vec![3, 2], windows: 0, coop_yield: false, reinsert: true, ..base.clone() },
        // a key is taken over by a fresh stream while its old stream is still stored (a second connection under an identity still registered)
        Config { name: "k2-items3,2-remove-close-replace-win0".into(), items: vec![3, 2], windows: 0, coop_yield: false, replace: true, ..base.clone() },
        Config { name: "k3-items1,1,1-remove-close-win1".into(), k: 3, items: vec![1, 1, 1], preload: vec![0, 0, 0], ..base.clone() },
        Config { name: "k3-items2,1,1-close-win1".into(), k: 3, items: vec![2, 1, 1], preload: vec![0, 0, 0], allow_remove: false, ..base.clone() },
        Config { name: "k2-items2,1-win2".into(), k: 2, items: vec![2, 1], windows: 2, allow_remove: false, ..base.clone() },
    ];
    if thorough {
        v.push(Config { name: "k3-items2,2,2-remove-close-win1-depth11".into(), k: 3, items: vec![2, 2, 2], preload: vec![0, 0, 0], max_depth: 12, max_states: 12_000_000, ..base.clone() });
        v.push(Config { name: "k3-items2,1,1-remove-close-win2".into(), k: 3, items: vec![2, 1, 1], preload: vec![0, 0, 0], windows: 2, max_depth: 12, ..base.clone() });
        v.push(Config { name: "k2-items3,3-remove-close-win1".into(), k: 2, items: vec![3, 3], ..base.clone() });
        v.push(Config { name: "k2-items3,2-remove-close-reinsert-win1".into(), items: vec![3, 2], windows: 1, coop_yield: false, reinsert: true, ..base.clone() });
    }
    v
}

pub fn fairness_configs(thorough: bool) -> Vec<Config> {
    let base = Config {
        name: String::new(),
        k: 2,
        items: vec![5, 2],
        preload: vec![5, 0],
        allow_remove: false,
        allow_close: false,
        windows: 1,
        window_remove_close: false,
        max_depth: 30,
        max_states: if thorough { 8_000_000 } else { 1_000_000 },
        fairness: true,
        fair_bound: 2,
        block_on_no_clients: true,
        coop_yield: false,
        reinsert: false,
        replace: false,
    };
    let mut v = vec![
        Config { name: "fair-n2-busy5".into(), ..base.clone() },
        Config { name: "fair-n3-busy7".into(), k: 3, items: vec![7, 2, 2], preload: vec![7, 0, 0], fair_bound: 4, windows: 0, ..base.clone() },
    ];
    // a stream that has been served several times and is parked, then another stream with a backlog joins:
    // the returning stream must not wait for the whole backlog (stale tickets vs the counter)
    v.push(Config { name: "fair-n2-late-insert".into(), items: vec![5, 5], preload: vec![5, 4], windows: 0, ..base.clone() });
    // ... the same after a LONG history of the first stream (its tickets far ahead of anything a newcomer is given): the
    // newcomer must not be served for as long as it takes its ticket to catch up
    v.push(Config { name: "fair-n2-late-insert-after-long-history".into(), items: vec![12, 6], preload: vec![12, 6], windows: 0, ..base.clone() });
    v.push(Config { name: "fair-n3-late-insert-after-long-history".into(), k: 3, items: vec![10, 5, 5], preload: vec![10, 5, 5], fair_bound: 4, windows: 0, ..base.clone() });
    if thorough {
        v.push(Config { name: "fair-n2-late-insert-win1".into(), items: vec![5, 5], preload: vec![5, 4], windows: 1, ..base.clone() });
        v.push(Config { name: "fair-n3-late-insert".into(), k: 3, items: vec![5, 5, 3], preload: vec![5, 4, 3], fair_bound: 4, windows: 0, ..base.clone() });
        v.push(Config { name: "fair-n3-busy7-win1".into(), k: 3, items: vec![7, 2, 2], preload: vec![7, 0, 0], fair_bound: 4, windows: 1, ..base.clone() });
        v.push(Config { name: "fair-n3-busy7-close".into(), k: 3, items: vec![7, 2, 2], preload: vec![7, 0, 0], fair_bound: 4, windows: 0, allow_close: true, ..base.clone() });
        v.push(Config { name: "fair-n2-busy9".into(), items: vec![9, 3], preload: vec![9, 0], ..base.clone() });
    }
    v
}

/// Runs the configurations in parallel (one BFS per thread) and folds the results into the check.
pub fn run_configs(ck: &mut zvcore::evidence::Check, cfgs: Vec<Config>, relevant: fn(&str) -> bool) {
    let mut rs: Vec<(usize, BfsResult)> = Vec::new();
    for (i, c) in cfgs.iter().enumerate() {
        let r = bfs(c, &relevant, ck.threads);
        rs.push((i, r));
        // hand the memory of the finished search back before the next one is measured against the cap
        unsafe {
            libc::malloc_trim(0);
        }
    }
    let mut per_cfg = Vec::new();
    let mut all_exhaustive = true;
    for (i, r) in &rs {
        let c = &cfgs[*i];
        ck.cov_add("states", r.states);
        ck.cov_add("transitions", r.transitions);
        ck.cov_add("e2_liveness_drain_checks", r.drain_checks);
        ck.cov_add("e2_sibling_property_violations_seen", r.sibling_violations);
        if !r.fixpoint {
            all_exhaustive = false;
        }
        per_cfg.push(json!({"config": c.name, "states": r.states, "transitions": r.transitions, "max_depth": r.max_depth,
            "fixpoint_reached": r.fixpoint, "depth_cap_hit": r.depth_capped, "state_cap_hit": r.state_capped,
            "max_other_deliveries_while_ready": if c.fairness { json!(r.max_wait) } else { Value::Null },
            "states_with_parked_receiver": r.pending_results, "max_deliveries_in_a_history": r.deliveries_seen}));
        if let Some((class, msg, hist)) = &r.violation {
            ck.finding(
                class.clone(),
                format!("fair queue, configuration {}: {} — history: {}", c.name, msg, hist.iter().map(|e| e.show()).collect::<Vec<_>>().join(" ; ")),
                json!({"engine":"E2","config": cfg_json(c), "history": hist_json(hist)}),
            );
        }
        if !r.sample.is_empty() && ck.samples.len() < 3 {
            ck.sample(json!({"config": c.name, "history": hist_json(&r.sample)}));
        }
    }
    ck.cov("e2_configurations", json!(per_cfg));
    ck.cov("e2_all_fixpoints", all_exhaustive);
}

pub fn replay_file(v: &Value) -> i32 {
    let Some(cfg) = cfg_from_json(&v["replay"]["config"]) else {
        eprintln!("MACHINERY: bad config in replay file");
        return 2;
    };
    let hist: Option<Vec<Ev>> = v["replay"]["history"].as_array().map(|a| a.iter().filter_map(|e| e.as_str().and_then(parse_ev)).collect());
    let Some(hist) = hist else {
        eprintln!("MACHINERY: bad history in replay file");
        return 2;
    };
    if hist.len() != v["replay"]["history"].as_array().map(|a| a.len()).unwrap_or(0) {
        eprintln!("MACHINERY: could not parse every event of the history");
        return 2;
    }
    println!("replaying {} events on the real FairQueue ({}):", hist.len(), cfg.name);
    match replay_print(&cfg, &hist) {
        Some((c, m)) => {
            println!("replay: VIOLATION {}: {}", c, m);
            1
        }
        None => {
            println!("replay: holds on this history");
            0
        }
    }
}
