//! C03 — bytes from a peer can never crash the process or force unbounded
//! allocation (E1 in isolated child processes + E3).

use crate::e1::Reader;
use crate::e3::{self, AnySocket, Ty, ALL_TYPES};
use serde_json::{json, Value};
use std::collections::BTreeMap;
use std::io::Read;
use std::process::{Command, Stdio};
use std::sync::atomic::{AtomicUsize, Ordering};
use std::sync::Mutex;
use zvcore::evidence::{Check, Tier};
use zvcore::explore::Verdict;
use zvcore::refcodec as rc;
use zvcore::world;

const SIGMA: [u8; 12] = [0x00, 0x01, 0x02, 0x03, 0x04, 0x05, 0x06, 0x07, 0x08, 0xFF, b'R', 0x0B];

/// Input specs are short strings so that they fit on a command line.
/// `hex:<bytes>` | `chain:<n>:<tail hex>` (n empty MORE frames then tail) | `lchain:<n>` (n long-form empty MORE frames)
pub fn expand(spec: &str) -> Vec<u8> {
    if let Some(h) = spec.strip_prefix("hex:") {
        return rc::unhex(h);
    }
    if let Some(r) = spec.strip_prefix("chain:") {
        let mut it = r.splitn(2, ':');
        let n: usize = it.next().unwrap().parse().unwrap();
        let tail = rc::unhex(it.next().unwrap_or(""));
        let mut v = Vec::with_capacity(2 * n + tail.len());
        for _ in 0..n {
            v.extend_from_slice(&[0x01, 0x00]);
        }
        v.extend(tail);
        return v;
    }
    if let Some(r) = spec.strip_prefix("lchain:") {
        let n: usize = r.parse().unwrap();
        let mut v = Vec::with_capacity(9 * n);
        for _ in 0..n {
            v.extend_from_slice(&[0x03, 0, 0, 0, 0, 0, 0, 0, 0]);
        }
        return v;
    }
    if let Some(r) = spec.strip_prefix("cchain:") {
        // cchain:<n>:<tail hex> - n well-formed command frames (04 06 05 "READY": a command with no properties), then tail
        let mut it = r.splitn(2, ':');
        let n: usize = it.next().unwrap().parse().unwrap();
        let tail = rc::unhex(it.next().unwrap_or(""));
        let mut v = Vec::with_capacity(8 * n + tail.len());
        for _ in 0..n {
            v.extend_from_slice(&[0x04, 0x06, 0x05, b'R', b'E', b'A', b'D', b'Y']);
        }
        v.extend(tail);
        return v;
    }
    if let Some(r) = spec.strip_prefix("lbody:") {
        // lbody:<flags hex>:<declared length>:<body bytes actually delivered>
        let mut it = r.splitn(3, ':');
        let flags = u8::from_str_radix(it.next().unwrap(), 16).unwrap();
        let declared: u64 = it.next().unwrap().parse().unwrap();
        let n: usize = it.next().unwrap().parse().unwrap();
        let mut v = Vec::with_capacity(9 + n);
        v.push(flags);
        v.extend_from_slice(&declared.to_be_bytes());
        v.extend(std::iter::repeat(0xAB).take(n));
        return v;
    }
    panic!("bad spec {}", spec);
}

#[derive(Debug, Clone, Default)]
struct OneResult {
    panic: Option<String>,
    peak: usize,
    biggest: usize,
    fed: usize,
    outcome: String,
}

/// Feeds greeting + input to the real framed reader (whole, then byte-at-a-time
/// if `bytewise`), measuring heap growth. Runs on the calling thread.
fn feed_one(input: &[u8], with_greeting: bool, bytewise: bool) -> OneResult {
    let mut data = if with_greeting { rc::default_greeting() } else { Vec::new() };
    data.extend_from_slice(input);
    let n = data.len();
    let mut res = OneResult {
        fed: n,
        ..Default::default()
    };
    let modes: &[bool] = if bytewise { &[false, true] } else { &[false] };
    for &bw in modes {
        let mut out = Vec::new();
        crate::alloc::mark();
        let r = world::guarded(|| {
            let mut rd = Reader::new(Vec::new());
            // the input buffer itself is not the library's allocation: hand it over outside the window
            rd.script.lock().unwrap().data = std::mem::take(&mut data);
            crate::alloc::mark();
            if bw {
                let start = if with_greeting { 64 } else { 1 };
                rd.feed_to(start.min(n), &mut out);
                for p in start + 1..=n {
                    rd.feed_to(p, &mut out);
                }
            } else {
                rd.feed_to(n, &mut out);
            }
            let pk = crate::alloc::peak();
            rd.set_eof(&mut out);
            data = std::mem::take(&mut rd.script.lock().unwrap().data);
            pk
        });
        match r {
            Ok((peak, biggest)) => {
                if peak > res.peak {
                    res.peak = peak;
                    res.biggest = biggest;
                }
                let sig: Vec<String> = out
                    .iter()
                    .map(|o| match o {
                        Ok(zeromq::__verif::Item::Greeting { .. }) => "G".to_string(),
                        Ok(zeromq::__verif::Item::Command { .. }) => "C".to_string(),
                        Ok(zeromq::__verif::Item::Message(m)) => format!("M{}", m.len().min(9)),
                        Err(e) => format!("E({})", e.chars().take(40).collect::<String>()),
                    })
                    .collect();
                if !bw {
                    res.outcome = sig.join(",");
                }
            }
            Err(p) => {
                res.panic = Some(format!("{}{}", p, if bw { " [fed byte-at-a-time]" } else { "" }));
                return res;
            }
        }
    }
    res
}

/// Allowed peak heap growth while feeding `fed` bytes: anything that merely
/// buffers what it received (each 2-byte empty frame costs a 32-byte `Bytes`
/// handle plus deque growth) passes; a frame length that is only *declared* does not.
fn alloc_bound(fed: usize) -> usize {
    (1 << 20) + 64 * fed
}

pub fn child_one(spec: &str, with_greeting: bool) -> i32 {
    world::install_panic_hook();
    let input = expand(spec);
    let bytewise = input.len() <= 300_000;
    // run on a thread with the 2 MiB stack of a tokio worker
    let h = std::thread::Builder::new()
        .stack_size(2 << 20)
        .spawn(move || feed_one(&input, with_greeting, bytewise))
        .unwrap();
    let r = h.join().unwrap_or_else(|_| OneResult {
        panic: Some("feeder thread panicked outside the guard".into()),
        ..Default::default()
    });
    println!(
        "{}",
        json!({"panic": r.panic, "peak": r.peak, "biggest": r.biggest, "fed": r.fed, "outcome": r.outcome})
    );
    0
}

/// Exhaustive sweep of SIGMA^<=len strings starting with `first` symbols, in this process.
/// The frame alphabet of the frame-level sweep: individually well-formed (and two ill-formed) frames whose
/// SEQUENCES a well-behaved peer would never send - a command in the middle of a multipart message, a final frame
/// without a beginning, READY twice, ...
fn frame_alphabet() -> Vec<Vec<u8>> {
    let mut ready_full = vec![5u8];
    ready_full.extend_from_slice(b"READY");
    ready_full.push(11);
    ready_full.extend_from_slice(b"Socket-Type");
    ready_full.extend_from_slice(&4u32.to_be_bytes());
    ready_full.extend_from_slice(b"PUSH");
    vec![
        vec![0x01, 0x01, b'a'],
        vec![0x00, 0x01, b'b'],
        vec![0x01, 0x00],
        vec![0x00, 0x00],
        vec![0x04, 0x06, 0x05, b'R', b'E', b'A', b'D', b'Y'],
        vec![0x04, 0x06, 0x05, b'E', b'R', b'R', b'O', b'R'],
        vec![0x03, 0, 0, 0, 0, 0, 0, 0, 1, b'c'],
        command_frame(&ready_full),
        vec![0x05, 0x06, 0x05, b'R', b'E', b'A', b'D', b'Y'],
    ]
}

/// Frame-level sweep (`first` = "F<i>"): every sequence of up to `len` frames of the frame alphabet that starts with frame i.
fn child_frame_sweep(first: &str, len: usize, progress_path: &str) -> i32 {
    world::install_panic_hook();
    let fa = frame_alphabet();
    let i0: usize = first[1..].parse().unwrap_or(0);
    let progress = std::fs::OpenOptions::new().create(true).write(true).truncate(true).open(progress_path).ok();
    let h = std::thread::Builder::new()
        .stack_size(2 << 20)
        .spawn(move || {
            use std::os::unix::fs::FileExt;
            let mut count = 0u64;
            let mut viols: Vec<Value> = Vec::new();
            let mut outcomes: std::collections::HashSet<u64> = Default::default();
            let mut idx: Vec<usize> = vec![i0];
            loop {
                let mut buf = Vec::new();
                for k in &idx {
                    buf.extend_from_slice(&fa[*k]);
                }
                if let Some(f) = &progress {
                    let mut line = rc::hex(&buf).into_bytes();
                    line.resize(140, b' ');
                    let _ = f.write_all_at(&line, 0);
                }
                let r = feed_one(&buf, true, true);
                count += 1;
                outcomes.insert(rc::fnv(r.outcome.as_bytes()));
                if let Some(p) = &r.panic {
                    if viols.len() < 200 {
                        viols.push(json!({"input": rc::hex(&buf), "panic": p}));
                    }
                } else if r.peak > alloc_bound(r.fed) && viols.len() < 200 {
                    viols.push(json!({"input": rc::hex(&buf), "peak": r.peak, "fed": r.fed}));
                }
                // next sequence (depth-first, first element fixed)
                if idx.len() < len {
                    idx.push(0);
                    continue;
                }
                loop {
                    if idx.len() == 1 {
                        return (count, viols, outcomes.len());
                    }
                    let last = idx.len() - 1;
                    if idx[last] + 1 < fa.len() {
                        idx[last] += 1;
                        break;
                    }
                    idx.pop();
                }
            }
        })
        .unwrap();
    let (count, viols, n_out) = h.join().unwrap();
    println!("{}", json!({"count": count, "violations": viols, "outcomes": n_out}));
    0
}

pub fn child_sweep(first: &str, len: usize, progress_path: &str) -> i32 {
    if first.starts_with('F') {
        return child_frame_sweep(first, len, progress_path);
    }
    world::install_panic_hook();
    let head = rc::unhex(first);
    let mut count = 0u64;
    let mut viols: Vec<Value> = Vec::new();
    let mut outcomes: std::collections::HashSet<u64> = Default::default();
    let mut buf = head.clone();
    let progress = std::fs::OpenOptions::new().create(true).write(true).truncate(true).open(progress_path).ok();
    fn rec(
        buf: &mut Vec<u8>,
        remaining: usize,
        count: &mut u64,
        viols: &mut Vec<Value>,
        outcomes: &mut std::collections::HashSet<u64>,
        progress: &Option<std::fs::File>,
    ) {
        use std::os::unix::fs::FileExt;
        if let Some(f) = progress {
            let mut line = rc::hex(buf).into_bytes();
            line.resize(40, b' ');
            let _ = f.write_all_at(&line, 0);
        }
        let r = feed_one(buf, true, true);
        *count += 1;
        outcomes.insert(rc::fnv(r.outcome.as_bytes()));
        if let Some(p) = &r.panic {
            if viols.len() < 200 {
                viols.push(json!({"input": rc::hex(buf), "panic": p}));
            }
        } else if r.peak > alloc_bound(r.fed) {
            if viols.len() < 200 {
                viols.push(json!({"input": rc::hex(buf), "peak": r.peak, "fed": r.fed}));
            }
        }
        if remaining == 0 {
            return;
        }
        for s in SIGMA {
            buf.push(s);
            rec(buf, remaining - 1, count, viols, outcomes, progress);
            buf.pop();
        }
    }
    let remaining = len - head.len();
    let h = {
        let mut b = std::mem::take(&mut buf);
        std::thread::Builder::new()
            .stack_size(2 << 20)
            .spawn(move || {
                rec(&mut b, remaining, &mut count, &mut viols, &mut outcomes, &progress);
                (count, viols, outcomes.len())
            })
            .unwrap()
    };
    let (count, viols, n_out) = h.join().unwrap();
    println!("{}", json!({"count": count, "violations": viols, "outcomes": n_out}));
    0
}

struct ChildOut {
    status: std::process::ExitStatus,
    stdout: String,
    stderr: String,
}

fn run_child(args: &[&str]) -> ChildOut {
    let exe = std::env::current_exe().expect("current_exe");
    let mut ch = Command::new(exe)
        .args(args)
        // the socket-level part runs on the stack size of a tokio worker thread
        .env("VERIF_E3_STACK_KB", "2048")
        .env("VERIF_E3_LOG_STARTS", "1")
        .stdin(Stdio::null())
        .stdout(Stdio::piped())
        .stderr(Stdio::piped())
        .spawn()
        .expect("spawn child");
    let mut so = String::new();
    let mut se = String::new();
    let mut o = ch.stdout.take().unwrap();
    let mut e = ch.stderr.take().unwrap();
    let t = std::thread::spawn(move || {
        let mut s = String::new();
        let _ = e.read_to_string(&mut s);
        s
    });
    // a child that runs away is killed: the parent then sees an abnormal exit (reported, never waited for for ever)
    let pid = ch.id();
    let done = std::sync::Arc::new(std::sync::atomic::AtomicBool::new(false));
    let done2 = done.clone();
    let killer = std::thread::spawn(move || {
        let t0 = std::time::Instant::now();
        while !done2.load(std::sync::atomic::Ordering::Relaxed) {
            if t0.elapsed() > std::time::Duration::from_secs(2400) {
                unsafe {
                    libc::kill(pid as i32, libc::SIGKILL);
                }
                eprintln!("MACHINERY: child process {} ran for more than 2400 s and was killed", pid);
                break;
            }
            std::thread::sleep(std::time::Duration::from_millis(50));
        }
    });
    let _ = o.read_to_string(&mut so);
    se.push_str(&t.join().unwrap_or_default());
    let status = ch.wait().expect("wait child");
    done.store(true, std::sync::atomic::Ordering::Relaxed);
    let _ = killer.join();
    ChildOut {
        status,
        stdout: so,
        stderr: se,
    }
}

fn describe_exit(st: &std::process::ExitStatus, stderr: &str) -> String {
    use std::os::unix::process::ExitStatusExt;
    let why = if stderr.contains("stack overflow") {
        "stack overflow"
    } else if stderr.contains("memory allocation") {
        "memory allocation failure"
    } else {
        "abnormal exit"
    };
    match st.signal() {
        Some(s) => format!("{} (process killed by signal {})", why, s),
        None => format!("{} (exit code {:?})", why, st.code()),
    }
}

fn abort_class(stderr: &str) -> &'static str {
    if stderr.contains("stack overflow") {
        "abort/stack-overflow"
    } else if stderr.contains("memory allocation") {
        "abort/allocation-failure"
    } else {
        "abort/other"
    }
}

/// Panic class: the source location is the discriminating feature.
fn panic_class(p: &str) -> String {
    let loc = p.rsplit(" @ ").next().unwrap_or("");
    let loc = loc.split(' ').next().unwrap_or("");
    let file = loc.split(':').next().unwrap_or(loc);
    if file.starts_with("src/") {
        // code of the repository: file + kind of panic
        let msg = p.split(" @ ").next().unwrap_or("");
        let kind = if msg.contains("out of bounds") || msg.contains("out of range") || msg.contains("advance") || msg.contains("split_to") {
            "bounds"
        } else if msg.contains("overflow") {
            "overflow"
        } else if msg.contains("unwrap") || msg.contains("expect") {
            "unwrap"
        } else {
            "other"
        };
        format!("panic/{}/{}", file, kind)
    } else {
        // dependency or std code reached with peer-controlled values: crate-relative file
        format!("panic/{}", file)
    }
}

// ------------------------------------------------------------------ structured family

fn command_frame(body: &[u8]) -> Vec<u8> {
    let mut v = Vec::new();
    rc::encode_frame(&mut v, body, false, true);
    v
}

fn structured_family(tier: Tier) -> Vec<(String, String)> {
    // (description, spec)
    let mut v: Vec<(String, String)> = Vec::new();
    let mut push = |d: String, bytes: Vec<u8>| v.push((d, format!("hex:{}", rc::hex(&bytes))));
    // command frames with inconsistent inner lengths, truncated at every byte
    let nls: &[u8] = &[0, 1, 4, 5, 6, 255];
    let pls: &[u8] = &[0, 1, 11, 12, 255];
    let vls: &[u32] = &[0, 1, 4, 5, 65536, u32::MAX];
    for &nl in nls {
        for &pl in pls {
            for &vl in vls {
                let mut body = vec![nl];
                body.extend_from_slice(b"READY");
                body.push(pl);
                body.extend_from_slice(b"Socket-Type");
                body.extend_from_slice(&vl.to_be_bytes());
                body.extend_from_slice(b"PUSH");
                let full = body.len();
                let cuts: Vec<usize> = if tier == Tier::Thorough || (nl == 5 && pl == 11) || (nl == 5 && vl == 4) || (pl == 11 && vl == 4) {
                    (0..=full).collect()
                } else {
                    vec![0, 1, 6, 7, 18, 22, full]
                };
                for c in cuts {
                    push(
                        format!("command frame: name-len {} prop-name-len {} value-len {} body truncated to {} of {}", nl, pl, vl, c, full),
                        command_frame(&body[..c]),
                    );
                }
            }
        }
    }
    // other command names, long-form commands
    for name in [&b"ERROR"[..], b"SUBSCRIBE", b"PING", b"", b"READYX", b"ready"] {
        let mut body = vec![name.len() as u8];
        body.extend_from_slice(name);
        push(format!("command {:?}", String::from_utf8_lossy(name)), command_frame(&body));
    }
    {
        let mut body = vec![5u8];
        body.extend_from_slice(b"READY");
        body.push(1);
        body.push(b'X');
        body.extend_from_slice(&300u32.to_be_bytes());
        body.extend(vec![b'v'; 300]);
        push("long-form READY with a 300-byte property".into(), command_frame(&body));
        let mut f = vec![0x06u8];
        f.extend_from_slice(&3u64.to_be_bytes());
        f.extend_from_slice(&[0x05, b'R', b'E']);
        push("long-form command frame with 3-byte body".into(), f);
        push("command frame with MORE".into(), vec![0x05, 0x06, 0x05, b'R', b'E', b'A', b'D', b'Y']);
        push("non-UTF-8 property name".into(), command_frame(&[5, b'R', b'E', b'A', b'D', b'Y', 2, 0xff, 0xfe, 0, 0, 0, 0]));
    }
    // WELL-FORMED commands whose VALUES are the peer's choice: a READY with every Socket-Type value of interest (the
    // twelve names of the RFC - the socket's answer to each is a table lookup -, case variants, unknown, empty, very long,
    // with a NUL), identities at the size boundaries, properties repeated or unknown. The codec treats them all alike,
    // so they are marked for the socket-level part explicitly ("READY value:").
    {
        let ready = |props: &[(&[u8], &[u8])]| -> Vec<u8> {
            let owned: Vec<(Vec<u8>, Vec<u8>)> = props.iter().map(|(k, v)| (k.to_vec(), v.to_vec())).collect();
            rc::encode_command(b"READY", &owned)
        };
        let long_name = vec![b'T'; 255];
        let types: Vec<&[u8]> = vec![b"PAIR", b"PUB", b"SUB", b"REQ", b"REP", b"DEALER", b"ROUTER", b"PULL", b"PUSH", b"XPUB", b"XSUB", b"STREAM", b"stream", b"Stream", b"dealer", b"SERVER", b"CLIENT", b"RADIO", b"DISH", b"GATHER", b"SCATTER", b"DGRAM", b"PEER", b"CHANNEL", b"", b"X", b"DEALER\0", b"\0", &long_name];
        for t in &types {
            push(format!("READY value: Socket-Type {:?}", String::from_utf8_lossy(&t[..t.len().min(12)])), ready(&[(b"Socket-Type", t)]));
        }
        for t in [&b"STREAM"[..], b"DEALER", b"PUB"] {
            push(format!("READY value: Socket-Type {:?} with an Identity", String::from_utf8_lossy(t)), ready(&[(b"Socket-Type", t), (b"Identity", b"i")]));
            push(format!("READY value: Socket-Type {:?} given twice", String::from_utf8_lossy(t)), ready(&[(b"Socket-Type", t), (b"Socket-Type", t)]));
            push(format!("READY value: property names in lower case, type {:?}", String::from_utf8_lossy(t)), ready(&[(b"socket-type", t), (b"identity", b"i")]));
            push(format!("READY value: Identity first, then Socket-Type {:?}", String::from_utf8_lossy(t)), ready(&[(b"Identity", b"i"), (b"Socket-Type", t)]));
        }
        for n in [0usize, 1, 254, 255, 256, 300] {
            let idv = vec![b'i'; n];
            push(format!("READY value: DEALER with a {}-byte Identity", n), ready(&[(b"Socket-Type", b"DEALER"), (b"Identity", &idv)]));
        }
        push("READY value: unknown properties only".into(), ready(&[(b"X-Foo", b"bar"), (b"Resource", b"r")]));
        push("READY value: no property at all".into(), ready(&[]));
    }
    // long frames with hostile 64-bit lengths
    let lens: &[u64] = &[
        0,
        1,
        255,
        256,
        1 << 16,
        1 << 24,
        1 << 30,
        1 << 31,
        1 << 32,
        1 << 40,
        1 << 62,
        (1 << 63) - 1,
        1 << 63,
        u64::MAX,
    ];
    for &l in lens {
        for flags in [0x02u8, 0x03, 0x06, 0x07] {
            for extra in [0usize, 1] {
                let mut f = vec![flags];
                f.extend_from_slice(&l.to_be_bytes());
                f.extend(vec![0xAA; extra]);
                push(format!("long frame flags {:#04x} declared length {} followed by {} byte(s)", flags, l, extra), f);
            }
        }
    }
    drop(push);
    // hostile 64-bit lengths followed by part of the body (a decoder may change its mind about
    // reserving once some of the frame has arrived)
    for &l in &[1u64 << 24, 1 << 28, 1 << 32, 1 << 40, 1 << 62, (1 << 63) - 1, 1 << 63, u64::MAX] {
        for flags in [0x02u8, 0x03, 0x06] {
            let delivered: &[usize] = if tier == Tier::Thorough {
                &[100, 4096, 8182, 8183, 8184, 8191, 8192, 8193, 8201, 16383, 16384, 16385, 24576, 65536, 131072, 300_000, 1_000_000]
            } else if flags == 0x02 {
                &[4096, 8183, 8192, 8193, 16384, 24576, 65536, 300_000]
            } else {
                &[8192, 65536]
            };
            for &n in delivered {
                v.push((format!("long frame flags {:#04x} declared length {} followed by {} bytes of its body", flags, l, n), format!("lbody:{:02x}:{}:{}", flags, l, n)));
            }
        }
    }
    let mut push = |d: String, bytes: Vec<u8>| v.push((d, format!("hex:{}", rc::hex(&bytes))));
    // reserved flag bits
    for flags in [0x08u8, 0x10, 0x20, 0x40, 0x80, 0xF8, 0xFF, 0xFC] {
        push(format!("frame with reserved flag bits {:#04x}", flags), vec![flags, 0x01, 0x41, 0x00, 0x01, 0x42]);
    }
    drop(push);
    // deep multipart messages in one write
    for n in [1usize, 10, 1000, 4095, 4096, 5000, 100_000] {
        v.push((format!("{} empty MORE frames then a final frame, one write", n), format!("chain:{}:000158", n)));
        v.push((format!("{} empty MORE frames, never finished", n), format!("chain:{}:", n)));
    }
    for n in [1000usize, 20_000] {
        v.push((format!("{} long-form empty MORE frames", n), format!("lchain:{}", n)));
    }
    // long runs of WELL-FORMED command frames (ignored by the sockets after the handshake), then an ordinary message
    for n in [10usize, 1000, 50_000, 400_000] {
        v.push((format!("{} well-formed command frames in a row, then a message", n), format!("cchain:{}:000158", n)));
    }
    v
}

fn greeting_stage_family() -> Vec<(String, String)> {
    let mut v: Vec<(String, String)> = Vec::new();
    let mut push = |d: &str, bytes: Vec<u8>| v.push((d.to_string(), format!("hex:{}", rc::hex(&bytes))));
    let g = rc::default_greeting();
    push("nothing but 0xFF", vec![0xff]);
    push("63 bytes of a valid greeting", g[..63].to_vec());
    let mut b = g.clone();
    b[0] = 0x00;
    push("greeting with byte 0 != FF", b);
    let mut b = g.clone();
    b[9] = 0x00;
    push("greeting with byte 9 != 7F", b);
    let mut b = g.clone();
    for x in b[12..32].iter_mut() {
        *x = b'X';
    }
    push("greeting with 20-byte unknown mechanism, no NUL", b);
    let mut b = g.clone();
    for x in b[12..32].iter_mut() {
        *x = 0;
    }
    push("greeting with empty mechanism", b);
    let mut b = g.clone();
    b[10] = 0;
    b[11] = 0;
    push("greeting version 0.0", b);
    push("64 bytes of 0xFF", vec![0xff; 64]);
    push("64 zero bytes", vec![0; 64]);
    push("ZMTP 1.0 style short greeting", vec![0x01, 0x00]);
    push("HTTP request", b"GET / HTTP/1.1\r\nHost: x\r\n\r\n".to_vec());
    v
}

// ------------------------------------------------------------------ E3 part

/// stage 0: instead of the greeting; 1: instead of READY; 2: after the handshake
fn socket_scenario(ty: Ty, stage: u8, spec: String, eof_after: bool) -> Verdict {
    world::reset(world::WorldCfg {
        nested_env: true,
        yields: false,
        select: true,
        policy: 0,
        coop: false,
    });
    let input = expand(&spec);
    let victim = e3::raw_conn("victim");
    let healthy = e3::raw_conn("healthy");
    let mut vb = Vec::new();
    match stage {
        0 => {}
        1 => vb.extend(rc::default_greeting()),
        _ => vb.extend(rc::handshake(ty.peer_type(), Some(b"V"))),
    }
    vb.extend_from_slice(&input);
    victim.send(&vb);
    if eof_after {
        victim.eof();
    }
    healthy.send(&rc::handshake(ty.peer_type(), Some(b"H")));
    // what the healthy peer does after the handshake
    match ty {
        Ty::Pub => healthy.send(&rc::encode_message(&[vec![1u8]])),
        Ty::XPub => healthy.send(&rc::encode_message(&[vec![1u8]])),
        Ty::Pull | Ty::Sub | Ty::Dealer | Ty::Router => healthy.send(&rc::encode_message(&[b"hello".to_vec(), b"h2".to_vec()])),
        Ty::Rep => healthy.send(&rc::encode_message(&[vec![], b"hello".to_vec()])),
        Ty::Req => {
            // echo REP peer: replies to every complete request it has seen
            let to_lib = healthy.to_lib;
            let mut answered = 0usize;
            world::set_sink(
                healthy.from_lib,
                Box::new(move |tap: &[u8]| {
                    let msgs = rc::decode_stream(tap, true).messages();
                    let mut out = Vec::new();
                    while answered < msgs.len() {
                        out.push((to_lib, world::Chunk::Data(rc::encode_message(&msgs[answered]))));
                        answered += 1;
                    }
                    out
                }),
            );
        }
        Ty::Push => {}
    }
    let ok = std::rc::Rc::new(std::cell::Cell::new(false));
    let ok2 = ok.clone();
    let sock = std::rc::Rc::new(futures::lock::Mutex::new(AnySocket::new(ty, None)));
    let be = sock.try_lock().unwrap().backend();
    let be2 = be.clone();
    world::spawn_app("attach-victim", async move {
        let r = e3::attach_raw(be, victim).await;
        world::log(format!("attach(victim) -> {}", r.map(|_| "Ok".into()).unwrap_or_else(|e| format!("Err({})", e3::err_class(&e)))));
    });
    world::spawn_app("attach-healthy", async move {
        let r = e3::attach_raw(be2, healthy).await;
        world::log(format!("attach(healthy) -> {}", r.map(|_| "Ok".into()).unwrap_or_else(|e| format!("Err({})", e3::err_class(&e)))));
        world::set_cond("healthy-attached");
    });
    let s2 = sock.clone();
    world::spawn_app("app", async move {
        world::wait_cond("healthy-attached").await;
        let mut sock = s2.lock().await;
        match ty {
            Ty::Pull | Ty::Sub | Ty::Dealer | Ty::Router | Ty::Rep | Ty::XPub => {
                for _ in 0..4 {
                    let r = sock.recv().await;
                    world::log(format!("recv -> {}", e3::show_result(&r)));
                    if let Ok(m) = r {
                        let f = crate::e1::frames_of(&m);
                        if f.iter().any(|x| x == b"hello") || (ty == Ty::XPub && f == vec![vec![1u8]]) {
                            ok2.set(true);
                            break;
                        }
                    }
                }
            }
            Ty::Req => {
                for i in 0..3 {
                    let s = sock.send(crate::e1::msg(&[format!("ping{}", i).into_bytes()])).await;
                    world::log(format!("send -> {}", s.as_ref().map(|_| "Ok".to_string()).unwrap_or_else(|e| e3::err_class(e))));
                    if s.is_err() {
                        continue;
                    }
                    let r = world::until_idle(sock.recv()).await;
                    match r {
                        Some(r) => {
                            world::log(format!("recv -> {}", e3::show_result(&r)));
                            if let Ok(m) = r {
                                if crate::e1::frames_of(&m) == vec![format!("ping{}", i).into_bytes()] {
                                    ok2.set(true);
                                    break;
                                }
                            }
                        }
                        None => {
                            // the request went to the victim, which stays silent: a REQ socket legitimately
                            // waits for that reply (lock-step) and refuses further requests; not judged
                            world::log("recv abandoned: the victim got the request and never answers (REQ lock-step, not judged)");
                            ok2.set(true);
                            break;
                        }
                    }
                }
            }
            Ty::Push | Ty::Pub => {
                // let the PUB reader task see the subscription first
                world::idle().await;
                for i in 0..3 {
                    let s = sock.send(crate::e1::msg(&[format!("out{}", i).into_bytes()])).await;
                    world::log(format!("send -> {}", s.as_ref().map(|_| "Ok".to_string()).unwrap_or_else(|e| e3::err_class(e))));
                }
                let got = healthy.tap_messages();
                if !got.is_empty() {
                    ok2.set(true);
                }
            }
        }
        world::set_cond("done");
        world::wait_cond("never").await;
    });
    let end = world::run(e3::HORIZON);
    let mut v = Verdict::default();
    v.truncated = end != world::RunEnd::Quiescent;
    let what = format!(
        "{} socket, victim sends {} {} ({} bytes{}), healthy peer alongside",
        ty.name(),
        match stage {
            0 => "instead of the greeting:",
            1 => "after its greeting, instead of READY:",
            _ => "after a complete handshake:",
        },
        spec.chars().take(60).collect::<String>(),
        input.len(),
        if eof_after { ", then EOF" } else { "" }
    );
    let panics = world::panics();
    if let Some(p) = panics.first() {
        v.violate(panic_class(p), format!("{}: {}", what, p));
    }
    if v.truncated {
        v.violate("spin", format!("{}: no quiescence within {} steps", what, e3::HORIZON));
    }
    if !ok.get() && panics.is_empty() && !v.truncated {
        // REQ: a request routed to the victim can legitimately never be answered
        v.violate(
            format!("healthy-peer-starved/{}/stage{}", ty.name(), stage),
            format!("{}: the healthy peer's traffic was not delivered", what),
        );
    }
    let log = world::log_snapshot();
    let canon: Vec<String> = log.iter().filter(|l| !l.contains(" env ") && !l.contains("nested")).map(|l| l.splitn(2, ' ').nth(1).unwrap_or("").to_string()).collect();
    v.outcome_hash = world::hash_log(&canon);
    drop(sock);
    e3::finish(v)
}

pub fn child_e3(tier_s: &str, specs_path: &str) -> i32 {
    let tier = if tier_s == "thorough" { Tier::Thorough } else { Tier::Quick };
    let specs: Vec<(String, String)> = serde_json::from_str::<Vec<(String, String)>>(&std::fs::read_to_string(specs_path).expect("specs")).expect("specs json");
    let mut ck = Check::new("C03", tier, "model_checking");
    let mut jobs = Vec::new();
    for ty in ALL_TYPES {
        for (stage_set, fam) in [(vec![1u8, 2u8], &specs), (vec![0u8], &greeting_stage_family())] {
            for stage in stage_set {
                for (_d, spec) in fam.iter() {
                    // long chains: one execution is expensive (every frame is a step): default schedule only
                    let long = ["chain:", "lchain:", "cchain:"].iter().any(|p| spec.strip_prefix(p).and_then(|r| r.split(':').next()).and_then(|n| n.parse::<usize>().ok()).map(|n| n >= 3000).unwrap_or(false));
                    for eof in [false, true] {
                        if long && eof {
                            continue;
                        }
                        let spec2 = spec.clone();
                        jobs.push(e3::job(
                            format!("C03/socket/{}/stage{}/{}{}", ty.name(), stage, spec.chars().take(48).collect::<String>(), if eof { "/eof" } else { "" }),
                            json!({"scenario":"socket","type":ty.name(),"stage":stage,"spec":spec,"eof":eof}),
                            if long { 0 } else { tier.pick(2, 3) },
                            if long { 2 } else { 200_000 },
                            move || socket_scenario(ty, stage, spec2.clone(), eof),
                        ));
                    }
                }
            }
        }
    }
    e3::run_jobs_into(&mut ck, jobs, false);
    let findings: Vec<Value> = ck
        .findings
        .iter()
        .map(|f| json!({"class": f.class, "message": f.message, "replay": f.replay}))
        .collect();
    println!(
        "{}",
        json!({"coverage": Value::Object(ck.coverage.clone()), "findings": findings, "machinery": ck.machinery, "samples": ck.samples})
    );
    0
}

pub fn run(tier: Tier, replay: Option<String>) -> i32 {
    world::install_panic_hook();
    let mut ck = Check::new("C03", tier, "model_checking");
    if let Some(path) = replay {
        return run_replay(&path);
    }
    let tmp = zvcore::evidence::root().join("target").join("c03");
    let _ = std::fs::create_dir_all(&tmp);
    // (b) structured family, one isolated child per input
    let fam = structured_family(tier);
    let next = AtomicUsize::new(0);
    let results: Mutex<Vec<(usize, ChildOut)>> = Mutex::new(Vec::new());
    std::thread::scope(|sc| {
        for _ in 0..ck.threads {
            sc.spawn(|| loop {
                let i = next.fetch_add(1, Ordering::Relaxed);
                if i >= fam.len() {
                    break;
                }
                let out = run_child(&["c03-one", &fam[i].1]);
                results.lock().unwrap().push((i, out));
            });
        }
    });
    let mut results = results.into_inner().unwrap();
    results.sort_by_key(|r| r.0);
    let mut classes: BTreeMap<String, (String, String)> = BTreeMap::new();
    let mut e3_specs: Vec<(String, String)> = Vec::new();
    let mut distinct_outcomes: std::collections::HashSet<String> = Default::default();
    let mut max_peak_ratio = 0f64;
    for (i, out) in &results {
        let (desc, spec) = &fam[*i];
        let mut outcome_sig = String::new();
        if !out.status.success() {
            let class = abort_class(&out.stderr).to_string();
            let msg = format!("after a valid greeting, {}: {}", desc, describe_exit(&out.status, &out.stderr));
            ck.finding(class, msg, json!({"engine":"E1","kind":"one","spec":spec,"desc":desc}));
            continue; // never fed in-process
        }
        match serde_json::from_str::<Value>(out.stdout.trim()) {
            Ok(v) => {
                if let Some(p) = v["panic"].as_str() {
                    ck.finding(
                        panic_class(p),
                        format!("after a valid greeting, {}: panic: {}", desc, p),
                        json!({"engine":"E1","kind":"one","spec":spec,"desc":desc}),
                    );
                    outcome_sig = format!("panic:{}", panic_class(p));
                } else {
                    let peak = v["peak"].as_u64().unwrap_or(0) as usize;
                    let fed = v["fed"].as_u64().unwrap_or(0) as usize;
                    max_peak_ratio = max_peak_ratio.max(peak as f64 / (fed.max(1)) as f64);
                    if peak > alloc_bound(fed) {
                        ck.finding(
                            "allocation/declared-length",
                            format!("after a valid greeting, {}: heap grew by {} bytes (largest single request {}) while only {} bytes were received", desc, peak, v["biggest"], fed),
                            json!({"engine":"E1","kind":"one","spec":spec,"desc":desc}),
                        );
                        outcome_sig = "alloc".into();
                    } else {
                        outcome_sig = v["outcome"].as_str().unwrap_or("").to_string();
                    }
                }
            }
            Err(_) => ck.machinery_error(format!("child for {} printed no result: {:?} / {:?}", spec, out.stdout, out.stderr)),
        }
        if distinct_outcomes.insert(outcome_sig.clone()) || desc.starts_with("READY value:") || spec.starts_with("chain") || spec.starts_with("lchain") || spec.starts_with("cchain") || desc.starts_with("long frame") {
            // representatives for the socket-level part: one input per distinct codec-level outcome, plus all chains / hostile lengths
            if !(desc.starts_with("long frame") && !desc.ends_with("0 byte(s)")) {
                e3_specs.push((desc.clone(), spec.clone()));
            }
        }
        classes.entry(outcome_sig).or_insert((desc.clone(), spec.clone()));
    }
    // (a) exhaustive alphabet sweep, partitioned over child processes by the first two symbols
    let sweep_len = tier.pick(6, 7);
    let mut parts: Vec<String> = vec![];
    for a in SIGMA {
        for b in SIGMA {
            parts.push(rc::hex(&[a, b]));
        }
    }
    // (a') frame-level sweep: every sequence of up to 5 (thorough 6) frames of a 9-frame alphabet, partitioned by the first frame
    let n_byte_parts = parts.len();
    let frame_len = tier.pick(5usize, 6usize);
    for i in 0..frame_alphabet().len() {
        parts.push(format!("F{}", i));
    }
    let next = AtomicUsize::new(0);
    let sweep_results: Mutex<Vec<(usize, ChildOut)>> = Mutex::new(Vec::new());
    std::thread::scope(|sc| {
        for t in 0..ck.threads {
            let tmp = &tmp;
            let parts = &parts;
            let next = &next;
            let sweep_results = &sweep_results;
            sc.spawn(move || loop {
                let i = next.fetch_add(1, Ordering::Relaxed);
                if i >= parts.len() {
                    break;
                }
                let pp = tmp.join(format!("progress-{}", t));
                let l = if i >= n_byte_parts { frame_len } else { sweep_len };
                let out = run_child(&["c03-sweep", &parts[i], &l.to_string(), pp.to_str().unwrap()]);
                if !out.status.success() {
                    // the progress file names the input being fed when the child died
                    let last = std::fs::read_to_string(&pp).unwrap_or_default();
                    let mut o = out;
                    o.stdout = last.trim().to_string();
                    sweep_results.lock().unwrap().push((i, o));
                } else {
                    sweep_results.lock().unwrap().push((i, out));
                }
            });
        }
    });
    greeting_sweep(&mut ck);
    let mut swept = 0u64;
    let mut sweep_outcomes = 0u64;
    // the strings shorter than 2 symbols
    for short in [vec![], vec![SIGMA[0]]] {
        let _ = short;
    }
    for s in SIGMA.iter().map(|b| vec![*b]).chain(std::iter::once(vec![])) {
        let r = feed_one(&s, true, true);
        swept += 1;
        if let Some(p) = r.panic {
            ck.finding(panic_class(&p), format!("after a valid greeting, bytes {}: panic: {}", rc::hex(&s), p), json!({"engine":"E1","kind":"one","spec":format!("hex:{}", rc::hex(&s))}));
        }
    }
    let mut sr = sweep_results.into_inner().unwrap();
    sr.sort_by_key(|r| r.0);
    for (i, out) in &sr {
        if !out.status.success() {
            ck.finding(
                abort_class(&out.stderr),
                format!("after a valid greeting, bytes {}: {}", out.stdout, describe_exit(&out.status, &out.stderr)),
                json!({"engine":"E1","kind":"one","spec":format!("hex:{}", out.stdout)}),
            );
            continue;
        }
        match serde_json::from_str::<Value>(out.stdout.trim()) {
            Ok(v) => {
                swept += v["count"].as_u64().unwrap_or(0);
                sweep_outcomes += v["outcomes"].as_u64().unwrap_or(0);
                if let Some(vs) = v["violations"].as_array() {
                    for x in vs {
                        let input = x["input"].as_str().unwrap_or("");
                        if let Some(p) = x["panic"].as_str() {
                            ck.finding(
                                panic_class(p),
                                format!("after a valid greeting, bytes {}: panic: {}", input, p),
                                json!({"engine":"E1","kind":"one","spec":format!("hex:{}", input)}),
                            );
                        } else {
                            ck.finding(
                                "allocation/declared-length",
                                format!("after a valid greeting, bytes {}: heap grew by {} while {} bytes were received", input, x["peak"], x["fed"]),
                                json!({"engine":"E1","kind":"one","spec":format!("hex:{}", input)}),
                            );
                        }
                    }
                }
            }
            Err(_) => ck.machinery_error(format!("sweep child {} printed no result: {:?} {:?}", parts[*i], out.stdout, out.stderr.chars().take(300).collect::<String>())),
        }
    }
    // (c) socket level, in a child process of its own (an abort must not take the checker down)
    let aborting: Vec<String> = ck
        .findings
        .iter()
        .filter(|f| f.class.starts_with("abort/"))
        .filter_map(|f| f.replay["spec"].as_str().map(|s| s.to_string()))
        .collect();
    // inputs that abort at codec level are already violations; feeding them to sockets in-process adds nothing
    let abort_fams: Vec<&str> = fam
        .iter()
        .zip(results.iter())
        .filter(|(_, (_, o))| !o.status.success())
        .map(|((_, s), _)| s.as_str())
        .collect();
    e3_specs.retain(|(_, s)| !aborting.contains(s) && !abort_fams.contains(&s.as_str()));
    // chains: keep the socket-level part affordable
    e3_specs.retain(|(_, s)| !(s.starts_with("chain:100000") || s.starts_with("lchain:20000") || s.starts_with("cchain:400000")));
    let specs_path = tmp.join("e3-specs.json");
    std::fs::write(&specs_path, serde_json::to_string(&e3_specs).unwrap()).unwrap();
    let out = run_child(&["c03-e3", tier.as_str(), specs_path.to_str().unwrap()]);
    if !out.status.success() {
        // which job was the dying thread running?
        let dying = out.stderr.lines().find_map(|l| l.strip_prefix("thread '").and_then(|r| r.split('\'').next()).filter(|_| l.contains("overflowed its stack"))).map(|s| s.to_string());
        let job = dying.as_ref().and_then(|t| out.stderr.lines().rev().find_map(|l| l.strip_prefix(&format!("START {} ", t)).map(|j| j.to_string())));
        ck.finding(
            format!("{}/socket-level", abort_class(&out.stderr)),
            format!("socket-level sweep: {}{}; stderr tail: {}", describe_exit(&out.status, &out.stderr), job.as_ref().map(|j| format!(" while running scenario {}", j)).unwrap_or_default(), out.stderr.lines().rev().find(|l| !l.starts_with("START ")).unwrap_or("")),
            json!({"engine":"E3","kind":"sweep","job":job}),
        );
    } else {
        match serde_json::from_str::<Value>(out.stdout.lines().last().unwrap_or("")) {
            Ok(v) => {
                if let Some(c) = v["coverage"].as_object() {
                    for (k, val) in c {
                        ck.coverage.insert(k.clone(), val.clone());
                    }
                }
                for f in v["findings"].as_array().cloned().unwrap_or_default() {
                    ck.finding(f["class"].as_str().unwrap_or("?"), f["message"].as_str().unwrap_or(""), f["replay"].clone());
                }
                for m in v["machinery"].as_array().cloned().unwrap_or_default() {
                    ck.machinery_error(m.as_str().unwrap_or("?"));
                }
                for s in v["samples"].as_array().cloned().unwrap_or_default() {
                    ck.sample(s);
                }
            }
            Err(e) => ck.machinery_error(format!("socket-level child printed no result ({}): {:?}", e, out.stderr.chars().take(400).collect::<String>())),
        }
    }
    let e3x = ck.coverage.get("e3_executions").and_then(|v| v.as_u64()).unwrap_or(0);
    let evals = swept * 2 + fam.len() as u64 * 2 + e3x;
    ck.cov("evaluations", evals);
    ck.cov("distinct_nontrivial", (classes.len() as u64) + sweep_outcomes.min(swept));
    ck.cov("alphabet_sweep_streams", swept);
    ck.cov("alphabet_sweep_max_len", sweep_len as u64);
    ck.cov("structured_inputs", fam.len() as u64);
    ck.cov("structured_distinct_codec_outcomes", classes.len() as u64);
    ck.cov("socket_level_inputs", e3_specs.len() as u64);
    ck.cov("max_heap_growth_per_byte_fed", (max_peak_ratio * 100.0).round() / 100.0);
    ck.cov("exhaustive", true);
    ck.cov("traces_validated_against_impl", evals);
    ck.cov("rule", format!("(a) every byte string over {{00..08,FF,'R',0B}} of length <= {} after a valid greeting, fed whole and byte-at-a-time to the real framed reader (child processes, 2 MiB stacks); (a') every sequence of up to 5 (thorough 6) FRAMES of a 9-frame alphabet (message frames with and without MORE, empty ones, long form, READY / ERROR commands, a full READY, a command with MORE) - sequences no well-behaved peer sends, such as a command in the middle of a multipart message; (a'') greeting stage: a valid greeting + READY and every single-byte mutation of the greeting (64 positions x 6 values), handed to the reader with a first piece of every length 0..=64, then the rest + EOF or EOF at once (coverage.greeting_stage_first_piece_feeds); (b) {} structured hostile inputs (inconsistent command lengths truncated at every byte, 64-bit frame lengths incl. sign bit, reserved flags, MORE-chains up to 100000 frames), each in its own child process with a counting allocator: no panic, no abnormal exit, peak heap growth <= 1 MiB + 64 x bytes fed; (c) one representative per distinct codec-level outcome plus all chains/hostile lengths, fed at each of 3 handshake stages to each of 9 socket types through real attach/recv/send with a healthy second peer whose traffic must still get through. distinct_nontrivial = distinct codec-level outcome signatures (item kinds / error text / panic site).", sweep_len, fam.len()));
    for (sig, (d, s)) in classes.iter().take(4) {
        ck.sample(json!({"input": d, "spec": s.chars().take(80).collect::<String>(), "codec_outcome": sig}));
    }
    ck.assume("abort classes (allocation failure, stack overflow) are observed as the exit status of child processes whose feeder thread has the 2 MiB stack of a tokio worker");
    ck.assume("byte strings longer than the sweep bound outside the structured family are not covered");
    ck.conclude()
}

/// Greeting-stage sweep (in-process, guarded: nothing here can make the reader allocate): a valid greeting + READY and
/// every single-byte mutation of the greeting (each of its 64 positions set to 00, 01, 03, 04, 7F, FF), handed to the
/// real framed reader with a FIRST PIECE of every length 0..=64 (so that the decoder is called with exactly that many
/// bytes of a greeting in its buffer), followed by the rest in one piece and end-of-stream - or by end-of-stream at
/// once. No panic.
fn greeting_cut(bytes: &[u8], k: usize, rest: bool) -> Option<String> {
    let data = bytes.to_vec();
    world::guarded(|| {
        let mut out = Vec::new();
        let mut rd = Reader::new(data.clone());
        rd.feed_to(k.min(data.len()), &mut out);
        if rest {
            rd.feed_to(data.len(), &mut out);
        }
        rd.set_eof(&mut out);
    })
    .err()
}

fn greeting_sweep(ck: &mut Check) {
    let mut base = rc::default_greeting();
    base.extend(rc::encode_ready("DEALER", Some(b"g")));
    base.extend(rc::encode_message(&[b"m".to_vec()]));
    let mut variants: Vec<Vec<u8>> = vec![base.clone()];
    for i in 0..64 {
        for v in [0x00u8, 0x01, 0x03, 0x04, 0x7f, 0xff] {
            if base[i] != v {
                let mut b = base.clone();
                b[i] = v;
                variants.push(b);
            }
        }
    }
    let mut n = 0u64;
    'all: for b in &variants {
        for k in 0..=64usize {
            for rest in [true, false] {
                n += 1;
                if let Some(p) = greeting_cut(b, k, rest) {
                    ck.finding(
                        panic_class(&p),
                        format!("greeting stage: the reader is handed the first {} bytes of {} in one piece, then {}: panic: {}", k, if *b == base { "a valid greeting + READY".to_string() } else { format!("a greeting whose byte {} is {:02x}", b.iter().zip(&base).position(|(x, y)| x != y).unwrap_or(0), b[b.iter().zip(&base).position(|(x, y)| x != y).unwrap_or(0)]) }, if rest { "the rest and end-of-stream" } else { "end-of-stream" }, p),
                        json!({"engine":"E1","kind":"greeting-cut","hex": rc::hex(b), "k": k, "rest": rest}),
                    );
                    break 'all;
                }
            }
        }
    }
    ck.cov("greeting_stage_first_piece_feeds", n);
}

fn run_replay(path: &str) -> i32 {
    let v: Value = serde_json::from_str(&std::fs::read_to_string(path).expect("read")).expect("json");
    let r = &v["replay"];
    if r["engine"] == "E3" {
        if r["kind"] == "sweep" {
            eprintln!("re-run ./check C03 to reproduce a socket-level sweep abort");
            return 2;
        }
        return crate::replay::replay_e3(&v, |p| {
            let ty = Ty::from_name(p["type"].as_str()?)?;
            let stage = p["stage"].as_u64()? as u8;
            let spec = p["spec"].as_str()?.to_string();
            let eof = p["eof"].as_bool().unwrap_or(false);
            Some(std::sync::Arc::new(move || socket_scenario(ty, stage, spec.clone(), eof)) as zvcore::explore::Scenario)
        });
    }
    if r["kind"] == "greeting-cut" {
        let (b, k, rest) = (rc::unhex(r["hex"].as_str().unwrap_or("")), r["k"].as_u64().unwrap_or(0) as usize, r["rest"].as_bool().unwrap_or(true));
        return match greeting_cut(&b, k, rest) {
            Some(p) => {
                println!("replay greeting-cut k={}: VIOLATION panic: {}", k, p);
                1
            }
            None => {
                println!("replay greeting-cut k={}: holds", k);
                0
            }
        };
    }
    let spec = r["spec"].as_str().expect("spec");
    let out = run_child(&["c03-one", spec]);
    if !out.status.success() {
        println!("replay {}: VIOLATION {}", spec, describe_exit(&out.status, &out.stderr));
        return 1;
    }
    let res: Value = serde_json::from_str(out.stdout.trim()).unwrap_or(Value::Null);
    if let Some(p) = res["panic"].as_str() {
        println!("replay {}: VIOLATION panic: {}", spec, p);
        return 1;
    }
    let peak = res["peak"].as_u64().unwrap_or(0) as usize;
    let fed = res["fed"].as_u64().unwrap_or(0) as usize;
    if peak > alloc_bound(fed) {
        println!("replay {}: VIOLATION heap grew by {} for {} bytes fed", spec, peak, fed);
        return 1;
    }
    println!("replay {}: holds ({})", spec, res);
    0
}
