//! C02 — stream reassembly is independent of segmentation (E1 graph + E3).
//!
//! Codec/FramedRead level: explicit-state graph whose nodes are (bytes fed p,
//! canonical reader state sigma). Every edge p->q (one read returns s[p..q]) is
//! executed on the real framed reader; the check is that every p has exactly one
//! sigma and that it equals the reference decode of s[..p]. The reader is a
//! deterministic function of sigma and the remaining bytes, so a singleton sigma
//! per p proves by induction that all 2^|I| partitions with cuts in I decode
//! identically.

use crate::e1::{item_to_ref, norm, Reader};
use crate::e3::{self, AnySocket, Ty};
use serde_json::json;
use std::sync::atomic::{AtomicU64, Ordering};
use std::sync::Mutex;
use zeromq::__verif::Item;
use zvcore::evidence::{Check, Tier};
use zvcore::explore::Verdict;
use zvcore::refcodec::{self as rc, RItem};
use zvcore::world;

#[derive(Clone, Debug)]
struct StreamSpec {
    /// indices into the item menu
    items: Vec<usize>,
}

fn menu_item(i: usize, seed: u64) -> (String, Vec<u8>) {
    let big = |n: usize, t: u64| rc::pattern(n, t, seed);
    match i {
        0 => ("READY{}".into(), rc::encode_command(b"READY", &[])),
        1 => ("READY{Socket-Type}".into(), rc::encode_ready("DEALER", None)),
        2 => ("READY{Socket-Type,Identity}".into(), rc::encode_ready("DEALER", Some(b"id7"))),
        3 => ("[\"\"]".into(), rc::encode_message(&[vec![]])),
        4 => ("[a]".into(), rc::encode_message(&[b"a".to_vec()])),
        5 => ("[a,b]".into(), rc::encode_message(&[b"a".to_vec(), b"b".to_vec()])),
        6 => ("[\"\",x]".into(), rc::encode_message(&[vec![], b"x".to_vec()])),
        7 => ("[255B]".into(), rc::encode_message(&[big(255, 1)])),
        8 => ("[256B]".into(), rc::encode_message(&[big(256, 2)])),
        9 => ("[300B,\"\"]".into(), rc::encode_message(&[big(300, 3), vec![]])),
        10 => ("[9000B]".into(), rc::encode_message(&[big(9000, 4)])),
        11 => ("[a,9000B,b]".into(), rc::encode_message(&[b"a".to_vec(), big(9000, 5), b"b".to_vec()])),
        // frames of 64 KiB and more, with something behind them (only in the streams listed explicitly below)
        12 => ("[65536B]".into(), rc::encode_message(&[big(65536, 6)])),
        13 => ("[a,70000B,b]".into(), rc::encode_message(&[b"a".to_vec(), big(70_000, 7), b"b".to_vec()])),
        _ => unreachable!(),
    }
}
const MENU: usize = 12;

fn build(spec: &StreamSpec, seed: u64) -> (Vec<u8>, Vec<usize>, String) {
    let mut s = rc::default_greeting();
    let mut bounds = vec![0usize, 64];
    let mut names = vec!["greeting".to_string()];
    for &i in &spec.items {
        let (n, b) = menu_item(i, seed);
        // structural boundaries inside the item: walk its frames
        let base = s.len();
        let mut p = 0usize;
        while p < b.len() {
            let long = b[p] & 2 != 0;
            let (len, hdr) = if long {
                let mut x = [0u8; 8];
                x.copy_from_slice(&b[p + 1..p + 9]);
                (u64::from_be_bytes(x) as usize, 9)
            } else {
                (b[p + 1] as usize, 2)
            };
            bounds.push(base + p);
            bounds.push(base + p + 1);
            bounds.push(base + p + hdr);
            p += hdr + len;
            bounds.push(base + p);
        }
        s.extend(b);
        names.push(n);
    }
    (s, bounds, names.join(" "))
}

fn cut_set(n: usize, bounds: &[usize], dense_limit: usize) -> Vec<usize> {
    let mut v: Vec<usize> = Vec::new();
    if n <= dense_limit {
        v.extend(0..=n);
    } else {
        for &b in bounds {
            for d in 0..=12usize {
                if b + d <= n {
                    v.push(b + d);
                }
                if b >= d {
                    v.push(b - d);
                }
            }
        }
        let mut k = 4096;
        while k <= n + 1 {
            for x in [k - 1, k, k + 1] {
                if x <= n {
                    v.push(x);
                }
            }
            k += 4096;
        }
        v.push(0);
        v.push(n);
    }
    v.sort();
    v.dedup();
    v
}

#[derive(Clone, PartialEq, Eq, Debug)]
struct Sigma {
    decoder: u64,
    buffer: u64,
    buffer_len: usize,
    items: Vec<u64>,
    errors: usize,
}

fn sigma_of(r: &Reader, out: &[Result<Item, String>]) -> Sigma {
    let (dbg, buf) = r.sigma();
    Sigma {
        decoder: rc::fnv(dbg.as_bytes()),
        buffer: rc::fnv(&buf),
        buffer_len: buf.len(),
        items: out
            .iter()
            .filter_map(|i| i.as_ref().ok())
            .map(|i| rc::fnv(format!("{:?}", norm(&item_to_ref(i))).as_bytes()))
            .collect(),
        errors: out.iter().filter(|i| i.is_err()).count(),
    }
}

struct GraphStats {
    nodes: u64,
    edges: u64,
    max_i: usize,
}

/// Explores the (p, sigma) graph of one stream. Err((class, msg, replay)).
fn explore_stream(spec: &StreamSpec, seed: u64, dense_limit: usize) -> Result<GraphStats, (String, String, serde_json::Value)> {
    let (s, bounds, name) = build(spec, seed);
    let n = s.len();
    let cuts = cut_set(n, &bounds, dense_limit);
    let refd = rc::decode_stream(&s, true);
    assert!(refd.clean(n), "harness stream is not well-formed: {:?}", refd.error);
    let expected_at = |p: usize| -> Vec<u64> {
        refd.items
            .iter()
            .filter(|(_, end)| *end <= p)
            .map(|(i, _)| rc::fnv(format!("{:?}", norm(i)).as_bytes()))
            .collect()
    };
    let replay = |path: &[usize]| json!({"engine":"E1","kind":"graph","items": spec.items, "seed": seed, "path": path});
    // nodes: direct path [p]
    let mut direct: Vec<Sigma> = Vec::with_capacity(cuts.len());
    for &p in &cuts {
        let mut r = Reader::new(s.clone());
        let mut out = Vec::new();
        let res = world::guarded(|| r.feed_to(p, &mut out));
        if let Err(pn) = res {
            return Err(("panic/reader".into(), format!("stream <{}> fed up to {}: panic {}", name, p, pn), replay(&[p])));
        }
        let sg = sigma_of(&r, &out);
        if sg.errors > 0 {
            return Err((
                "valid-stream-error".into(),
                format!("stream <{}>: after {} of {} bytes in one read the reader reported an error: {:?}", name, p, n, out.iter().find(|o| o.is_err())),
                replay(&[p]),
            ));
        }
        if sg.items != expected_at(p) {
            return Err((
                "items-differ-from-reference".into(),
                format!(
                    "stream <{}>: after {} of {} bytes in one read the reader has yielded {} items, the reference decoder finds {} complete items in that prefix (or they differ)",
                    name,
                    p,
                    n,
                    sg.items.len(),
                    expected_at(p).len()
                ),
                replay(&[p]),
            ));
        }
        // consumed + buffered must account for every byte fed
        // end of stream right here: nothing further may be surfaced as a message
        let mut out2 = Vec::new();
        let _ = world::guarded(|| r.set_eof(&mut out2));
        if out2.iter().any(|o| o.is_ok()) {
            return Err((
                "item-surfaced-at-eof".into(),
                format!("stream <{}> cut by EOF at {}: the reader surfaced an item out of an incomplete one", name, p),
                replay(&[p]),
            ));
        }
        direct.push(sg);
    }
    // edges p -> q
    let mut edges = 0u64;
    for (pi, &p) in cuts.iter().enumerate() {
        for (qi, &q) in cuts.iter().enumerate().skip(pi + 1) {
            if p == 0 {
                continue; // identical to the direct path
            }
            let mut r = Reader::new(s.clone());
            let mut out = Vec::new();
            let res = world::guarded(|| {
                r.feed_to(p, &mut out);
                r.feed_to(q, &mut out);
            });
            edges += 1;
            if let Err(pn) = res {
                return Err(("panic/reader".into(), format!("stream <{}> fed as [0..{}][{}..{}]: panic {}", name, p, p, q, pn), replay(&[p, q])));
            }
            let sg = sigma_of(&r, &out);
            if sg != direct[qi] {
                let what = if sg.items != direct[qi].items {
                    "different items"
                } else if sg.decoder != direct[qi].decoder {
                    "different decoder state"
                } else {
                    "different unread buffer"
                };
                return Err((
                    format!("segmentation-dependent/{}", what.replace(' ', "-")),
                    format!(
                        "stream <{}> ({} bytes): reading [0..{}] then [{}..{}] leaves the reader in a different state than reading [0..{}] at once: {} ({} vs {} items yielded)",
                        name, n, p, p, q, q, what, sg.items.len(), direct[qi].items.len()
                    ),
                    replay(&[p, q]),
                ));
            }
        }
    }
    Ok(GraphStats {
        nodes: cuts.len() as u64,
        edges,
        max_i: cuts.len(),
    })
}

// ------------------------------------------------------------------ E3 part

pub fn socket_stream(ty: Ty) -> (Vec<u8>, Vec<Vec<Vec<u8>>>, Vec<Vec<Vec<u8>>>) {
    // (bytes the raw peer writes, the two messages on the wire, what recv must return)
    let id = b"P1".to_vec();
    let (m1, m2): (Vec<Vec<u8>>, Vec<Vec<u8>>) = match ty {
        Ty::Rep | Ty::Req => (vec![vec![], b"one".to_vec()], vec![vec![], b"two".to_vec(), b"2b".to_vec()]),
        Ty::XPub => (vec![vec![1, b'a']], vec![vec![1, b'b', b'c']]),
        _ => (vec![b"one".to_vec()], vec![b"two".to_vec(), vec![], b"2c".to_vec()]),
    };
    let mut s = rc::handshake(ty.peer_type(), Some(&id));
    s.extend(rc::encode_message(&m1));
    s.extend(rc::encode_message(&m2));
    let exp = |m: &Vec<Vec<u8>>| -> Vec<Vec<u8>> {
        match ty {
            Ty::Rep | Ty::Req => m[1..].to_vec(),
            Ty::Router => {
                let mut v = vec![id.clone()];
                v.extend(m.clone());
                v
            }
            _ => m.clone(),
        }
    };
    let e = vec![exp(&m1), exp(&m2)];
    (s, vec![m1, m2], e)
}

fn socket_scenario(ty: Ty, cuts: Vec<usize>) -> Verdict {
    world::reset(world::WorldCfg {
        nested_env: false,
        yields: false,
        select: false,
        policy: 0,
        coop: false,
    });
    let (stream, _wire, expect) = socket_stream(ty);
    let c = e3::raw_conn("p");
    c.send_cut(&stream, &cuts);
    let results = std::rc::Rc::new(std::cell::RefCell::new(Vec::<String>::new()));
    let res2 = results.clone();
    world::spawn_app("app", async move {
        let mut sock = AnySocket::new(ty, None);
        let r = e3::attach_raw(sock.backend(), c).await;
        if let Err(e) = r {
            res2.borrow_mut().push(format!("attach Err({})", e));
            return;
        }
        for i in 0..2 {
            if ty == Ty::Req {
                let s = sock.send(crate::e1::msg(&[format!("q{}", i).into_bytes()])).await;
                if let Err(e) = s {
                    res2.borrow_mut().push(format!("send Err({})", e3::err_class(&e)));
                }
            }
            let r = sock.recv().await;
            let line = e3::show_result(&r);
            world::log(format!("recv -> {}", line));
            res2.borrow_mut().push(line);
        }
        world::set_cond("done");
        // keep the socket alive until the world ends
        world::wait_cond("never").await;
        drop(sock);
    });
    let end = world::run(e3::HORIZON);
    let mut v = Verdict::default();
    v.truncated = end != world::RunEnd::Quiescent;
    let got = results.borrow().clone();
    let want: Vec<String> = expect.iter().map(|m| format!("Ok{}", rc::show_frames(m))).collect();
    let what = format!("{} socket, peer stream of {} bytes delivered with cuts {:?}", ty.name(), stream.len(), cuts);
    if !world::panics().is_empty() {
        v.violate("panic", format!("{}: {}", what, world::panics().join("; ")));
    } else if got != want {
        let class = if got.len() < want.len() {
            if cuts.iter().all(|c| *c > 64) && got.is_empty() {
                "recv-missing/no-message-delivered"
            } else {
                "recv-missing"
            }
        } else {
            "recv-differs"
        };
        v.violate(class, format!("{}: recv results {:?}, expected {:?}", what, got, want));
    }
    v.outcome_hash = rc::fnv(got.join("|").as_bytes());
    e3::finish(v)
}

/// Bulk behind the handshake: greeting + READY (optionally with a large extra property) + four 3 kB messages, all
/// written by the peer without waiting for anything, delivered with the given cuts. The read buffer grows while the
/// handshake is still being decoded; everything behind READY must still come out of recv.
fn bulk_stream(ty: Ty, ready_pad: usize) -> (Vec<u8>, usize, usize, Vec<String>) {
    let id = b"P1".to_vec();
    let mut props: Vec<(Vec<u8>, Vec<u8>)> = vec![(b"Socket-Type".to_vec(), ty.peer_type().as_bytes().to_vec()), (b"Identity".to_vec(), id.clone())];
    if ready_pad > 0 {
        props.push((b"X-Pad".to_vec(), rc::pattern(ready_pad, 77, 0)));
    }
    let mut s = rc::default_greeting();
    let ready_start = s.len();
    s.extend(rc::encode_command(b"READY", &props));
    let ready_end = s.len();
    let mut want = Vec::new();
    for i in 0..4usize {
        let m: Vec<Vec<u8>> = match ty {
            Ty::XPub => {
                let mut f = vec![1u8];
                f.extend(rc::pattern(3000, i as u64, 0));
                vec![f]
            }
            _ => vec![format!("b{}", i).into_bytes(), rc::pattern(3000, i as u64, 0)],
        };
        s.extend(rc::encode_message(&m));
        let exp: Vec<Vec<u8>> = if ty == Ty::Router {
            let mut e = vec![id.clone()];
            e.extend(m.clone());
            e
        } else {
            m
        };
        want.push(format!("Ok{}", rc::show_frames(&exp)));
    }
    (s, ready_start, ready_end, want)
}

fn bulk_scenario(ty: Ty, ready_pad: usize, cuts: Vec<usize>) -> Verdict {
    world::reset(world::WorldCfg { nested_env: false, yields: false, select: false, policy: 0, coop: false });
    let (stream, _, _, want) = bulk_stream(ty, ready_pad);
    let c = e3::raw_conn("p");
    c.send_cut(&stream, &cuts);
    let results = std::rc::Rc::new(std::cell::RefCell::new(Vec::<String>::new()));
    let res2 = results.clone();
    let n = want.len();
    world::spawn_app("app", async move {
        let mut sock = AnySocket::new(ty, None);
        sock.subscribe_all().await;
        if let Err(e) = e3::attach_raw(sock.backend(), c).await {
            res2.borrow_mut().push(format!("attach Err({})", e));
            return;
        }
        for _ in 0..n {
            match world::until_idle(sock.recv()).await {
                Some(r) => res2.borrow_mut().push(e3::show_result(&r)),
                None => break,
            }
        }
        world::wait_cond("never").await;
        drop(sock);
    });
    let end = world::run(e3::HORIZON * 4);
    let mut v = Verdict::default();
    v.truncated = end != world::RunEnd::Quiescent;
    let got = results.borrow().clone();
    let what = format!("{} socket, peer writes greeting + READY{} + four 3 kB messages without waiting ({} bytes), delivered with cuts {:?}", ty.name(), if ready_pad > 0 { format!(" (with a {}-byte extra property)", ready_pad) } else { String::new() }, stream.len(), cuts);
    if !world::panics().is_empty() {
        v.violate("panic", format!("{}: {}", what, world::panics().join("; ")));
    } else if got != want {
        v.violate("bulk-behind-handshake/recv-differs", format!("{}: recv returned {} of {} messages ({:?})", what, got.iter().filter(|g| want.contains(g)).count(), want.len(), got.iter().map(|g| g.chars().take(24).collect::<String>()).collect::<Vec<_>>()));
    }
    v.outcome_hash = rc::fnv(format!("{}", got.len()).as_bytes());
    e3::finish(v)
}

fn parse_cuts(p: &serde_json::Value) -> Vec<usize> {
    p.as_array().map(|a| a.iter().map(|x| x.as_u64().unwrap() as usize).collect()).unwrap_or_default()
}

/// Long-stream family (count-based: not a partition enumeration): greeting + `n` items cycling through the message
/// part of the menu, fed to the real framed reader whole and in fixed strides of k bytes for each k of a grid; what
/// the reader yields must equal the reference decode every time.
/// `frames` > 0: the stream starts (behind READY) with one message of that many tiny frames (0 and 1 byte alternating).
fn long_stream(n: usize, frames: usize, seed: u64) -> Result<u64, (String, String, serde_json::Value)> {
    let order = [4usize, 5, 3, 6, 7, 9, 8, 4, 5, 11, 6, 3];
    let mut s = rc::default_greeting();
    s.extend(rc::encode_ready("DEALER", Some(b"id7")));
    if frames > 0 {
        let m: Vec<Vec<u8>> = (0..frames).map(|i| if i % 2 == 0 { vec![] } else { vec![b'a' + (i % 26) as u8] }).collect();
        s.extend(rc::encode_message(&m));
    }
    for i in 0..n {
        let k = order[i % order.len()];
        // the big items only now and then, so that the stream stays a few hundred kB
        let k = if (k == 11 || k == 10) && i % 37 != 9 { 5 } else { k };
        s.extend(menu_item(k, seed).1);
    }
    let want: Vec<RItem> = rc::decode_stream(&s, true).items.into_iter().map(|(i, _)| norm(&i)).collect();
    let mut runs = 0u64;
    for &stride in &[0usize, 1, 2, 3, 5, 7, 8, 9, 16, 31, 64, 255, 256, 257, 1000, 4095, 8191, 8192, 8193, 20_000] {
        let mut rd = Reader::new(s.clone());
        let mut out = Vec::new();
        let fed = world::guarded(|| {
            if stride == 0 {
                rd.feed_to(s.len(), &mut out);
            } else {
                let mut p = 0;
                while p < s.len() {
                    p = (p + stride).min(s.len());
                    rd.feed_to(p, &mut out);
                }
            }
        });
        if let Err(pn) = fed {
            return Err((
                "panic/reader".into(),
                format!("greeting + READY + {}{} messages fed {}: panic {}", if frames > 0 { format!("one message of {} frames + ", frames) } else { String::new() }, n, if stride == 0 { "whole".to_string() } else { format!("{} bytes at a time", stride) }, pn),
                json!({"engine":"E1","kind":"long-stream","n":n,"frames":frames,"stride":stride,"seed":seed}),
            ));
        }
        runs += 1;
        let got: Vec<Result<RItem, String>> = out.iter().map(|r| r.as_ref().map(|i| norm(&item_to_ref(i))).map_err(|e| e.clone())).collect();
        let ok = got.len() == want.len() && got.iter().zip(&want).all(|(g, w)| g.as_ref().ok() == Some(w));
        if !ok {
            let first = got.iter().zip(&want).position(|(g, w)| g.as_ref().ok() != Some(w)).unwrap_or(got.len().min(want.len()));
            return Err((
                "long-stream/differs-from-reference".into(),
                format!("greeting + READY + {}{} messages fed {}: the reader yielded {} items, the reference decode has {}; first difference at item {}", if frames > 0 { format!("one message of {} frames + ", frames) } else { String::new() }, n, if stride == 0 { "whole".to_string() } else { format!("{} bytes at a time", stride) }, got.len(), want.len(), first),
                json!({"engine":"E1","kind":"long-stream","n":n,"frames":frames,"stride":stride,"seed":seed}),
            ));
        }
    }
    Ok(runs)
}

pub fn run(tier: Tier, replay: Option<String>) -> i32 {
    world::install_panic_hook();
    let mut ck = Check::new("C02", tier, "model_checking");
    let seed = ck.seed;
    if let Some(path) = replay {
        let v: serde_json::Value = serde_json::from_str(&std::fs::read_to_string(&path).expect("read")).expect("json");
        let r = &v["replay"];
        if r["engine"] == "E3" {
            return crate::replay::replay_e3(&v, |p| {
                let ty = Ty::from_name(p["type"].as_str()?)?;
                let cuts = parse_cuts(&p["cuts"]);
                if p["scenario"] == "bulk" {
                    let pad = p["ready_pad"].as_u64().unwrap_or(0) as usize;
                    return Some(std::sync::Arc::new(move || bulk_scenario(ty, pad, cuts.clone())) as zvcore::explore::Scenario);
                }
                Some(std::sync::Arc::new(move || socket_scenario(ty, cuts.clone())) as zvcore::explore::Scenario)
            });
        }
        if r["kind"] == "long-stream" {
            return match long_stream(r["n"].as_u64().unwrap_or(0) as usize, r["frames"].as_u64().unwrap_or(0) as usize, r["seed"].as_u64().unwrap_or(0)) {
                Ok(_) => {
                    println!("replay: holds");
                    0
                }
                Err((c, m, _)) => {
                    println!("replay: VIOLATION {}: {}", c, m);
                    1
                }
            };
        }
        let spec = StreamSpec {
            items: parse_cuts(&r["items"]),
        };
        let path_: Vec<usize> = parse_cuts(&r["path"]);
        let (s, _, name) = build(&spec, r["seed"].as_u64().unwrap_or(0));
        let mut rd = Reader::new(s.clone());
        let mut out = Vec::new();
        for p in &path_ {
            rd.feed_to(*p, &mut out);
            println!("fed up to {:>5}: {} items so far, decoder {}", p, out.len(), rd.sigma().0.chars().take(100).collect::<String>());
        }
        println!("stream <{}>; now the full graph of this stream:", name);
        return match explore_stream(&spec, r["seed"].as_u64().unwrap_or(0), 400) {
            Ok(_) => {
                println!("replay: holds");
                0
            }
            Err((c, m, _)) => {
                println!("replay: VIOLATION {}: {}", c, m);
                1
            }
        };
    }
    // stream family
    let mut specs: Vec<StreamSpec> = Vec::new();
    for a in 0..MENU {
        specs.push(StreamSpec { items: vec![a] });
        for b in 0..MENU {
            specs.push(StreamSpec { items: vec![a, b] });
        }
    }
    let small: Vec<usize> = match tier {
        Tier::Quick => vec![1, 4, 5, 6, 8],
        Tier::Thorough => (0..MENU).collect(),
    };
    for &a in &small {
        for &b in &small {
            for &c in &small {
                specs.push(StreamSpec { items: vec![a, b, c] });
            }
        }
    }
    if tier == Tier::Thorough {
        let four = [1usize, 4, 5, 6, 8, 11];
        for a in four {
            for b in four {
                for c in four {
                    for d in four {
                        specs.push(StreamSpec { items: vec![a, b, c, d] });
                    }
                }
            }
        }
    }
    // big frames: alone, in front of and behind each of a few small items
    for big in [12usize, 13] {
        specs.push(StreamSpec { items: vec![big] });
        for small in tier.pick(&[4usize][..], &[1usize, 3, 4, 5, 6, 8, 9][..]) {
            specs.push(StreamSpec { items: vec![big, *small] });
            specs.push(StreamSpec { items: vec![*small, big] });
        }
        if tier == Tier::Thorough {
            specs.push(StreamSpec { items: vec![big, big] });
        }
    }
    specs.push(StreamSpec { items: vec![] });
    let dense_limit = tier.pick(200, 400);
    let next = AtomicU64::new(0);
    let nodes = AtomicU64::new(0);
    let edges = AtomicU64::new(0);
    let max_i = AtomicU64::new(0);
    let viol: Mutex<Vec<(String, String, serde_json::Value)>> = Mutex::new(Vec::new());
    std::thread::scope(|sc| {
        for _ in 0..ck.threads {
            sc.spawn(|| loop {
                let i = next.fetch_add(1, Ordering::Relaxed) as usize;
                if i >= specs.len() {
                    break;
                }
                match explore_stream(&specs[i], seed, dense_limit) {
                    Ok(g) => {
                        nodes.fetch_add(g.nodes, Ordering::Relaxed);
                        edges.fetch_add(g.edges, Ordering::Relaxed);
                        max_i.fetch_max(g.max_i as u64, Ordering::Relaxed);
                    }
                    Err(v) => viol.lock().unwrap().push(v),
                }
            });
        }
    });
    let mut long_runs = 0u64;
    for &n in tier.pick(&[40usize, 300, 1100][..], &[40usize, 300, 1100, 5000][..]) {
        match long_stream(n, 0, seed) {
            Ok(r) => long_runs += r,
            Err(v) => viol.lock().unwrap().push(v),
        }
    }
    // one message of very many frames in front of a short stream (frame counts around the powers of two)
    for &f in tier.pick(&[255usize, 256, 257, 1023, 1024, 1025, 1026, 4097, 20_000][..], &[127usize, 128, 129, 255, 256, 257, 511, 512, 513, 1023, 1024, 1025, 1026, 2047, 2048, 2049, 4095, 4096, 4097, 20_000, 65_536, 65_537, 200_000][..]) {
        match long_stream(12, f, seed) {
            Ok(r) => long_runs += r,
            Err(v) => viol.lock().unwrap().push(v),
        }
    }
    ck.cov("long_stream_runs", long_runs);
    let mut vs = viol.into_inner().unwrap();
    vs.sort_by_key(|v| v.2.to_string().len());
    for (c, m, r) in vs {
        ck.finding(c, m, r);
    }
    // socket level
    let mut jobs = Vec::new();
    for ty in [Ty::Pull, Ty::Router, Ty::Dealer, Ty::Rep, Ty::Sub, Ty::XPub, Ty::Req] {
        let (s, _, _) = socket_stream(ty);
        let n = s.len();
        let mut cutsets: Vec<Vec<usize>> = vec![vec![]];
        for a in 1..n {
            cutsets.push(vec![a]);
            for b in a + 1..n {
                // quick: pairs only where both cuts are past the greeting or the first is inside the handshake's last 8 bytes
                if tier == Tier::Thorough || a >= 56 {
                    cutsets.push(vec![a, b]);
                }
            }
        }
        // byte-at-a-time
        cutsets.push((1..n).collect());
        for cs in cutsets {
            let cs2 = cs.clone();
            jobs.push(e3::job(
                format!("C02/socket/{}/{:?}", ty.name(), if cs.len() > 3 { vec![cs.len()] } else { cs.clone() }),
                json!({"scenario":"socket","type":ty.name(),"cuts":cs}),
                0,
                10,
                move || socket_scenario(ty, cs2.clone()),
            ));
        }
    }
    // bulk behind the handshake
    for ty in [Ty::Pull, Ty::Router, Ty::Dealer, Ty::Sub, Ty::XPub] {
        for pad in tier.pick(&[0usize, 1000, 9000, 20_000][..], &[0usize, 300, 1000, 8000, 9000, 12_000, 20_000, 40_000, 70_000][..]) {
            let (s, rs, re, _) = bulk_stream(ty, *pad);
            let mut cutsets: Vec<Vec<usize>> = vec![vec![]];
            // every single cut inside the greeting's last bytes and inside READY's header, around its end, and (for
            // the unpadded READY) at every position inside it
            let mut pos: Vec<usize> = (56..=rs + 12).collect();
            if *pad == 0 {
                pos.extend(rs..=re + 2);
            } else {
                pos.extend([rs + 100, re - 100, re - 1, re, re + 1, re + 2, re + 3000]);
                pos.extend((rs + 4096..re).step_by(4096));
            }
            pos.sort();
            pos.dedup();
            for a in pos.iter().filter(|a| **a > 0 && **a < s.len()) {
                cutsets.push(vec![*a]);
            }
            // READY cut once and the rest arriving in 8 KiB pieces
            cutsets.push(std::iter::once(rs + 5).chain((rs + 5 + 8192..s.len()).step_by(8192)).collect());
            for cs in cutsets {
                let cs2 = cs.clone();
                let pad2 = *pad;
                jobs.push(e3::job(format!("C02/bulk/{}/pad{}/{:?}", ty.name(), pad, if cs.len() > 3 { vec![cs.len()] } else { cs.clone() }), json!({"scenario":"bulk","type":ty.name(),"ready_pad":pad,"cuts":cs}), 0, 10, move || bulk_scenario(ty, pad2, cs2.clone())));
            }
        }
    }
    e3::run_jobs_into(&mut ck, jobs, false);
    let st = nodes.load(Ordering::Relaxed);
    let tr = edges.load(Ordering::Relaxed);
    ck.cov("states", st);
    ck.cov("transitions", tr);
    ck.cov("streams", specs.len() as u64);
    ck.cov("max_cut_positions_in_one_stream", max_i.load(Ordering::Relaxed));
    ck.cov(
        "traces_validated_against_impl",
        st + tr + ck.coverage.get("e3_executions").and_then(|v| v.as_u64()).unwrap_or(0),
    );
    ck.cov("exhaustive", true);
    ck.cov("explanation", format!("states = (bytes fed, reader state) nodes summed over {} streams (greeting + up to {} items from a 12-item menu (plus 65536 B and 70000 B frames alone, in front of and behind small items)); transitions = edges p->q, each executed on the real FramedRead over a harness reader and required to land in the unique state recorded for q; cut set = every byte position for streams up to {} bytes, else every position within 12 bytes of an item/frame/length-field boundary plus 4096k+-1. Each stream additionally: reference decode of every prefix, and EOF at every cut. Long-stream family (count-based, not a partition enumeration): greeting + READY + 40 / 300 / 1100 (thorough 5000) messages fed whole and in 19 fixed strides (1 B .. 20 kB); the same with one message of 255..20000 (thorough 200000) tiny frames in front (frame counts around the powers of two). Socket level: 7 socket types, all single cuts{} and byte-at-a-time delivery of greeting+READY+2 messages through real attach+recv; plus 'bulk behind the handshake' (the peer writes greeting + READY, optionally padded with an extra property of up to 20 kB (thorough 70 kB), + four 3 kB messages without waiting; one cut at every position of the greeting's tail and of READY, or READY cut once and the rest in 8 KiB pieces) for 5 socket types.", specs.len(), tier.pick(3, 4), dense_limit, tier.pick(", all pairs of cuts past byte 56", ", all pairs of cuts")));
    ck.sample(json!({"stream": build(&StreamSpec{items: vec![1,5]}, seed).2, "cut_positions": cut_set(build(&StreamSpec{items: vec![1,5]}, seed).0.len(), &[], 400).len()}));
    ck.assume("the reader's future behaviour is a function of (decoder Debug state, unread buffer bytes) and the remaining input — true of FramedRead2 + ZmqCodec, whose only fields these are");
    ck.assume("reads larger than 8 KiB are split by FramedRead2's own 8 KiB scratch buffer, as in production");
    ck.conclude()
}

#[allow(dead_code)]
fn _unused(_: RItem) {}
