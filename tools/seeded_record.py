#!/usr/bin/env python3
"""tools/seeded_record.py <ID> <caught_by csv|none> <note> — records my own confirmation of a seeded change in /verif/seeded/<ID>/meta.json"""
import json,sys,os
sid,caught,note=sys.argv[1],sys.argv[2],sys.argv[3]
d=f"/verif/seeded/{sid}"
m=json.load(open(d+"/meta.json")) if os.path.exists(d+"/meta.json") else {}
def tail(f):
    try: return [l.strip() for l in open(f"{d}/{f}").read().splitlines() if l.startswith("test result")][-3:]
    except Exception: return []
m["breaks_property"]=m.get("property",sid[:3])
m["confirmed_by_me"]={
  "what_i_ran":"tools/seeded_eval.sh: in the sub-agent's scratch worktree: `cargo test --offline --test seeded_demo` with the change, `cargo test --workspace --offline` with the change (demo moved aside), demo again with src stashed; then `git -C /repo apply patch.diff`, ./check <id> --tier quick, `git -C /repo checkout -- .`",
  "demo_with_change":tail("demo_with.log"),
  "suite_with_change_all_ok": all("ok." in l for l in tail("suite_with.log")) and len(tail("suite_with.log"))>0,
  "demo_without_change":tail("demo_without.log"),
}
m["caught_by_checks"]=[] if caught=="none" else caught.split(",")
m["verifier_note"]=note
json.dump(m,open(d+"/meta.json","w"),indent=1)
for f in ["demo_with.log","suite_with.log","demo_without.log"]:
    try: os.remove(f"{d}/{f}")
    except OSError: pass
print("recorded",sid,m["caught_by_checks"])
