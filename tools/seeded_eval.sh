#!/bin/bash
# tools/seeded_eval.sh <ID> [check ids...] — confirms a sub-agent's seeded change in its scratch worktree /tmp/wt_<ID>
# (suite passes with it, demo fails with it / passes without), copies it to /verif/seeded/<ID>/, then applies it to /repo,
# runs the given quick checks (default: <ID>) and reverts.
ID=$1; shift
CHECKS="${@:-$ID}"
WT=/tmp/wt_$ID
OUT=/verif/seeded/$ID
mkdir -p $OUT
cp $WT/_seeded/patch.diff $OUT/patch.diff || exit 2
cp $WT/_seeded/meta.json $OUT/meta.json 2>/dev/null
for f in $WT/_seeded/*; do case "$f" in *patch.diff|*meta.json) ;; *) cp "$f" $OUT/ ;; esac; done
cd $WT
echo "== [worktree] demo WITH the change"
cargo test --offline --test seeded_demo >$OUT/demo_with.log 2>&1; W=$?
tail -3 $OUT/demo_with.log
echo "== [worktree] suite WITH the change (demo moved aside)"
mv tests/seeded_demo.rs /tmp/seeded_demo_$ID.rs
cargo test --workspace --offline >$OUT/suite_with.log 2>&1; S=$?
grep -E "^test result|FAILED|failed" $OUT/suite_with.log | sort | uniq -c | head -8
echo "== [worktree] demo WITHOUT the change"
git diff -- src > /tmp/seeded_cur_$ID.diff   # (git stash is shared between worktrees: never use it here)
git checkout -- src
mv /tmp/seeded_demo_$ID.rs tests/seeded_demo.rs
cargo test --offline --test seeded_demo >$OUT/demo_without.log 2>&1; N=$?
tail -3 $OUT/demo_without.log
git apply /tmp/seeded_cur_$ID.diff; rm -f /tmp/seeded_cur_$ID.diff
echo "demo_with_exit=$W suite_with_exit=$S demo_without_exit=$N"
echo "== [/repo] applying patch and running checks: $CHECKS"
cd /verif
if [ -n "$(git -C /repo status --porcelain)" ]; then echo "REPO DIRTY"; exit 2; fi
PATCH=$OUT/patch.diff
[ -f $OUT/patch_adapted_to_head.diff ] && PATCH=$OUT/patch_adapted_to_head.diff
if ! git -C /repo apply $PATCH 2>/dev/null; then
  if ! git -C /repo apply --3way $PATCH 2>/dev/null; then echo "PATCH DOES NOT APPLY TO /repo HEAD (write $OUT/patch_adapted_to_head.diff)"; git -C /repo reset -q --hard HEAD; exit 3; fi
  git -C /repo reset -q 2>/dev/null
fi
# evidence files describe the UNCHANGED tree: keep them out of the way of runs on the changed tree
EVBAK=$(mktemp -d /tmp/evidence_bak.XXXXXX); cp -a evidence/. "$EVBAK"/
for c in $CHECKS; do
  out=$(./check $c --tier quick 2>&1); code=$?
  echo "--- $c exit=$code"; echo "$out" | grep -E "^VIOLATION|signature:|held|MACHINERY" | cut -c1-220 | head -8
done
git -C /repo checkout -- . ; git -C /repo status --short
rm -rf evidence; mkdir -p evidence; cp -a "$EVBAK"/. evidence/; rm -rf "$EVBAK"
find /verif/replays -name '*.json' -delete
