#!/usr/bin/env python3
"""Generates /verif/MANIFEST.json from the table below (keeps it valid and consistent)."""
import json, os, subprocess
ROOT = os.path.dirname(os.path.dirname(os.path.abspath(__file__)))

HOOK_COMMITS = subprocess.run(
    ["git", "-C", "/repo", "log", "--format=%H %s", "--grep=^verif-hooks:"],
    capture_output=True, text=True).stdout.strip().splitlines()

# id -> (engine, level category, level text, design ref, level note, technique)
CHECKS = {}
NOT_APPLICABLE = {}

def add(pid, engine, cat, text, ref, note, technique):
    CHECKS[pid] = dict(engine=engine, cat=cat, text=text, ref=ref, note=note, technique=technique)

add("C19", "E5 endpoint-enum", "model_checking",
    "Bounded-exhaustive: every string over a 18-symbol alphabet (incl. sign characters) (scheme letters, separators, brackets, digits, newline, "
    "2-byte and Unicode-digit characters) up to length 5/6, the same after 5 scheme-like prefixes, and a scheme x host x port "
    "product, each run through the real parser and compared with an independent reference parser; every accepted string is "
    "formatted and re-parsed. Totality, strictness and the parse-format-parse law are universally quantified over inputs; "
    "exhaustive enumeration of a small alphabet reaches the bracket/colon/digit edge cases that a table of examples cannot.",
    "DESIGN.md 5.18",
    "Trusted: std's Ipv4Addr/Ipv6Addr parsers (define 'literal'), the reference parser (60 lines, no regex). "
    "Not covered: strings outside the alphabet or longer than the bound.",
    "bounded-exhaustive input enumeration against a reference model (explicit enumeration, no sampling)")

add("C01", "E1 codec-enum + E3 sock-mc", "model_checking",
    "Bounded-exhaustive: every message whose frame lengths lie in the boundary grid G^N (N<=3; thorough adds MiB sizes, N=4 and all "
    "splits of 600 bytes) is encoded by the real codec and compared byte for byte with an independent RFC-23 encoder, decoded by the "
    "independent decoder and by the library; every message of <= 3 frames whose bodies are words of length <= 3 over the header-like bytes {00,01,02,04,ff} "
    "(3.8 M messages; contents must never influence framing); all greeting field combinations and READY encodings for 12 socket types x "
    "every identity length 0..=255 likewise; the bytes each of the 9 real socket types writes on an attached in-memory connection (no "
    "identity and every identity length 1..=255) and the bytes PUSH/DEALER/REQ/PUB/ROUTER/REP write for application messages with frame "
    "lengths in {0,1,255,256,65536}^(1..2) over a transport that accepts everything or only 3 B / 4093 B per write "
    "are checked under every schedule within the deviation bound. The statement quantifies over all inputs; the 255/256 and 2^16 "
    "boundaries are where an off-by-one hides and they are crossed exhaustively.",
    "DESIGN.md 5.1",
    "Trusted: the reference codec (refcodec.rs, written from RFC 23). Not covered: lengths between grid points, > 4 MiB.",
    "bounded-exhaustive input enumeration of the real codec against a reference codec + deviation-bounded schedule exploration of the real handshake")

add("C02", "E1 codec-enum + E3 sock-mc", "model_checking",
    "Explicit-state: for each stream (greeting + up to 3/4 items from a 12-item menu incl. empty, 255/256-byte, >8 KiB and multipart "
    "frames and READY variants) the graph whose nodes are (bytes fed, canonical reader state) is explored on the real framed reader: "
    "every edge p->q is executed and must land in the single state recorded for q, which must equal the reference decode of the "
    "prefix; since the reader is a deterministic function of that state and the remaining bytes this proves all 2^|I| partitions with "
    "cuts in I decode identically. Socket level: greeting+READY+2 messages delivered to 7 real socket types under all single cuts, "
    "pairs of cuts and byte-at-a-time through real attach+recv (covers data arriving in the segment that ends the handshake).",
    "DESIGN.md 5.2",
    "Assumes the reader's future is a function of (decoder Debug state, unread buffer bytes): true of FramedRead2+ZmqCodec whose only "
    "fields these are. Cuts outside the cut set for streams above the dense limit are not covered.",
    "explicit-state exploration of the (bytes fed, reader state) graph with state merging + exhaustive cut enumeration on real sockets")

add("C03", "E1 codec-enum + E3 sock-mc (child-process isolated)", "model_checking",
    "Bounded-exhaustive: every byte string over a 12-symbol alphabet (all flag combinations incl. reserved bit, small lengths, a name "
    "byte) up to length 5/6 after a valid greeting, fed whole and byte-at-a-time to the real framed reader; ~1700 structured hostile "
    "inputs (inconsistent command lengths truncated at every byte, 64-bit lengths incl. sign bit alone and followed by part of the declared body (sizes around the 8 KiB read size up to 300 kB / 1 MB), MORE chains up to 100000 frames), "
    "each in its own child process on a 2 MiB stack with a counting allocator (no panic, no abnormal exit, heap growth <= 1 MiB + 64 x "
    "bytes received); and one representative per distinct codec outcome fed at each of 3 handshake stages to each of the 9 real socket "
    "types next to a healthy peer whose traffic must still get through, under all schedules within the deviation bound. A crash is an "
    "abort no #[test] can assert on; child isolation turns it into an observable exit status.",
    "DESIGN.md 5.3",
    "Trusted: the counting allocator, child exit statuses. Not covered: byte strings longer than the sweep bound outside the structured family.",
    "bounded-exhaustive input enumeration with process-isolated fault observation + deviation-bounded schedule exploration on real sockets")

add("C04", "E3 sock-mc (sequential, complete product)", "model_checking",
    "Complete enumeration of the configuration space named by the property: 9 local types x 15 peer Socket-Type values x 5 versions x "
    "5 mechanisms x 3 signature variants x 5 identity options x 3 first items = 151875 real greeting/READY handshakes over in-memory "
    "pipes through the same peer_connected path bind and connect use, each compared with a reference admission predicate (RFC "
    "compatibility table, version >= 3.0, known mechanism, identity <= 255); every admitted configuration is probed behaviourally for "
    "'registered exactly once, under the announced or a fresh identity' (second peer + strict alternation of sends, exactly-once "
    "delivery/publish/routed send); every rejected one for 'closed, nothing but greeting/READY written, later traffic never "
    "delivered'; plus all 144 compatible() queries incl. symmetry and totality.",
    "DESIGN.md 5.4",
    "Assumes admission does not depend on scheduling (handshake code is sequential per connection): one execution per configuration. "
    "Trusted: the transcribed RFC table.",
    "exhaustive enumeration of the handshake configuration space on the real code against a reference predicate")

add("C05", "E2 fq-mc + E3 sock-mc", "model_checking",
    "Explicit-state model checking of the REAL FairQueue: breadth-first search over event histories (insert, data arrival, stream "
    "waker firing, close, remove, poll, and polls during which further events run re-entrantly in the window where poll_next has a "
    "stream checked out and the lock released), every transition replayed on a fresh queue, states merged on a canonical form; the "
    "bounded configurations (k<=3 streams, <=2-3 items) reach fixpoints, i.e. their complete reachable state space. Invariants on "
    "every transition: exactly-once in-order delivery per stream, no swallowed item, no live stream dropped, closed streams drained. "
    "Socket level: 6 receiving socket types with 1-3 raw peers under every schedule within 2 (thorough 3) deviations over scheduling "
    "order, library yield points and deliveries landing inside pipe reads; per-peer projection of recv results must equal the "
    "reference decode of what the peer wrote. Families on top: cooperative yields on reads; every peer's last message ends with an "
    "empty frame; a peer with an announced identity living three lives (clean close / reset between them, observed or not before the "
    "next life) next to a peer that stays; 17-130 (thorough 520) peers under the default schedules (not exhaustive in n). Every recv "
    "runs under a waker of its own and is re-polled only when that waker fires.",
    "DESIGN.md 5.5",
    "State merging: tickets are only compared, so rank-normalised; fingerprints are 128-bit hashes of the canonical state. "
    "E3 atomicity: one poll between yield points is atomic. Trusted: parking_lot, BinaryHeap, HashMap, scc.",
    "explicit-state BFS to fixpoint over the real fair queue + stateless deviation-bounded DFS over real sockets")

add("C06", "E2 fq-mc (+ E3 socket-level quiescence oracle)", "model_checking",
    "Same explicit-state search as C05 with liveness oracles: on every reachable state, (1) a parked, un-woken receiver and a stored "
    "stream with an available item or end-of-stream imply a pending wake and a published receiver waker; (2) the fair continuation "
    "(fire every due wake, poll whenever woken) drains every stored stream. Dedicated fairness configurations with a busy stream "
    "pre-loaded with 2(n-1)+3 items bound deliveries to other streams while a stream is ready by 2(n-1) and report the maximum "
    "observed (n-1). Liveness needs an adversarial scheduler: the events that land inside the lock-free window are in the space. "
    "Socket level: the C05 scenarios judged for 'complete message undelivered at quiescence while recv is pending'.",
    "DESIGN.md 5.6",
    "Same merging argument as C05. Memory orderings inside parking_lot are not explored.",
    "explicit-state BFS to fixpoint with per-state liveness (fair-drain) oracle on the real fair queue")

add("C07", "E3 sock-mc (sequential, complete product)", "model_checking",
    "Complete product of payload shapes (1..4 frames, each empty / 1 byte / 256 bytes; thorough adds 70 kB) x routing prefixes of 0..3 "
    "identity frames (1 B / 255 B) x three set-ups on the real sockets over in-memory pipes: real REQ against a raw REP peer (exact "
    "wire envelope after send; delimiter stripped exactly on recv; 4 malformed reply shapes never handed over as Ok), raw "
    "REQ/DEALER/ROUTER-chain peer against a real REP (recv = frames after the first empty frame; reply = saved prefix + delimiter + "
    "reply), real REQ against real REP back to back; plus degenerate requests (delimiter-only, single frame, delimiter last) that must "
    "never surface as a zero-frame message; two-step histories on one REP socket (the reply to the second request carries exactly the "
    "second request's envelope whatever happened to the first); and every history of <= 5 (thorough 6) steps over {request/reply, peer "
    "0/1 closes, peer 0/1's connection fails writes, peer 0 reconnects under its identity} on one REQ socket with two echo peers (every "
    "accepted request is exactly [\"\", payload] on exactly one wire, a refused one is handed back unmodified, echoes come back as the "
    "payload; short histories also under every schedule with 1-2 deviations). Wire bytes are judged by the independent reference decoder.",
    "DESIGN.md 5.7",
    "Envelope handling is sequential per socket, so one schedule per case. Requests with no empty frame are not judged (undefined by "
    "the statement).",
    "exhaustive enumeration of payload x envelope shapes on the real sockets against reference envelope rules")

add("C08", "E3 sock-mc", "model_checking",
    "(a) Every call sequence over {send, recv} of length <= 6 on a real REQ (0/1/2 echo peers) and a real REP (requests queued by 1/2 "
    "peers) is executed and compared step by step with a 2-state reference machine: out-of-turn calls fail, hand the message back "
    "frame for frame, write nothing, leave the state unchanged; a reply lands on exactly the requester's connection. (b) 2 (thorough "
    "3) real REQ sockets against one real REP over in-memory pipes under EVERY schedule with <= 3 deviations (scheduling order, "
    "yield points, deliveries inside pipe reads) from 3 default policies: each client receives exactly the echoes of its own "
    "requests, in order. Reply mis-routing needs interleavings the OS scheduler rarely produces; here they are enumerated.",
    "DESIGN.md 5.8",
    "One poll between yield points is atomic. Echo peers are harness state machines.",
    "exhaustive call-sequence enumeration against a reference state machine + stateless deviation-bounded DFS over real sockets")

add("C09", "E3 sock-mc", "model_checking",
    "Real ROUTER with 1-3 raw peers (announced 1-byte / 255-byte identities, auto-assigned ones), each sending multipart messages, "
    "under every schedule within the deviation bound from 3 default policies; oracle: first frame of each recv result = identity "
    "returned by that connection's attach, rest = reference decode of that peer's bytes, per peer in order; sends to each identity "
    "appear minus the first frame on exactly that wire; unknown identities fail with no wire growing; a peer that closed both "
    "directions is not reachable and causes no bytes elsewhere. Reconnect family (a new connection announces an identity whose old "
    "connection has not been noticed gone): sends reach the new connection. Abandoned-send family (a send to A dropped while A's "
    "connection accepts nothing, as a timeout does; then it recovers): later sends to A and B succeed and arrive whole on the addressed wire.",
    "DESIGN.md 5.9",
    "Auto identities come from a per-execution counter through a seam in the vendored uuid crate (values are unique, reproducible). "
    "Single-frame sends are outside the statement.",
    "stateless deviation-bounded DFS over the real socket against wire-tap ground truth")

add("C10", "E3 sock-mc", "model_checking",
    "Real PUSH, DEALER and REQ with 0..2 (thorough 3) raw peers x 3 message shapes (incl. 200 kB) x write behaviour of one connection "
    "(accept all / few bytes per write / stall-then-resume) x sends racing with joins, under every schedule within the deviation "
    "bound from 3 default policies; the oracle is evaluated at the very step send() returns: exactly one peer's application bytes "
    "grew, by exactly the reference encoding (nothing left in the framed writer); any n consecutive successful sends with n stable "
    "peers hit n distinct peers; no peer => ReturnToSender with identical frames and no wire grows. Families on top: peers dying one "
    "after the other while sends go on (exact wire bytes on survivors, message handed back intact once nobody is left); a peer "
    "reconnecting under its announced identity (strict alternation afterwards); a send abandoned while it waits for a stalled "
    "connection (after k polls or when nothing else can happen), then recovery (every later send succeeds, strict rotation, whole "
    "messages only, each accepted message exactly once).",
    "DESIGN.md 5.10",
    "Rotation is judged over the phase after every attach has returned (a peer between its registration steps may or may not be in "
    "the rotation yet).",
    "stateless deviation-bounded DFS over the real sockets with per-step wire-tap oracle")

add("C11", "E3 sock-mc (exhaustive histories)", "model_checking",
    "For the real PUB and XPUB sockets: every history of length <= 3 (thorough 4) over 11 per-subscriber operations (subscribe / "
    "unsubscribe to \"\", a, ab, b; three malformed subscription messages) for one subscriber and every pair of histories of length "
    "<= 2 for two subscribers, followed by publishing first frames \"\", a, ab, abc, b, c; compared with a reference multiset-of-prefixes "
    "model on the reference-decoded wires: delivered exactly once iff a subscription is a byte-prefix; XPUB.recv returns the "
    "subscribers' messages verbatim in per-peer order. Duplicates, overlapping prefixes, exact-length topics and unsubscribe-then-"
    "publish are all inside the enumerated space. Families on top: a subscriber reconnecting under its identity while the old connection "
    "ends (every interleaving within 3-4 deviations); each of 2..3 subscribers in turn starting to fail writes before three matching "
    "publishes, under 3 hash keys (iteration orders): every other subscriber gets each message exactly once.",
    "DESIGN.md 5.11",
    "Matching is sequential: default schedule per history plus every single deviation on short histories.",
    "exhaustive operation-history enumeration on the real sockets against a reference model")

add("C12", "E3 sock-mc (fault sequences)", "model_checking",
    "Real PUB/XPUB with a slow and a healthy subscriber: ALL sequences over 6 publishes of the slow connection's behaviour {open, "
    "stalled, accepts 1000 bytes then stalls, broken pipe} x size profiles around the 128 KiB high-water mark (1 B .. 200 kB). "
    "Oracle: every publish returns while the slow pipe makes no progress; the healthy subscriber misses nothing; the slow wire is a "
    "well-formed order-preserving subsequence of complete messages; bytes held for the slow subscriber never exceed HWM + one "
    "message (wire accounting) and net heap growth stays bounded (counting allocator). Loopback TCP never pushes back in the suite, so "
    "these paths are dead code there; here the stall pattern is the enumerated space.",
    "DESIGN.md 5.12",
    "'Not accepting data' = the harness pipe's poll_write returns Pending. Heap bound has slack for buffer capacity doubling.",
    "exhaustive fault-sequence enumeration on the real sockets with wire-tap and allocator oracles")

add("C13", "E3 sock-mc", "model_checking",
    "Real SUB socket: every history of subscribe/unsubscribe calls over 2 topics up to length 3 (thorough 4) with 1-2 (thorough 3) raw "
    "peers whose attach may run at ANY point, including between the snapshot of the set and the registration and between the set "
    "update and the fan-out (yield points), under every schedule within the deviation bound from 2 policies and both spawn orders; "
    "plus one peer whose connection starts failing writes at any point, for each iteration position (hash key of the peer table). "
    "Oracle from the reference-decoded wires folded into per-topic counts: all live peers agree; the view equals the socket's set; a "
    "failing peer does not stop the others; no panic.",
    "DESIGN.md 5.13",
    "For double-subscribe histories only agreement is demanded. scc hashing is owned through the vendored-scc seam.",
    "stateless deviation-bounded DFS over the real socket with yield points at the non-atomic registration / fan-out steps")

add("C14", "E3 sock-mc (cancellation points) + E2", "model_checking",
    "For 7 real socket types: the peer's two messages are cut at EVERY byte offset into two chunks and the application runs EVERY "
    "well-formed action string (length <= 6, thorough 7) over {poll the recv future once, next chunk arrives, drop the pending "
    "future} — every cancellation point relative to every arrival position, repeated — then receives to completion: results must be "
    "exactly the peer's messages, in order, once. REQ: abandoned recv calls must leave the socket owing that recv (a new send fails "
    "with ReturnToSender, recv returns the reply to the outstanding request) with the reply arriving before / during / after the "
    "abandoned call. Every recv call runs under a waker of its own that is dead once the call has been dropped (as when the socket "
    "moves to another task); in a second variant the remaining bytes arrive only once the final call is parked, which is re-polled "
    "only when its own waker fires. Burst family: 40-300 (thorough 2100) messages with every recv call polled at most k times and "
    "dropped if still pending. REP: every string of polled-and-dropped recv calls while a reply is owed. The fair queue's part "
    "is additionally covered by E2's always-enabled spurious Poll (new receiver-waker generation per poll).",
    "DESIGN.md 5.14",
    "The cancellation point of a future is between two polls; each poll is atomic.",
    "exhaustive enumeration of cancellation points x arrival positions on the real sockets")

add("C15", "E3 sock-mc", "model_checking",
    "The real proxy(ROUTER, DEALER, capture) with capture in {none, PUSH + raw PULL peer}, 1-2 raw REQ-like clients x 2 requests "
    "(payloads with empty frames) and 1-2 raw echo workers under every schedule within the deviation bound from 3 default policies, "
    "including BOTH select! branch orders at every loop iteration (choice point through the vendored futures-util seam) and both "
    "sides becoming ready in the same poll. Oracle from the reference-decoded wires: each request exactly once on a worker's wire as "
    "[client-id, \"\", payload...], per client in order; each client gets exactly the echoes of its own requests; the capture wire "
    "holds a copy of each forwarded message; proxy() does not return.",
    "DESIGN.md 5.15",
    "select! randomness is owned through a 12-line seam in a vendored futures-util (harness workspace only).",
    "stateless deviation-bounded DFS over the real proxy incl. select! branch order")

add("C16", "E3 sock-mc (fault enumeration at every byte offset)", "model_checking",
    "For each of the 9 real socket types: a victim peer's stream (greeting + READY + 2 messages) cut at EVERY byte offset by {close, "
    "reset, silence with failing writes} next to a live peer, every schedule within the deviation bound. Oracle: handshake-stage cut "
    "=> attach fails and both connection halves are dropped; later cut => the live peer's messages are all delivered, at most one "
    "error is reported and recv then parks or delivers (step horizon = spin), no send after the end was observed reaches the victim, "
    "and at final quiescence both halves of the victim's connection (peer-table entry, buffers, transport handle) have been "
    "dropped. Genuine defects found were repaired (6 fix commits); the remaining one (clean end-of-stream leaks the write half) is a "
    "listed known finding.",
    "DESIGN.md 5.16",
    "'Released' = the harness pipe halves handed to the library were dropped. Descriptor counting over real TCP/IPC is not part of "
    "this check.",
    "exhaustive fault-point enumeration with deviation-bounded schedule exploration on the real sockets")

add("C17", "E4 rt-grid + E3 sock-mc", "model_checking",
    "Two parts. E3 (model checking under the controlled executor): for each of the 9 real socket types the socket is dropped at "
    "each point of a scenario with an established peer with traffic and a second peer at 3 handshake stages, under every schedule "
    "within the deviation bound, 2 policies and several peer-table hash keys, plus a targeted history (drop right after a recv that "
    "another peer's registration was queued behind): the drop must return (a synchronous wait on a lock owned by a suspended task of "
    "the only thread is detected through a seam in the vendored saa crate and reported as thread-blocked), every connection half "
    "must be dropped and every library-spawned task completed by quiescence. E4 (real tokio runtime and real TCP v4 / v6 / IPC; OS "
    "schedules not enumerated): the complete grid 9 types x 3 transports x 7 history prefixes (incl. a peer that stopped reading with "
    "data stuck on the socket's side) x {close, drop} = 366 cases with "
    "monotone conditions awaited up to 5 s (plus, in a child process with a lowered descriptor limit, 12 cases after an accept() that "
    "failed with EMFILE): close() returns, connects refused (at once after close() returns), IPC file gone, endpoint bindable "
    "again, every established peer and every client parked in the handshake sees EOF, close() reports nothing, alive-task count back "
    "to baseline.",
    "DESIGN.md 5.17",
    "E4 does not own OS scheduling; its oracles are schedule-insensitive. close()'s error reporting is checked only for failure-free "
    "closes. TCP cases run one at a time (port reuse between parallel cases would fake a surviving listener).",
    "stateless deviation-bounded DFS over the real sockets (drop at every point) + exhaustive configuration/history grid on the real runtime")

add("C18", "E4 rt-grid (private network namespaces)", "exploration",
    "Every operation sequence up to length 4 (thorough 5) over {bind TCP v4 / v6 / localhost port 0, bind IPC path, bind an already "
    "bound endpoint, unbind oldest, unbind unknown, connect in to every bound endpoint by its text form and exchange a message, "
    "exchange on every established connection, re-bind the endpoint unbound last, 150 clients closing in mid-handshake followed by a "
    "well-behaved one} on a real REP and a real PULL socket on the real tokio runtime, against a reference "
    "model of the bind set; after EVERY operation: return values, binds() contents, every bound endpoint accepts and works, every "
    "unbound endpoint refuses at once, established connections survive. Bounded-exhaustive over operation histories, but OS "
    "scheduling is not enumerated, hence level 'exploration' rather than model checking. Worker processes run in private network "
    "namespaces so that a released port cannot be re-taken by another process.",
    "DESIGN.md 5.17",
    "Not owned: OS scheduling, kernel buffers. Conditions tied to a return are tested immediately after the return.",
    "exhaustive operation-sequence enumeration on the real runtime against a reference model (schedules not enumerated)")

add("C20", "E4 rt-grid (fault enumeration)", "fault_enumeration",
    "For each of the 9 bound socket types over real TCP v4 (thorough: + TCP v6, IPC): a raw client that sends the first k bytes of a "
    "valid greeting+READY for EVERY k and then goes silent / closes / switches to garbage (1 client; 3 at every 16th offset), with "
    "well-behaved clients connecting before, while and after. Oracle (monotone conditions, 5 s horizon): the client connecting "
    "meanwhile completes its handshake and a message exchange (for round-robin senders one send per well-behaved client must reach "
    "every one of them, so a half-handshaken connection in the rotation is detected); established traffic continues; the monitor "
    "reports AcceptFailed for every client that closes mid-handshake and never more Accepted events than completed handshakes. Scale "
    "family (not exhaustive in the counts): 1/8/64 (256) stalled clients, or 200 (600) closing / garbage clients, followed by 20 (100) "
    "well-behaved clients one after the other.",
    "DESIGN.md 5.17",
    "Not owned: OS scheduling. 'Never completes' is observed as 'not within 5 s'.",
    "exhaustive fault-offset enumeration on the real runtime (schedules not enumerated)")

PENDING = ["C01","C02","C03","C04","C05","C06","C07","C08","C09","C10","C11","C12","C13","C14","C15","C16","C17","C18","C20"]

def main():
    checks = []
    for pid in sorted(CHECKS):
        c = CHECKS[pid]
        checks.append({
            "property_id": pid,
            "quick_cmd": f"./check {pid} --tier quick",
            "thorough_cmd": f"./check {pid} --tier thorough",
            "evidence_file": f"/verif/evidence/{pid}.json",
            "replay_cmd_template": f"./check {pid} --replay {{path}}",
            "engine": c["engine"],
            "level_claimed": {"category": c["cat"], "text": c["text"], "design_ref": c["ref"]},
            "level_note": c["note"],
            "technique": c["technique"],
        })
    na = [{"property_id": p, "reason": NOT_APPLICABLE.get(p, "check not built yet (work in progress; see DESIGN.md section 5 for the planned model-checking approach)")}
          for p in PENDING if p not in CHECKS]
    m = {
        "version": 1,
        "setup_cmd": "cd /verif/harness && CARGO_NET_OFFLINE=true cargo build --release --offline",
        "hooks": {
            "guard": "cargo feature verif-hooks (zeromq/Cargo.toml [features] verif-hooks = [])",
            "enable": "the harness depends on zeromq = { path = \"/repo\", features = [\"verif-hooks\"] }; every ./check run does `cargo build --release --offline` in /verif/harness, which rebuilds zeromq from /repo's working tree",
            "baseline_off_cmd": "cd /repo && cargo nextest run --workspace --no-fail-fast --tool-config-file pb:/w/lib/nextest.toml --profile pb --test-threads 8 --offline || cargo test --workspace --no-fail-fast --offline",
            "source_commits": [l.split()[0] for l in HOOK_COMMITS],
            "add_only": True,
        },
        "engines": [
            {"name": "E1 codec-enum", "path": "harness/zv/src/e1.rs", "serves_properties": ["C01","C02","C03"], "kind_free_text": "bounded-exhaustive input enumeration + explicit-state (bytes fed, reader state) graph over the real codec / framed reader"},
            {"name": "E2 fq-mc", "path": "harness/zv/src/e2.rs", "serves_properties": ["C05","C06","C14"], "kind_free_text": "explicit-state BFS over event histories of the real FairQueue with scripted streams"},
            {"name": "E3 sock-mc", "path": "harness/zvcore/src/{world,explore}.rs", "serves_properties": ["C02","C03","C04","C05","C07","C08","C09","C10","C11","C12","C13","C14","C15","C16","C17"], "kind_free_text": "stateless deviation-bounded DFS over all choice points of the real sockets under a single-threaded deterministic executor with in-memory pipes"},
            {"name": "E4 rt-grid", "path": "harness/zv/src/e4.rs", "serves_properties": ["C17","C18","C20"], "kind_free_text": "exhaustive configuration x history x fault-offset grids on the real tokio runtime and real TCP/IPC"},
            {"name": "E5 endpoint-enum", "path": "harness/zv/src/c19.rs", "serves_properties": ["C19"], "kind_free_text": "exhaustive string enumeration against a reference parser"},
        ],
        "checks": checks,
        "not_applicable": na,
        "notes": "All checks: ./check <ID> --tier quick|thorough [--replay FILE]; exit 0 held / 1 VIOLATION / 2 machinery failure. Known findings: /verif/known_findings.json.",
    }
    with open(os.path.join(ROOT, "MANIFEST.json"), "w") as f:
        json.dump(m, f, indent=1)
        f.write("\n")
    # validate if jsonschema is available
    try:
        import jsonschema
        schema = json.load(open("/root/.vp/MANIFEST.schema.json"))
        jsonschema.validate(m, schema)
        print("MANIFEST.json valid;", len(checks), "checks,", len(na), "not_applicable")
    except ImportError:
        print("MANIFEST.json written (jsonschema not available for validation)")

if __name__ == "__main__":
    main()
